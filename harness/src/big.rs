//! "Scaled-up" inputs: an otherwise ordinary input in which ONE dimension is made large — a long run
//! of characters, a tag with dozens of attributes, hundreds of siblings, many references — with sizes
//! placed on and around powers of two (16, 32, 64, ... 4096, 8192). The ordinary generators stay below
//! ~300 characters, which is enough for state-machine behaviour but cannot reach block sizes, look-back
//! windows and buffer limits (seeded changes C05-b2, C07-b2, C17-b2 needed 33 attributes, a 64-byte
//! and a 4096-byte run respectively).

use crate::prng::Rng;

/// a length on or next to a power of two, or an arbitrary one
pub fn big_len(rng: &mut Rng, max: usize) -> usize {
    let p = 1usize << rng.range(4, 13); // 16 .. 8192
    let n = match rng.below(5) {
        0 => p,
        1 => p - 1,
        2 => p + 1,
        3 => p.saturating_sub(rng.below(8)) + rng.below(8),
        _ => rng.below(max + 1),
    };
    n.clamp(1, max.max(1))
}

/// `n` bytes (about) of filler without any character that is special anywhere in HTML or XML
pub fn filler(rng: &mut Rng, n: usize) -> String {
    let unit: &str = match rng.below(8) {
        0 => "é",
        1 => "日",
        2 => "\u{10ffff}",
        3 => "\u{bf}", // U+00BF: second byte 0xBF
        4 => "a\u{a0}", // NBSP now and then
        _ => "",
    };
    let mut s = String::with_capacity(n + 4);
    if unit.is_empty() {
        let c = (b'a' + rng.below(26) as u8) as char;
        let mixed = rng.chance(1, 2);
        for i in 0..n {
            s.push(if mixed { (b'a' + ((i * 7 + 3) % 26) as u8) as char } else { c });
        }
    } else {
        while s.len() + unit.len() <= n {
            s.push_str(unit);
        }
        while s.len() < n {
            s.push('x');
        }
    }
    s
}

/// a long run with a few characters from `specials` placed at the end, at the start, or inside
pub fn long_run(rng: &mut Rng, max: usize, specials: &[&str]) -> String {
    let n = big_len(rng, max);
    let mut s = filler(rng, n);
    if specials.is_empty() {
        return s;
    }
    match rng.below(4) {
        0 => s.push_str(rng.pick_s(specials)),
        1 => {
            let mut t = rng.pick_s(specials).to_string();
            t.push_str(&s);
            t.push_str(rng.pick_s(specials));
            s = t;
        },
        2 => {
            // several, at character boundaries
            let k = rng.range(1, 6);
            for _ in 0..k {
                let mut pos = rng.below(s.len() + 1);
                while !s.is_char_boundary(pos) {
                    pos -= 1;
                }
                s.insert_str(pos, rng.pick_s(specials));
            }
        },
        _ => {
            // a second run behind the special, so that it sits between two block-sized runs
            s.push_str(rng.pick_s(specials));
            let m = big_len(rng, max);
            s.push_str(&filler(rng, m));
            s.push_str(rng.pick_s(specials));
        },
    }
    s
}

const TEXT_SPECIALS: &[&str] = &["<", "&", ">", "\"", "'", "&amp;", "&lt;", "\r", "\n", "\r\n", "\0", "\u{a0}", "&#x41;", "&notit;", "]]>", "--", "<b>", "</p>"];
const ATTR_SPECIALS: &[&str] = &["<", "&", ">", "'", "&amp;", "&quot;", "\r", "\n", "\0", "\u{a0}", "&#34;", "&lt", "=", " ", "\t"];

/// a start tag with many attributes; a few names are repeated at a distance. `xml` adds namespace
/// declarations and prefixed names (two prefixes bound to the same URI in half of the cases).
pub fn wide_tag(rng: &mut Rng, xml: bool) -> String {
    let n = match rng.below(4) {
        0 => rng.range(30, 40),
        1 => rng.range(60, 70),
        2 => rng.range(2, 20),
        _ => rng.range(20, 140),
    };
    let mut names: Vec<String> = (0..n).map(|i| if xml && i % 5 == 1 { format!("p:a{i}") } else if xml && i % 7 == 2 { format!("q:a{i}") } else { format!("a{i}") }).collect();
    // duplicates at a distance
    let dups = rng.range(1, 4);
    for _ in 0..dups {
        let i = rng.below(names.len());
        let gap = match rng.below(4) {
            0 => 31,
            1 => 32,
            2 => 33,
            _ => rng.below(names.len() + 1),
        };
        let j = (i + 1 + gap).min(names.len());
        let mut nm = names[i].clone();
        if xml && rng.chance(1, 3) {
            // same expanded name through the other prefix (when both are bound to one URI)
            nm = if let Some(l) = nm.strip_prefix("p:") { format!("q:{l}") } else if let Some(l) = nm.strip_prefix("q:") { format!("p:{l}") } else { nm };
        } else if !xml && rng.chance(1, 3) {
            nm = nm.to_uppercase();
        }
        names.insert(j, nm);
    }
    let mut out = String::from(if xml { "<e" } else { "<div" });
    if xml {
        let same = rng.chance(1, 2);
        let decl = format!(" xmlns:p=\"urn:p\" xmlns:q=\"{}\"", if same { "urn:p" } else { "urn:q" });
        if rng.chance(1, 2) {
            out.push_str(&decl);
        } else {
            // declarations at the end of the tag
            names.push(String::new());
        }
        for (k, nm) in names.iter().enumerate() {
            if nm.is_empty() {
                out.push_str(&decl);
            } else {
                out.push_str(&format!(" {nm}=\"v{k}\""));
            }
        }
    } else {
        for (k, nm) in names.iter().enumerate() {
            match rng.below(6) {
                0 => out.push_str(&format!(" {nm}")),
                1 => out.push_str(&format!(" {nm}=v{k}")),
                2 => out.push_str(&format!("\n{nm}='v{k}'")),
                _ => out.push_str(&format!(" {nm}=\"v{k}\"")),
            }
        }
    }
    out.push_str(if xml && rng.chance(1, 3) { "/>" } else { ">" });
    out
}

pub fn big_html(rng: &mut Rng) -> String {
    match rng.below(14) {
        0 => format!("<p>{}</p>x", long_run(rng, 9000, TEXT_SPECIALS)),
        1 => format!("<a href=\"{}\" id=z>t</a>", long_run(rng, 9000, ATTR_SPECIALS)),
        2 => format!("<a href='{}'>t</a>", long_run(rng, 5000, &["\"", "&", "<", "\r\n", "&amp;"])),
        3 => format!("<a href={}>t</a>", long_run(rng, 5000, &["&", "\"", "'", "=", "&amp"])),
        4 => format!("<!--{}-->y", long_run(rng, 5000, &["-", "--", "--!", "<!--", "\r", "\0", ">"])),
        5 => format!("{}text</div>", wide_tag(rng, false)),
        6 => {
            let n = big_len(rng, 600);
            let item = *rng.pick(&["<li>x", "<p>y", "<b>", "<td>c", "<option>o", "<dd>d<dt>t", "x<br>", "<i>z</i>"]);
            format!("{}{}", rng.pick_s(&["<ul>", "", "<table><tr>", "<select>", "<dl>"]), item.repeat(n))
        },
        7 => {
            let len = big_len(rng, 3000);
            let name = filler(rng, len).replace('\u{a0}', "b");
            format!("<{name} {name}=1>t</{name}>")
        },
        8 => {
            let el = *rng.pick(&["script", "style", "textarea", "title", "xmp", "plaintext"]);
            format!("<{el}>{}</{el}>z", long_run(rng, 9000, &["<", "</", "</s", "<!--", "-->", "&amp;", "\r", "\0", "&"]))
        },
        9 => {
            let n = big_len(rng, 2000);
            let r = *rng.pick(&["&amp;", "&#x41;", "&lt", "&notit;", "&#0;", "&#x110000;", "&unknown;", "&", "&#"]);
            format!("<p title=\"{}\">{}", r.repeat(n.min(500)), r.repeat(n))
        },
        10 => format!("<svg><![CDATA[{}]]></svg>w", long_run(rng, 6000, &["]", "]]", "]>", "<", "&", "\r\n", "\0"])),
        11 => format!("<!DOCTYPE html PUBLIC \"{}\" '{}'>d", long_run(rng, 3000, &["'", ">", "\r", "\0"]), long_run(rng, 300, &["\"", "\r"])),
        12 => {
            // many formatting elements, then a block and misnested end tags
            let n = rng.range(2, 40);
            let f = *rng.pick(&["<b>", "<i>", "<a>", "<font size=1>", "<nobr>"]);
            format!("{}<div>x{}y", f.repeat(n), rng.pick_s(&["</b>", "</i>", "</a>", "</font>", "</nobr>"]).repeat(n.min(12)))
        },
        _ => {
            let rows = rng.range(1, 60);
            let cells = rng.range(1, 20);
            format!("<table>{}</table>", format!("<tr>{}", "<td>c".repeat(cells)).repeat(rows))
        },
    }
}

pub fn big_xml(rng: &mut Rng) -> String {
    match rng.below(10) {
        0 => format!("<r>{}</r>", long_run(rng, 9000, &["&amp;", "&lt;", "&", "\r", "\r\n", "\0", ">", "\"", "'", "]]>", "&#65;", "&#x10FFFF;"])),
        1 => format!("<r a=\"{}\" b='2'/>", long_run(rng, 9000, &["&amp;", "&lt;", "&quot;", "'", "&", "\r", "\n", "\t", ">", "\0", "&#34;"])),
        2 => format!("<r a='{}'/>", long_run(rng, 5000, &["\"", "&amp;", "&apos;", "<", "\r\n"])),
        3 => format!("<r><!--{}--></r>", long_run(rng, 5000, &["-", "\r", "\0", ">", "<"])),
        4 => format!("<r><?pi {}?></r>", long_run(rng, 5000, &["?", "\r", "\0", ">", " "])),
        5 => format!("<r><![CDATA[{}]]></r>", long_run(rng, 6000, &["]", "]]", "<", "&", "\r\n", "\0"])),
        6 => {
            let t = wide_tag(rng, true);
            if t.ends_with("/>") {
                format!("<r>{t}</r>")
            } else {
                format!("<r>{t}x</e></r>")
            }
        },
        7 => {
            let n = big_len(rng, 600);
            format!("<r xmlns:p='urn:p'>{}</r>", rng.pick_s(&["<a/>", "<p:a>t</p:a>", "<a b='1'/>x", "<!--c-->", "t<?p d?>"]).repeat(n))
        },
        8 => {
            let len = big_len(rng, 3000);
            let name = filler(rng, len).replace('\u{a0}', "b");
            format!("<{name} {name}='1'><p:{name} xmlns:p='{}'/></{name}>", long_run(rng, 5000, &["&amp;", " "]))
        },
        _ => {
            // nested namespace scopes
            let n = rng.range(2, 120);
            let mut s = String::new();
            for i in 0..n {
                s.push_str(&format!("<p:e{} xmlns:p='urn:{}'>", i % 3, i % 5));
            }
            s.push_str("<p:leaf p:k='v'/>");
            for i in (0..n).rev() {
                s.push_str(&format!("</p:e{}>", i % 3));
            }
            s
        },
    }
}

/// a few cut positions for large inputs: ends of power-of-two prefixes, around the middle, random
pub fn big_cuts(rng: &mut Rng, n: usize) -> Vec<usize> {
    if n < 2 {
        return vec![];
    }
    let mut v: Vec<usize> = match rng.below(4) {
        0 => vec![],
        1 => vec![rng.below(n)],
        2 => (0..rng.range(1, 8)).map(|_| rng.below(n)).collect(),
        _ => {
            // fixed-size blocks
            let b = *rng.pick(&[1usize, 7, 16, 64, 1000, 4096]);
            if n / b > 3000 {
                vec![n / 2]
            } else {
                (1..).map(|k| k * b).take_while(|x| *x < n).collect()
            }
        },
    };
    v.sort();
    v
}
