//! Reference WHATWG HTML tokenizer (to be written).

use super::{RefSink, RefTokOpts};

/// Tokenize `input` completely (including the final EOF token), delivering tokens to `sink`.
/// Returns the set of (state name, input class) transitions exercised.
pub fn run_reftok(_input: &str, _opts: &RefTokOpts, _sink: &mut dyn RefSink) -> std::collections::BTreeSet<(&'static str, &'static str)> {
    unimplemented!()
}
