//! Reference WHATWG HTML tokenizer (HTML Standard §13.2.5 "Tokenization", with the §13.2.3.5
//! input-stream preprocessing and the character-reference states §13.2.5.72–80).
//!
//! Written from the specification, independently of the crate under test. One method per
//! spec state, named after the state; the spec's "temporary buffer", "return state" and
//! "character reference code" are explicit fields. The input is normalised up front
//! (CR LF -> LF, lone CR -> LF) into a `Vec<char>` and consumed one code point at a time.
//!
//! Parse errors are not reported (they are mentioned in comments only).

use super::entities::ENTITIES;
use super::{RefSink, RefTokOpts};
use crate::gen::StartState;
use crate::tokrec::{Answer, RTok};
use std::collections::BTreeSet;

/// Set of (spec state name in kebab-case, input class) pairs exercised by a run.
pub type Coverage = BTreeSet<(&'static str, &'static str)>;

/// Tokenize `input` completely (including the final EOF token), delivering tokens to `sink`.
/// Returns the set of (state name, input class) transitions exercised.
pub fn run_reftok(input: &str, opts: &RefTokOpts, sink: &mut dyn RefSink) -> Coverage {
    let mut t = Tokenizer::new(input, opts, sink);
    t.run();
    t.cov
}

// ---------------------------------------------------------------------------------------------
// states

#[derive(Clone, Copy, Debug, PartialEq, Eq)]
enum State {
    Data,
    Rcdata,
    Rawtext,
    ScriptData,
    Plaintext,
    TagOpen,
    EndTagOpen,
    TagName,
    RcdataLessThanSign,
    RcdataEndTagOpen,
    RcdataEndTagName,
    RawtextLessThanSign,
    RawtextEndTagOpen,
    RawtextEndTagName,
    ScriptDataLessThanSign,
    ScriptDataEndTagOpen,
    ScriptDataEndTagName,
    ScriptDataEscapeStart,
    ScriptDataEscapeStartDash,
    ScriptDataEscaped,
    ScriptDataEscapedDash,
    ScriptDataEscapedDashDash,
    ScriptDataEscapedLessThanSign,
    ScriptDataEscapedEndTagOpen,
    ScriptDataEscapedEndTagName,
    ScriptDataDoubleEscapeStart,
    ScriptDataDoubleEscaped,
    ScriptDataDoubleEscapedDash,
    ScriptDataDoubleEscapedDashDash,
    ScriptDataDoubleEscapedLessThanSign,
    ScriptDataDoubleEscapeEnd,
    BeforeAttributeName,
    AttributeName,
    AfterAttributeName,
    BeforeAttributeValue,
    AttributeValueDoubleQuoted,
    AttributeValueSingleQuoted,
    AttributeValueUnquoted,
    AfterAttributeValueQuoted,
    SelfClosingStartTag,
    BogusComment,
    MarkupDeclarationOpen,
    CommentStart,
    CommentStartDash,
    Comment,
    CommentLessThanSign,
    CommentLessThanSignBang,
    CommentLessThanSignBangDash,
    CommentLessThanSignBangDashDash,
    CommentEndDash,
    CommentEnd,
    CommentEndBang,
    Doctype,
    BeforeDoctypeName,
    DoctypeName,
    AfterDoctypeName,
    AfterDoctypePublicKeyword,
    BeforeDoctypePublicIdentifier,
    DoctypePublicIdentifierDoubleQuoted,
    DoctypePublicIdentifierSingleQuoted,
    AfterDoctypePublicIdentifier,
    BetweenDoctypePublicAndSystemIdentifiers,
    AfterDoctypeSystemKeyword,
    BeforeDoctypeSystemIdentifier,
    DoctypeSystemIdentifierDoubleQuoted,
    DoctypeSystemIdentifierSingleQuoted,
    AfterDoctypeSystemIdentifier,
    BogusDoctype,
    CdataSection,
    CdataSectionBracket,
    CdataSectionEnd,
    CharacterReference,
    NamedCharacterReference,
    AmbiguousAmpersand,
    NumericCharacterReference,
    HexadecimalCharacterReferenceStart,
    DecimalCharacterReferenceStart,
    HexadecimalCharacterReference,
    DecimalCharacterReference,
    NumericCharacterReferenceEnd,
}

impl State {
    /// The spec's state name in kebab-case.
    fn name(self) -> &'static str {
        use State::*;
        match self {
            Data => "data",
            Rcdata => "rcdata",
            Rawtext => "rawtext",
            ScriptData => "script-data",
            Plaintext => "plaintext",
            TagOpen => "tag-open",
            EndTagOpen => "end-tag-open",
            TagName => "tag-name",
            RcdataLessThanSign => "rcdata-less-than-sign",
            RcdataEndTagOpen => "rcdata-end-tag-open",
            RcdataEndTagName => "rcdata-end-tag-name",
            RawtextLessThanSign => "rawtext-less-than-sign",
            RawtextEndTagOpen => "rawtext-end-tag-open",
            RawtextEndTagName => "rawtext-end-tag-name",
            ScriptDataLessThanSign => "script-data-less-than-sign",
            ScriptDataEndTagOpen => "script-data-end-tag-open",
            ScriptDataEndTagName => "script-data-end-tag-name",
            ScriptDataEscapeStart => "script-data-escape-start",
            ScriptDataEscapeStartDash => "script-data-escape-start-dash",
            ScriptDataEscaped => "script-data-escaped",
            ScriptDataEscapedDash => "script-data-escaped-dash",
            ScriptDataEscapedDashDash => "script-data-escaped-dash-dash",
            ScriptDataEscapedLessThanSign => "script-data-escaped-less-than-sign",
            ScriptDataEscapedEndTagOpen => "script-data-escaped-end-tag-open",
            ScriptDataEscapedEndTagName => "script-data-escaped-end-tag-name",
            ScriptDataDoubleEscapeStart => "script-data-double-escape-start",
            ScriptDataDoubleEscaped => "script-data-double-escaped",
            ScriptDataDoubleEscapedDash => "script-data-double-escaped-dash",
            ScriptDataDoubleEscapedDashDash => "script-data-double-escaped-dash-dash",
            ScriptDataDoubleEscapedLessThanSign => "script-data-double-escaped-less-than-sign",
            ScriptDataDoubleEscapeEnd => "script-data-double-escape-end",
            BeforeAttributeName => "before-attribute-name",
            AttributeName => "attribute-name",
            AfterAttributeName => "after-attribute-name",
            BeforeAttributeValue => "before-attribute-value",
            AttributeValueDoubleQuoted => "attribute-value-double-quoted",
            AttributeValueSingleQuoted => "attribute-value-single-quoted",
            AttributeValueUnquoted => "attribute-value-unquoted",
            AfterAttributeValueQuoted => "after-attribute-value-quoted",
            SelfClosingStartTag => "self-closing-start-tag",
            BogusComment => "bogus-comment",
            MarkupDeclarationOpen => "markup-declaration-open",
            CommentStart => "comment-start",
            CommentStartDash => "comment-start-dash",
            Comment => "comment",
            CommentLessThanSign => "comment-less-than-sign",
            CommentLessThanSignBang => "comment-less-than-sign-bang",
            CommentLessThanSignBangDash => "comment-less-than-sign-bang-dash",
            CommentLessThanSignBangDashDash => "comment-less-than-sign-bang-dash-dash",
            CommentEndDash => "comment-end-dash",
            CommentEnd => "comment-end",
            CommentEndBang => "comment-end-bang",
            Doctype => "doctype",
            BeforeDoctypeName => "before-doctype-name",
            DoctypeName => "doctype-name",
            AfterDoctypeName => "after-doctype-name",
            AfterDoctypePublicKeyword => "after-doctype-public-keyword",
            BeforeDoctypePublicIdentifier => "before-doctype-public-identifier",
            DoctypePublicIdentifierDoubleQuoted => "doctype-public-identifier-double-quoted",
            DoctypePublicIdentifierSingleQuoted => "doctype-public-identifier-single-quoted",
            AfterDoctypePublicIdentifier => "after-doctype-public-identifier",
            BetweenDoctypePublicAndSystemIdentifiers => "between-doctype-public-and-system-identifiers",
            AfterDoctypeSystemKeyword => "after-doctype-system-keyword",
            BeforeDoctypeSystemIdentifier => "before-doctype-system-identifier",
            DoctypeSystemIdentifierDoubleQuoted => "doctype-system-identifier-double-quoted",
            DoctypeSystemIdentifierSingleQuoted => "doctype-system-identifier-single-quoted",
            AfterDoctypeSystemIdentifier => "after-doctype-system-identifier",
            BogusDoctype => "bogus-doctype",
            CdataSection => "cdata-section",
            CdataSectionBracket => "cdata-section-bracket",
            CdataSectionEnd => "cdata-section-end",
            CharacterReference => "character-reference",
            NamedCharacterReference => "named-character-reference",
            AmbiguousAmpersand => "ambiguous-ampersand",
            NumericCharacterReference => "numeric-character-reference",
            HexadecimalCharacterReferenceStart => "hexadecimal-character-reference-start",
            DecimalCharacterReferenceStart => "decimal-character-reference-start",
            HexadecimalCharacterReference => "hexadecimal-character-reference",
            DecimalCharacterReference => "decimal-character-reference",
            NumericCharacterReferenceEnd => "numeric-character-reference-end",
        }
    }
}

// ---------------------------------------------------------------------------------------------
// character classes

const REPLACEMENT: char = '\u{FFFD}';

/// Generic input-class label used for the coverage set.
fn class_of(c: Option<char>) -> &'static str {
    match c {
        None => "eof",
        Some(c) => match c {
            '\t' => "tab",
            '\n' => "lf",
            '\x0C' => "ff",
            ' ' => "space",
            '!' => "!",
            '"' => "\"",
            '#' => "#",
            '&' => "&",
            '\'' => "'",
            '-' => "-",
            '/' => "/",
            '0'..='9' => "digit",
            ';' => ";",
            '<' => "<",
            '=' => "=",
            '>' => ">",
            '?' => "?",
            'A'..='Z' => "upper",
            'a'..='z' => "lower",
            '[' => "[",
            ']' => "]",
            '`' => "`",
            '\0' => "nul",
            _ => "other",
        },
    }
}

/// Input-class label for the numeric character reference states (separates x/X and the hex
/// digit letters from the other letters).
fn class_of_numeric(c: Option<char>) -> &'static str {
    match c {
        Some('x') => "x",
        Some('X') => "X",
        Some('A'..='F') => "upper-hexdigit",
        Some('a'..='f') => "lower-hexdigit",
        _ => class_of(c),
    }
}

/// The spec's tokenizer "whitespace": TAB, LF, FF, SPACE (CR never reaches the tokenizer).
fn is_ws(c: char) -> bool {
    matches!(c, '\t' | '\n' | '\x0C' | ' ')
}

/// Lower-case an ASCII upper alpha ("add 0x0020 to the character's code point").
fn lower(c: char) -> char {
    c.to_ascii_lowercase()
}

// ---------------------------------------------------------------------------------------------
// tokens under construction

#[derive(Clone, Debug, Default)]
struct TagToken {
    is_end: bool,
    name: String,
    /// attributes that are (still) on the token, in source order
    attrs: Vec<(String, String)>,
    self_closing: bool,
    /// at least one duplicate attribute was removed from the token
    dup: bool,
}

/// The tokenizer's "current attribute". `removed` is set when it was found to be a duplicate
/// on leaving the attribute name state: it stays the current attribute (its value keeps being
/// collected) but never reaches the token.
#[derive(Clone, Debug, Default)]
struct CurrentAttribute {
    name: String,
    value: String,
    removed: bool,
}

#[derive(Clone, Debug, Default)]
struct DoctypeToken {
    name: Option<String>,
    public_id: Option<String>,
    system_id: Option<String>,
    force_quirks: bool,
}

// ---------------------------------------------------------------------------------------------
// the tokenizer

struct Tokenizer<'s> {
    sink: &'s mut dyn RefSink,
    /// the preprocessed input stream
    input: Vec<char>,
    /// index of the next input character
    pos: usize,
    /// number of input characters that have been consumed at least once (a reconsumed
    /// character stays consumed)
    high_water: usize,
    /// 1 + number of LF among `input[..high_water]`
    line: u64,
    /// the current input character (`None` = EOF)
    current: Option<char>,
    state: State,
    return_state: State,
    temporary_buffer: String,
    character_reference_code: u32,
    tag: TagToken,
    attribute: Option<CurrentAttribute>,
    comment: String,
    doctype: DoctypeToken,
    last_start_tag_name: Option<String>,
    done: bool,
    cov: Coverage,
}

/// §13.2.3.5 Preprocessing the input stream: CR LF -> LF, lone CR -> LF. (`discard_bom` is
/// a decoder-level convention of the crate under test, not part of the tokenizer.)
fn preprocess(input: &str, discard_bom: bool) -> Vec<char> {
    let mut out = Vec::with_capacity(input.len());
    let mut chars = input.chars().peekable();
    if discard_bom && chars.peek() == Some(&'\u{FEFF}') {
        chars.next();
    }
    while let Some(c) = chars.next() {
        if c == '\r' {
            if chars.peek() == Some(&'\n') {
                chars.next();
            }
            out.push('\n');
        } else {
            out.push(c);
        }
    }
    out
}

impl<'s> Tokenizer<'s> {
    fn new(input: &str, opts: &RefTokOpts, sink: &'s mut dyn RefSink) -> Tokenizer<'s> {
        let state = match opts.start {
            StartState::Data => State::Data,
            StartState::Rcdata => State::Rcdata,
            StartState::Rawtext => State::Rawtext,
            StartState::ScriptData => State::ScriptData,
            StartState::ScriptDataEscaped => State::ScriptDataEscaped,
            StartState::ScriptDataDoubleEscaped => State::ScriptDataDoubleEscaped,
            StartState::Plaintext => State::Plaintext,
        };
        Tokenizer {
            sink,
            input: preprocess(input, opts.discard_bom),
            pos: 0,
            high_water: 0,
            line: 1,
            current: None,
            state,
            return_state: State::Data,
            temporary_buffer: String::new(),
            character_reference_code: 0,
            tag: TagToken::default(),
            attribute: None,
            comment: String::new(),
            doctype: DoctypeToken::default(),
            last_start_tag_name: opts.last_start_tag.clone(),
            done: false,
            cov: Coverage::new(),
        }
    }

    fn run(&mut self) {
        use State::*;
        while !self.done {
            match self.state {
                Data => self.data_state(),
                Rcdata => self.rcdata_state(),
                Rawtext => self.rawtext_state(),
                ScriptData => self.script_data_state(),
                Plaintext => self.plaintext_state(),
                TagOpen => self.tag_open_state(),
                EndTagOpen => self.end_tag_open_state(),
                TagName => self.tag_name_state(),
                RcdataLessThanSign => self.rcdata_less_than_sign_state(),
                RcdataEndTagOpen => self.rcdata_end_tag_open_state(),
                RcdataEndTagName => self.rcdata_end_tag_name_state(),
                RawtextLessThanSign => self.rawtext_less_than_sign_state(),
                RawtextEndTagOpen => self.rawtext_end_tag_open_state(),
                RawtextEndTagName => self.rawtext_end_tag_name_state(),
                ScriptDataLessThanSign => self.script_data_less_than_sign_state(),
                ScriptDataEndTagOpen => self.script_data_end_tag_open_state(),
                ScriptDataEndTagName => self.script_data_end_tag_name_state(),
                ScriptDataEscapeStart => self.script_data_escape_start_state(),
                ScriptDataEscapeStartDash => self.script_data_escape_start_dash_state(),
                ScriptDataEscaped => self.script_data_escaped_state(),
                ScriptDataEscapedDash => self.script_data_escaped_dash_state(),
                ScriptDataEscapedDashDash => self.script_data_escaped_dash_dash_state(),
                ScriptDataEscapedLessThanSign => self.script_data_escaped_less_than_sign_state(),
                ScriptDataEscapedEndTagOpen => self.script_data_escaped_end_tag_open_state(),
                ScriptDataEscapedEndTagName => self.script_data_escaped_end_tag_name_state(),
                ScriptDataDoubleEscapeStart => self.script_data_double_escape_start_state(),
                ScriptDataDoubleEscaped => self.script_data_double_escaped_state(),
                ScriptDataDoubleEscapedDash => self.script_data_double_escaped_dash_state(),
                ScriptDataDoubleEscapedDashDash => self.script_data_double_escaped_dash_dash_state(),
                ScriptDataDoubleEscapedLessThanSign => self.script_data_double_escaped_less_than_sign_state(),
                ScriptDataDoubleEscapeEnd => self.script_data_double_escape_end_state(),
                BeforeAttributeName => self.before_attribute_name_state(),
                AttributeName => self.attribute_name_state(),
                AfterAttributeName => self.after_attribute_name_state(),
                BeforeAttributeValue => self.before_attribute_value_state(),
                AttributeValueDoubleQuoted => self.attribute_value_double_quoted_state(),
                AttributeValueSingleQuoted => self.attribute_value_single_quoted_state(),
                AttributeValueUnquoted => self.attribute_value_unquoted_state(),
                AfterAttributeValueQuoted => self.after_attribute_value_quoted_state(),
                SelfClosingStartTag => self.self_closing_start_tag_state(),
                BogusComment => self.bogus_comment_state(),
                MarkupDeclarationOpen => self.markup_declaration_open_state(),
                CommentStart => self.comment_start_state(),
                CommentStartDash => self.comment_start_dash_state(),
                Comment => self.comment_state(),
                CommentLessThanSign => self.comment_less_than_sign_state(),
                CommentLessThanSignBang => self.comment_less_than_sign_bang_state(),
                CommentLessThanSignBangDash => self.comment_less_than_sign_bang_dash_state(),
                CommentLessThanSignBangDashDash => self.comment_less_than_sign_bang_dash_dash_state(),
                CommentEndDash => self.comment_end_dash_state(),
                CommentEnd => self.comment_end_state(),
                CommentEndBang => self.comment_end_bang_state(),
                Doctype => self.doctype_state(),
                BeforeDoctypeName => self.before_doctype_name_state(),
                DoctypeName => self.doctype_name_state(),
                AfterDoctypeName => self.after_doctype_name_state(),
                AfterDoctypePublicKeyword => self.after_doctype_public_keyword_state(),
                BeforeDoctypePublicIdentifier => self.before_doctype_public_identifier_state(),
                DoctypePublicIdentifierDoubleQuoted => self.doctype_public_identifier_double_quoted_state(),
                DoctypePublicIdentifierSingleQuoted => self.doctype_public_identifier_single_quoted_state(),
                AfterDoctypePublicIdentifier => self.after_doctype_public_identifier_state(),
                BetweenDoctypePublicAndSystemIdentifiers => self.between_doctype_public_and_system_identifiers_state(),
                AfterDoctypeSystemKeyword => self.after_doctype_system_keyword_state(),
                BeforeDoctypeSystemIdentifier => self.before_doctype_system_identifier_state(),
                DoctypeSystemIdentifierDoubleQuoted => self.doctype_system_identifier_double_quoted_state(),
                DoctypeSystemIdentifierSingleQuoted => self.doctype_system_identifier_single_quoted_state(),
                AfterDoctypeSystemIdentifier => self.after_doctype_system_identifier_state(),
                BogusDoctype => self.bogus_doctype_state(),
                CdataSection => self.cdata_section_state(),
                CdataSectionBracket => self.cdata_section_bracket_state(),
                CdataSectionEnd => self.cdata_section_end_state(),
                CharacterReference => self.character_reference_state(),
                NamedCharacterReference => self.named_character_reference_state(),
                AmbiguousAmpersand => self.ambiguous_ampersand_state(),
                NumericCharacterReference => self.numeric_character_reference_state(),
                HexadecimalCharacterReferenceStart => self.hexadecimal_character_reference_start_state(),
                DecimalCharacterReferenceStart => self.decimal_character_reference_start_state(),
                HexadecimalCharacterReference => self.hexadecimal_character_reference_state(),
                DecimalCharacterReference => self.decimal_character_reference_state(),
                NumericCharacterReferenceEnd => self.numeric_character_reference_end_state(),
            }
        }
    }

    // -----------------------------------------------------------------------------------------
    // input stream

    /// Consume the next input character: it becomes the current input character. EOF (`None`)
    /// can be "consumed" any number of times without moving.
    fn consume_raw(&mut self) -> Option<char> {
        let c = self.input.get(self.pos).copied();
        if c.is_some() {
            self.pos += 1;
            if self.pos > self.high_water {
                self.high_water = self.pos;
                if c == Some('\n') {
                    self.line += 1;
                }
            }
        }
        self.current = c;
        c
    }

    /// Consume the next input character on behalf of the current state and record the
    /// (state, input class) pair.
    fn consume(&mut self) -> Option<char> {
        let c = self.consume_raw();
        self.cov.insert((self.state.name(), class_of(c)));
        c
    }

    /// Same as `consume` with the numeric-reference class labels.
    fn consume_numeric(&mut self) -> Option<char> {
        let c = self.consume_raw();
        self.cov.insert((self.state.name(), class_of_numeric(c)));
        c
    }

    /// Record a coverage label for a state that does not select its branch on one consumed
    /// character (look-ahead states).
    fn note(&mut self, label: &'static str) {
        self.cov.insert((self.state.name(), label));
    }

    fn switch_to(&mut self, s: State) {
        self.state = s;
    }

    /// "Reconsume in the X state": the current input character becomes the next input
    /// character again (nothing to undo for EOF).
    fn reconsume_in(&mut self, s: State) {
        if self.current.is_some() {
            self.pos -= 1;
        }
        self.state = s;
    }

    /// Look at the input character `offset` places after the next input character without
    /// consuming anything.
    fn peek(&self, offset: usize) -> Option<char> {
        self.input.get(self.pos + offset).copied()
    }

    /// Do the characters starting `back` places before the next input character spell `pat`?
    // SPEC-UNSURE (interface, not spec): characters that are only looked at here are not counted
    // as consumed for the `line` argument unless the match succeeds and they are then consumed.
    // None of the matched keywords contains a line break, so this cannot change a line number.
    fn lookahead_matches(&self, back: usize, pat: &str, ascii_case_insensitive: bool) -> bool {
        let start = self.pos - back;
        let mut i = start;
        for p in pat.chars() {
            match self.input.get(i) {
                Some(&c) if c == p || (ascii_case_insensitive && c.eq_ignore_ascii_case(&p)) => i += 1,
                _ => return false,
            }
        }
        true
    }

    /// Consume `n` characters that a look-ahead has already matched.
    fn consume_n(&mut self, n: usize) {
        for _ in 0..n {
            self.consume_raw();
        }
    }

    // -----------------------------------------------------------------------------------------
    // emitting

    fn deliver(&mut self, tok: RTok) -> Answer {
        let line = self.line;
        self.sink.token(tok, line)
    }

    /// Emit one character token. U+0000 character tokens (data state, CDATA section) are
    /// delivered as `RTok::Null`.
    fn emit_char(&mut self, c: char) {
        if c == '\0' {
            self.deliver(RTok::Null);
        } else {
            self.deliver(RTok::Chars(c.to_string()));
        }
    }

    fn emit_chars(&mut self, s: &str) {
        for c in s.chars() {
            self.emit_char(c);
        }
    }

    fn emit_eof(&mut self) {
        self.deliver(RTok::Eof);
        self.done = true;
    }

    fn emit_comment(&mut self) {
        let data = std::mem::take(&mut self.comment);
        self.deliver(RTok::Comment(data));
    }

    fn emit_doctype(&mut self) {
        let d = std::mem::take(&mut self.doctype);
        self.deliver(RTok::Doctype {
            name: d.name,
            public_id: d.public_id,
            system_id: d.system_id,
            force_quirks: d.force_quirks,
        });
    }

    /// Emit the current tag token. A start tag's name becomes the last start tag name. The
    /// sink's answer may switch the tokenizer state (the state was already set by the caller,
    /// as in the spec, before the token is emitted).
    fn emit_current_tag(&mut self) {
        self.finish_attribute();
        let t = std::mem::take(&mut self.tag);
        let tok = if t.is_end {
            // end tags with attributes / self-closing flag are parse errors only
            RTok::End { name: t.name, attrs: t.attrs, self_closing: t.self_closing, dup: t.dup }
        } else {
            self.last_start_tag_name = Some(t.name.clone());
            RTok::Start { name: t.name, attrs: t.attrs, self_closing: t.self_closing, dup: t.dup }
        };
        match self.deliver(tok) {
            Answer::Continue => {},
            Answer::Rcdata => self.state = State::Rcdata,
            Answer::Rawtext => self.state = State::Rawtext,
            Answer::ScriptData => self.state = State::ScriptData,
            Answer::ScriptDataEscaped => self.state = State::ScriptDataEscaped,
            Answer::ScriptDataDoubleEscaped => self.state = State::ScriptDataDoubleEscaped,
            Answer::Plaintext => self.state = State::Plaintext,
            Answer::Script => self.state = State::Data,
        }
    }

    // -----------------------------------------------------------------------------------------
    // tag / attribute construction

    fn create_start_tag_token(&mut self) {
        self.tag = TagToken { is_end: false, ..TagToken::default() };
        self.attribute = None;
    }

    fn create_end_tag_token(&mut self) {
        self.tag = TagToken { is_end: true, ..TagToken::default() };
        self.attribute = None;
    }

    /// The current attribute is complete: it goes onto the token unless it was removed as a
    /// duplicate.
    fn finish_attribute(&mut self) {
        if let Some(a) = self.attribute.take() {
            if !a.removed {
                self.tag.attrs.push((a.name, a.value));
            }
        }
    }

    /// "Start a new attribute in the current tag token" with the given name and empty value.
    fn start_new_attribute(&mut self, name: &str) {
        self.finish_attribute();
        self.attribute = Some(CurrentAttribute { name: name.to_string(), value: String::new(), removed: false });
    }

    fn append_to_attribute_name(&mut self, c: char) {
        if let Some(a) = self.attribute.as_mut() {
            a.name.push(c);
        }
    }

    fn append_to_attribute_value(&mut self, c: char) {
        if let Some(a) = self.attribute.as_mut() {
            a.value.push(c);
        }
    }

    /// "When the user agent leaves the attribute name state (and before emitting the tag token,
    /// if appropriate), the complete attribute's name must be compared to the other attributes
    /// on the same token; if there is already an attribute on the token with the exact same
    /// name, then this is a duplicate-attribute parse error and the new attribute must be
    /// removed from the token." It remains the current attribute.
    fn leave_attribute_name_state(&mut self) {
        if let Some(a) = self.attribute.as_mut() {
            if self.tag.attrs.iter().any(|(n, _)| *n == a.name) {
                a.removed = true;
                self.tag.dup = true;
            }
        }
    }

    /// "An appropriate end tag token is an end tag token whose tag name matches the tag name of
    /// the last start tag to have been emitted from this tokenizer, if any."
    fn is_appropriate_end_tag_token(&self) -> bool {
        self.tag.is_end && self.last_start_tag_name.as_deref() == Some(self.tag.name.as_str())
    }

    // -----------------------------------------------------------------------------------------
    // 13.2.5.1 – 13.2.5.5

    fn data_state(&mut self) {
        match self.consume() {
            Some('&') => {
                self.return_state = State::Data;
                self.switch_to(State::CharacterReference);
            },
            Some('<') => self.switch_to(State::TagOpen),
            // unexpected-null-character; the NUL is emitted as is
            Some('\0') => self.emit_char('\0'),
            None => self.emit_eof(),
            Some(c) => self.emit_char(c),
        }
    }

    fn rcdata_state(&mut self) {
        match self.consume() {
            Some('&') => {
                self.return_state = State::Rcdata;
                self.switch_to(State::CharacterReference);
            },
            Some('<') => self.switch_to(State::RcdataLessThanSign),
            Some('\0') => self.emit_char(REPLACEMENT),
            None => self.emit_eof(),
            Some(c) => self.emit_char(c),
        }
    }

    fn rawtext_state(&mut self) {
        match self.consume() {
            Some('<') => self.switch_to(State::RawtextLessThanSign),
            Some('\0') => self.emit_char(REPLACEMENT),
            None => self.emit_eof(),
            Some(c) => self.emit_char(c),
        }
    }

    fn script_data_state(&mut self) {
        match self.consume() {
            Some('<') => self.switch_to(State::ScriptDataLessThanSign),
            Some('\0') => self.emit_char(REPLACEMENT),
            None => self.emit_eof(),
            Some(c) => self.emit_char(c),
        }
    }

    fn plaintext_state(&mut self) {
        match self.consume() {
            Some('\0') => self.emit_char(REPLACEMENT),
            None => self.emit_eof(),
            Some(c) => self.emit_char(c),
        }
    }

    // -----------------------------------------------------------------------------------------
    // 13.2.5.6 – 13.2.5.8 tags

    fn tag_open_state(&mut self) {
        match self.consume() {
            Some('!') => self.switch_to(State::MarkupDeclarationOpen),
            Some('/') => self.switch_to(State::EndTagOpen),
            Some(c) if c.is_ascii_alphabetic() => {
                self.create_start_tag_token();
                self.reconsume_in(State::TagName);
            },
            Some('?') => {
                // unexpected-question-mark-instead-of-tag-name
                self.comment = String::new();
                self.reconsume_in(State::BogusComment);
            },
            None => {
                // eof-before-tag-name
                self.emit_char('<');
                self.emit_eof();
            },
            Some(_) => {
                // invalid-first-character-of-tag-name
                self.emit_char('<');
                self.reconsume_in(State::Data);
            },
        }
    }

    fn end_tag_open_state(&mut self) {
        match self.consume() {
            Some(c) if c.is_ascii_alphabetic() => {
                self.create_end_tag_token();
                self.reconsume_in(State::TagName);
            },
            // missing-end-tag-name
            Some('>') => self.switch_to(State::Data),
            None => {
                // eof-before-tag-name
                self.emit_chars("</");
                self.emit_eof();
            },
            Some(_) => {
                // invalid-first-character-of-tag-name
                self.comment = String::new();
                self.reconsume_in(State::BogusComment);
            },
        }
    }

    fn tag_name_state(&mut self) {
        match self.consume() {
            Some(c) if is_ws(c) => self.switch_to(State::BeforeAttributeName),
            Some('/') => self.switch_to(State::SelfClosingStartTag),
            Some('>') => {
                self.switch_to(State::Data);
                self.emit_current_tag();
            },
            Some(c) if c.is_ascii_uppercase() => self.tag.name.push(lower(c)),
            Some('\0') => self.tag.name.push(REPLACEMENT),
            // eof-in-tag: the tag token is dropped
            None => self.emit_eof(),
            Some(c) => self.tag.name.push(c),
        }
    }

    // -----------------------------------------------------------------------------------------
    // 13.2.5.9 – 13.2.5.17 RCDATA / RAWTEXT / script data end tags

    /// Shared body of the "X less-than sign" states of RCDATA and RAWTEXT.
    fn raw_less_than_sign(&mut self, end_tag_open: State, text: State) {
        match self.consume() {
            Some('/') => {
                self.temporary_buffer.clear();
                self.switch_to(end_tag_open);
            },
            _ => {
                self.emit_char('<');
                self.reconsume_in(text);
            },
        }
    }

    /// Shared body of the "X end tag open" states.
    fn raw_end_tag_open(&mut self, end_tag_name: State, text: State) {
        match self.consume() {
            Some(c) if c.is_ascii_alphabetic() => {
                self.create_end_tag_token();
                self.reconsume_in(end_tag_name);
            },
            _ => {
                self.emit_chars("</");
                self.reconsume_in(text);
            },
        }
    }

    /// Shared body of the "X end tag name" states.
    fn raw_end_tag_name(&mut self, text: State) {
        let c = self.consume();
        match c {
            Some(c) if is_ws(c) && self.is_appropriate_end_tag_token() => {
                self.switch_to(State::BeforeAttributeName);
                return;
            },
            Some('/') if self.is_appropriate_end_tag_token() => {
                self.switch_to(State::SelfClosingStartTag);
                return;
            },
            Some('>') if self.is_appropriate_end_tag_token() => {
                self.switch_to(State::Data);
                self.emit_current_tag();
                return;
            },
            Some(c) if c.is_ascii_uppercase() => {
                self.tag.name.push(lower(c));
                self.temporary_buffer.push(c);
                return;
            },
            Some(c) if c.is_ascii_lowercase() => {
                self.tag.name.push(c);
                self.temporary_buffer.push(c);
                return;
            },
            _ => {},
        }
        // anything else (including the "otherwise, treat it as per the anything else entry")
        self.emit_chars("</");
        let buf = std::mem::take(&mut self.temporary_buffer);
        self.emit_chars(&buf);
        self.reconsume_in(text);
    }

    fn rcdata_less_than_sign_state(&mut self) {
        self.raw_less_than_sign(State::RcdataEndTagOpen, State::Rcdata);
    }

    fn rcdata_end_tag_open_state(&mut self) {
        self.raw_end_tag_open(State::RcdataEndTagName, State::Rcdata);
    }

    fn rcdata_end_tag_name_state(&mut self) {
        self.raw_end_tag_name(State::Rcdata);
    }

    fn rawtext_less_than_sign_state(&mut self) {
        self.raw_less_than_sign(State::RawtextEndTagOpen, State::Rawtext);
    }

    fn rawtext_end_tag_open_state(&mut self) {
        self.raw_end_tag_open(State::RawtextEndTagName, State::Rawtext);
    }

    fn rawtext_end_tag_name_state(&mut self) {
        self.raw_end_tag_name(State::Rawtext);
    }

    fn script_data_less_than_sign_state(&mut self) {
        match self.consume() {
            Some('/') => {
                self.temporary_buffer.clear();
                self.switch_to(State::ScriptDataEndTagOpen);
            },
            Some('!') => {
                self.switch_to(State::ScriptDataEscapeStart);
                self.emit_chars("<!");
            },
            _ => {
                self.emit_char('<');
                self.reconsume_in(State::ScriptData);
            },
        }
    }

    fn script_data_end_tag_open_state(&mut self) {
        self.raw_end_tag_open(State::ScriptDataEndTagName, State::ScriptData);
    }

    fn script_data_end_tag_name_state(&mut self) {
        self.raw_end_tag_name(State::ScriptData);
    }

    // -----------------------------------------------------------------------------------------
    // 13.2.5.18 – 13.2.5.31 script data escaped / double escaped

    fn script_data_escape_start_state(&mut self) {
        match self.consume() {
            Some('-') => {
                self.switch_to(State::ScriptDataEscapeStartDash);
                self.emit_char('-');
            },
            _ => self.reconsume_in(State::ScriptData),
        }
    }

    fn script_data_escape_start_dash_state(&mut self) {
        match self.consume() {
            Some('-') => {
                self.switch_to(State::ScriptDataEscapedDashDash);
                self.emit_char('-');
            },
            _ => self.reconsume_in(State::ScriptData),
        }
    }

    fn script_data_escaped_state(&mut self) {
        match self.consume() {
            Some('-') => {
                self.switch_to(State::ScriptDataEscapedDash);
                self.emit_char('-');
            },
            Some('<') => self.switch_to(State::ScriptDataEscapedLessThanSign),
            Some('\0') => self.emit_char(REPLACEMENT),
            // eof-in-script-html-comment-like-text
            None => self.emit_eof(),
            Some(c) => self.emit_char(c),
        }
    }

    fn script_data_escaped_dash_state(&mut self) {
        match self.consume() {
            Some('-') => {
                self.switch_to(State::ScriptDataEscapedDashDash);
                self.emit_char('-');
            },
            Some('<') => self.switch_to(State::ScriptDataEscapedLessThanSign),
            Some('\0') => {
                self.switch_to(State::ScriptDataEscaped);
                self.emit_char(REPLACEMENT);
            },
            None => self.emit_eof(),
            Some(c) => {
                self.switch_to(State::ScriptDataEscaped);
                self.emit_char(c);
            },
        }
    }

    fn script_data_escaped_dash_dash_state(&mut self) {
        match self.consume() {
            Some('-') => self.emit_char('-'),
            Some('<') => self.switch_to(State::ScriptDataEscapedLessThanSign),
            Some('>') => {
                self.switch_to(State::ScriptData);
                self.emit_char('>');
            },
            Some('\0') => {
                self.switch_to(State::ScriptDataEscaped);
                self.emit_char(REPLACEMENT);
            },
            None => self.emit_eof(),
            Some(c) => {
                self.switch_to(State::ScriptDataEscaped);
                self.emit_char(c);
            },
        }
    }

    fn script_data_escaped_less_than_sign_state(&mut self) {
        match self.consume() {
            Some('/') => {
                self.temporary_buffer.clear();
                self.switch_to(State::ScriptDataEscapedEndTagOpen);
            },
            Some(c) if c.is_ascii_alphabetic() => {
                self.temporary_buffer.clear();
                self.emit_char('<');
                self.reconsume_in(State::ScriptDataDoubleEscapeStart);
            },
            _ => {
                self.emit_char('<');
                self.reconsume_in(State::ScriptDataEscaped);
            },
        }
    }

    fn script_data_escaped_end_tag_open_state(&mut self) {
        self.raw_end_tag_open(State::ScriptDataEscapedEndTagName, State::ScriptDataEscaped);
    }

    fn script_data_escaped_end_tag_name_state(&mut self) {
        self.raw_end_tag_name(State::ScriptDataEscaped);
    }

    /// Shared body of "script data double escape start" / "script data double escape end":
    /// collects a name in the temporary buffer (emitting every character) and, at its end,
    /// goes to `if_script` when the name is "script" and to `otherwise` when it is not.
    fn script_data_double_escape_boundary(&mut self, if_script: State, otherwise: State) {
        match self.consume() {
            Some(c) if is_ws(c) || c == '/' || c == '>' => {
                if self.temporary_buffer == "script" {
                    self.switch_to(if_script);
                } else {
                    self.switch_to(otherwise);
                }
                self.emit_char(c);
            },
            Some(c) if c.is_ascii_uppercase() => {
                self.temporary_buffer.push(lower(c));
                self.emit_char(c);
            },
            Some(c) if c.is_ascii_lowercase() => {
                self.temporary_buffer.push(c);
                self.emit_char(c);
            },
            _ => self.reconsume_in(otherwise),
        }
    }

    fn script_data_double_escape_start_state(&mut self) {
        self.script_data_double_escape_boundary(State::ScriptDataDoubleEscaped, State::ScriptDataEscaped);
    }

    fn script_data_double_escaped_state(&mut self) {
        match self.consume() {
            Some('-') => {
                self.switch_to(State::ScriptDataDoubleEscapedDash);
                self.emit_char('-');
            },
            Some('<') => {
                self.switch_to(State::ScriptDataDoubleEscapedLessThanSign);
                self.emit_char('<');
            },
            Some('\0') => self.emit_char(REPLACEMENT),
            // eof-in-script-html-comment-like-text
            None => self.emit_eof(),
            Some(c) => self.emit_char(c),
        }
    }

    fn script_data_double_escaped_dash_state(&mut self) {
        match self.consume() {
            Some('-') => {
                self.switch_to(State::ScriptDataDoubleEscapedDashDash);
                self.emit_char('-');
            },
            Some('<') => {
                self.switch_to(State::ScriptDataDoubleEscapedLessThanSign);
                self.emit_char('<');
            },
            Some('\0') => {
                self.switch_to(State::ScriptDataDoubleEscaped);
                self.emit_char(REPLACEMENT);
            },
            None => self.emit_eof(),
            Some(c) => {
                self.switch_to(State::ScriptDataDoubleEscaped);
                self.emit_char(c);
            },
        }
    }

    fn script_data_double_escaped_dash_dash_state(&mut self) {
        match self.consume() {
            Some('-') => self.emit_char('-'),
            Some('<') => {
                self.switch_to(State::ScriptDataDoubleEscapedLessThanSign);
                self.emit_char('<');
            },
            Some('>') => {
                self.switch_to(State::ScriptData);
                self.emit_char('>');
            },
            Some('\0') => {
                self.switch_to(State::ScriptDataDoubleEscaped);
                self.emit_char(REPLACEMENT);
            },
            None => self.emit_eof(),
            Some(c) => {
                self.switch_to(State::ScriptDataDoubleEscaped);
                self.emit_char(c);
            },
        }
    }

    fn script_data_double_escaped_less_than_sign_state(&mut self) {
        match self.consume() {
            Some('/') => {
                self.temporary_buffer.clear();
                self.switch_to(State::ScriptDataDoubleEscapeEnd);
                self.emit_char('/');
            },
            _ => self.reconsume_in(State::ScriptDataDoubleEscaped),
        }
    }

    fn script_data_double_escape_end_state(&mut self) {
        self.script_data_double_escape_boundary(State::ScriptDataEscaped, State::ScriptDataDoubleEscaped);
    }

    // -----------------------------------------------------------------------------------------
    // 13.2.5.32 – 13.2.5.40 attributes

    fn before_attribute_name_state(&mut self) {
        match self.consume() {
            Some(c) if is_ws(c) => {},
            Some('/') | Some('>') | None => self.reconsume_in(State::AfterAttributeName),
            Some('=') => {
                // unexpected-equals-sign-before-attribute-name
                self.start_new_attribute("=");
                self.switch_to(State::AttributeName);
            },
            Some(_) => {
                self.start_new_attribute("");
                self.reconsume_in(State::AttributeName);
            },
        }
    }

    fn attribute_name_state(&mut self) {
        match self.consume() {
            Some('/') | Some('>') | None => {
                self.leave_attribute_name_state();
                self.reconsume_in(State::AfterAttributeName);
            },
            Some(c) if is_ws(c) => {
                self.leave_attribute_name_state();
                self.reconsume_in(State::AfterAttributeName);
            },
            Some('=') => {
                self.leave_attribute_name_state();
                self.switch_to(State::BeforeAttributeValue);
            },
            Some(c) if c.is_ascii_uppercase() => self.append_to_attribute_name(lower(c)),
            Some('\0') => self.append_to_attribute_name(REPLACEMENT),
            // '"', '\'', '<': unexpected-character-in-attribute-name, then as anything else
            Some(c) => self.append_to_attribute_name(c),
        }
    }

    fn after_attribute_name_state(&mut self) {
        match self.consume() {
            Some(c) if is_ws(c) => {},
            Some('/') => self.switch_to(State::SelfClosingStartTag),
            Some('=') => self.switch_to(State::BeforeAttributeValue),
            Some('>') => {
                self.switch_to(State::Data);
                self.emit_current_tag();
            },
            // eof-in-tag
            None => self.emit_eof(),
            Some(_) => {
                self.start_new_attribute("");
                self.reconsume_in(State::AttributeName);
            },
        }
    }

    fn before_attribute_value_state(&mut self) {
        match self.consume() {
            Some(c) if is_ws(c) => {},
            Some('"') => self.switch_to(State::AttributeValueDoubleQuoted),
            Some('\'') => self.switch_to(State::AttributeValueSingleQuoted),
            Some('>') => {
                // missing-attribute-value
                self.switch_to(State::Data);
                self.emit_current_tag();
            },
            _ => self.reconsume_in(State::AttributeValueUnquoted),
        }
    }

    /// Shared body of the two quoted attribute value states.
    fn attribute_value_quoted(&mut self, quote: char, this: State) {
        match self.consume() {
            Some(c) if c == quote => self.switch_to(State::AfterAttributeValueQuoted),
            Some('&') => {
                self.return_state = this;
                self.switch_to(State::CharacterReference);
            },
            Some('\0') => self.append_to_attribute_value(REPLACEMENT),
            // eof-in-tag
            None => self.emit_eof(),
            Some(c) => self.append_to_attribute_value(c),
        }
    }

    fn attribute_value_double_quoted_state(&mut self) {
        self.attribute_value_quoted('"', State::AttributeValueDoubleQuoted);
    }

    fn attribute_value_single_quoted_state(&mut self) {
        self.attribute_value_quoted('\'', State::AttributeValueSingleQuoted);
    }

    fn attribute_value_unquoted_state(&mut self) {
        match self.consume() {
            Some(c) if is_ws(c) => self.switch_to(State::BeforeAttributeName),
            Some('&') => {
                self.return_state = State::AttributeValueUnquoted;
                self.switch_to(State::CharacterReference);
            },
            Some('>') => {
                self.switch_to(State::Data);
                self.emit_current_tag();
            },
            Some('\0') => self.append_to_attribute_value(REPLACEMENT),
            // eof-in-tag
            None => self.emit_eof(),
            // '"', '\'', '<', '=', '`': unexpected-character-in-unquoted-attribute-value, then
            // as anything else
            Some(c) => self.append_to_attribute_value(c),
        }
    }

    fn after_attribute_value_quoted_state(&mut self) {
        match self.consume() {
            Some(c) if is_ws(c) => self.switch_to(State::BeforeAttributeName),
            Some('/') => self.switch_to(State::SelfClosingStartTag),
            Some('>') => {
                self.switch_to(State::Data);
                self.emit_current_tag();
            },
            // eof-in-tag
            None => self.emit_eof(),
            // missing-whitespace-between-attributes
            Some(_) => self.reconsume_in(State::BeforeAttributeName),
        }
    }

    fn self_closing_start_tag_state(&mut self) {
        match self.consume() {
            Some('>') => {
                self.tag.self_closing = true;
                self.switch_to(State::Data);
                self.emit_current_tag();
            },
            // eof-in-tag
            None => self.emit_eof(),
            // unexpected-solidus-in-tag
            Some(_) => self.reconsume_in(State::BeforeAttributeName),
        }
    }

    // -----------------------------------------------------------------------------------------
    // 13.2.5.41 – 13.2.5.52 comments

    fn bogus_comment_state(&mut self) {
        match self.consume() {
            Some('>') => {
                self.switch_to(State::Data);
                self.emit_comment();
            },
            None => {
                self.emit_comment();
                self.emit_eof();
            },
            Some('\0') => self.comment.push(REPLACEMENT),
            Some(c) => self.comment.push(c),
        }
    }

    fn markup_declaration_open_state(&mut self) {
        if self.lookahead_matches(0, "--", false) {
            self.note("--");
            self.consume_n(2);
            self.comment = String::new();
            self.switch_to(State::CommentStart);
        } else if self.lookahead_matches(0, "DOCTYPE", true) {
            self.note("doctype");
            self.consume_n(7);
            self.switch_to(State::Doctype);
        } else if self.lookahead_matches(0, "[CDATA[", false) {
            self.consume_n(7);
            if self.sink.foreign() {
                self.note("[CDATA[-foreign");
                self.switch_to(State::CdataSection);
            } else {
                // cdata-in-html-content
                self.note("[CDATA[-html");
                self.comment = "[CDATA[".to_string();
                self.switch_to(State::BogusComment);
            }
        } else {
            // incorrectly-opened-comment; nothing is consumed
            self.note("other");
            self.comment = String::new();
            self.switch_to(State::BogusComment);
        }
    }

    fn comment_start_state(&mut self) {
        match self.consume() {
            Some('-') => self.switch_to(State::CommentStartDash),
            Some('>') => {
                // abrupt-closing-of-empty-comment
                self.switch_to(State::Data);
                self.emit_comment();
            },
            _ => self.reconsume_in(State::Comment),
        }
    }

    fn comment_start_dash_state(&mut self) {
        match self.consume() {
            Some('-') => self.switch_to(State::CommentEnd),
            Some('>') => {
                // abrupt-closing-of-empty-comment
                self.switch_to(State::Data);
                self.emit_comment();
            },
            None => {
                // eof-in-comment
                self.emit_comment();
                self.emit_eof();
            },
            Some(_) => {
                self.comment.push('-');
                self.reconsume_in(State::Comment);
            },
        }
    }

    fn comment_state(&mut self) {
        match self.consume() {
            Some('<') => {
                self.comment.push('<');
                self.switch_to(State::CommentLessThanSign);
            },
            Some('-') => self.switch_to(State::CommentEndDash),
            Some('\0') => self.comment.push(REPLACEMENT),
            None => {
                // eof-in-comment
                self.emit_comment();
                self.emit_eof();
            },
            Some(c) => self.comment.push(c),
        }
    }

    fn comment_less_than_sign_state(&mut self) {
        match self.consume() {
            Some('!') => {
                self.comment.push('!');
                self.switch_to(State::CommentLessThanSignBang);
            },
            Some('<') => self.comment.push('<'),
            _ => self.reconsume_in(State::Comment),
        }
    }

    fn comment_less_than_sign_bang_state(&mut self) {
        match self.consume() {
            Some('-') => self.switch_to(State::CommentLessThanSignBangDash),
            _ => self.reconsume_in(State::Comment),
        }
    }

    fn comment_less_than_sign_bang_dash_state(&mut self) {
        match self.consume() {
            Some('-') => self.switch_to(State::CommentLessThanSignBangDashDash),
            _ => self.reconsume_in(State::CommentEndDash),
        }
    }

    fn comment_less_than_sign_bang_dash_dash_state(&mut self) {
        match self.consume() {
            Some('>') | None => self.reconsume_in(State::CommentEnd),
            // nested-comment parse error; same transition
            // SPEC-UNSURE: that EOF is in the error-free branch (no effect on tokens).
            Some(_) => self.reconsume_in(State::CommentEnd),
        }
    }

    fn comment_end_dash_state(&mut self) {
        match self.consume() {
            Some('-') => self.switch_to(State::CommentEnd),
            None => {
                // eof-in-comment
                self.emit_comment();
                self.emit_eof();
            },
            Some(_) => {
                self.comment.push('-');
                self.reconsume_in(State::Comment);
            },
        }
    }

    fn comment_end_state(&mut self) {
        match self.consume() {
            Some('>') => {
                self.switch_to(State::Data);
                self.emit_comment();
            },
            Some('!') => self.switch_to(State::CommentEndBang),
            Some('-') => self.comment.push('-'),
            None => {
                // eof-in-comment
                self.emit_comment();
                self.emit_eof();
            },
            Some(_) => {
                self.comment.push_str("--");
                self.reconsume_in(State::Comment);
            },
        }
    }

    fn comment_end_bang_state(&mut self) {
        match self.consume() {
            Some('-') => {
                self.comment.push_str("--!");
                self.switch_to(State::CommentEndDash);
            },
            Some('>') => {
                // incorrectly-closed-comment
                self.switch_to(State::Data);
                self.emit_comment();
            },
            None => {
                // eof-in-comment
                self.emit_comment();
                self.emit_eof();
            },
            Some(_) => {
                self.comment.push_str("--!");
                self.reconsume_in(State::Comment);
            },
        }
    }

    // -----------------------------------------------------------------------------------------
    // 13.2.5.53 – 13.2.5.68 DOCTYPE

    /// "Set the current DOCTYPE token's force-quirks flag to on. Emit the current DOCTYPE
    /// token. Emit an end-of-file token." (eof-in-doctype)
    fn doctype_eof(&mut self) {
        self.doctype.force_quirks = true;
        self.emit_doctype();
        self.emit_eof();
    }

    /// "Set the current DOCTYPE token's force-quirks flag to on. Switch to the data state.
    /// Emit the current DOCTYPE token."
    fn doctype_abrupt_close(&mut self) {
        self.doctype.force_quirks = true;
        self.switch_to(State::Data);
        self.emit_doctype();
    }

    /// "Set the current DOCTYPE token's force-quirks flag to on. Reconsume in the bogus
    /// DOCTYPE state."
    fn doctype_bogus_with_quirks(&mut self) {
        self.doctype.force_quirks = true;
        self.reconsume_in(State::BogusDoctype);
    }

    fn doctype_state(&mut self) {
        match self.consume() {
            Some(c) if is_ws(c) => self.switch_to(State::BeforeDoctypeName),
            Some('>') => self.reconsume_in(State::BeforeDoctypeName),
            None => {
                // eof-in-doctype
                self.doctype = DoctypeToken::default();
                self.doctype_eof();
            },
            // missing-whitespace-before-doctype-name
            Some(_) => self.reconsume_in(State::BeforeDoctypeName),
        }
    }

    fn before_doctype_name_state(&mut self) {
        match self.consume() {
            Some(c) if is_ws(c) => {},
            Some(c) if c.is_ascii_uppercase() => {
                self.doctype = DoctypeToken { name: Some(lower(c).to_string()), ..DoctypeToken::default() };
                self.switch_to(State::DoctypeName);
            },
            Some('\0') => {
                self.doctype = DoctypeToken { name: Some(REPLACEMENT.to_string()), ..DoctypeToken::default() };
                self.switch_to(State::DoctypeName);
            },
            Some('>') => {
                // missing-doctype-name
                self.doctype = DoctypeToken::default();
                self.doctype_abrupt_close();
            },
            None => {
                // eof-in-doctype
                self.doctype = DoctypeToken::default();
                self.doctype_eof();
            },
            Some(c) => {
                self.doctype = DoctypeToken { name: Some(c.to_string()), ..DoctypeToken::default() };
                self.switch_to(State::DoctypeName);
            },
        }
    }

    fn doctype_name_push(&mut self, c: char) {
        self.doctype.name.get_or_insert_with(String::new).push(c);
    }

    fn doctype_name_state(&mut self) {
        match self.consume() {
            Some(c) if is_ws(c) => self.switch_to(State::AfterDoctypeName),
            Some('>') => {
                self.switch_to(State::Data);
                self.emit_doctype();
            },
            Some(c) if c.is_ascii_uppercase() => self.doctype_name_push(lower(c)),
            Some('\0') => self.doctype_name_push(REPLACEMENT),
            None => self.doctype_eof(),
            Some(c) => self.doctype_name_push(c),
        }
    }

    fn after_doctype_name_state(&mut self) {
        match self.consume_raw() {
            Some(c) if is_ws(c) => self.note(class_of(Some(c))),
            Some('>') => {
                self.note(">");
                self.switch_to(State::Data);
                self.emit_doctype();
            },
            None => {
                self.note("eof");
                self.doctype_eof();
            },
            Some(_) => {
                // "If the six characters starting from the current input character are an ASCII
                // case-insensitive match for ..., then consume those characters"
                if self.lookahead_matches(1, "PUBLIC", true) {
                    self.note("public");
                    self.consume_n(5);
                    self.switch_to(State::AfterDoctypePublicKeyword);
                } else if self.lookahead_matches(1, "SYSTEM", true) {
                    self.note("system");
                    self.consume_n(5);
                    self.switch_to(State::AfterDoctypeSystemKeyword);
                } else {
                    // invalid-character-sequence-after-doctype-name
                    let label = class_of(self.current);
                    self.note(label);
                    self.doctype_bogus_with_quirks();
                }
            },
        }
    }

    fn after_doctype_public_keyword_state(&mut self) {
        match self.consume() {
            Some(c) if is_ws(c) => self.switch_to(State::BeforeDoctypePublicIdentifier),
            Some('"') => {
                // missing-whitespace-after-doctype-public-keyword
                self.doctype.public_id = Some(String::new());
                self.switch_to(State::DoctypePublicIdentifierDoubleQuoted);
            },
            Some('\'') => {
                self.doctype.public_id = Some(String::new());
                self.switch_to(State::DoctypePublicIdentifierSingleQuoted);
            },
            // missing-doctype-public-identifier
            Some('>') => self.doctype_abrupt_close(),
            None => self.doctype_eof(),
            // missing-quote-before-doctype-public-identifier
            Some(_) => self.doctype_bogus_with_quirks(),
        }
    }

    fn before_doctype_public_identifier_state(&mut self) {
        match self.consume() {
            Some(c) if is_ws(c) => {},
            Some('"') => {
                self.doctype.public_id = Some(String::new());
                self.switch_to(State::DoctypePublicIdentifierDoubleQuoted);
            },
            Some('\'') => {
                self.doctype.public_id = Some(String::new());
                self.switch_to(State::DoctypePublicIdentifierSingleQuoted);
            },
            // missing-doctype-public-identifier
            Some('>') => self.doctype_abrupt_close(),
            None => self.doctype_eof(),
            // missing-quote-before-doctype-public-identifier
            Some(_) => self.doctype_bogus_with_quirks(),
        }
    }

    /// Shared body of the two quoted public identifier states.
    fn doctype_public_identifier_quoted(&mut self, quote: char) {
        match self.consume() {
            Some(c) if c == quote => self.switch_to(State::AfterDoctypePublicIdentifier),
            Some('\0') => self.doctype.public_id.get_or_insert_with(String::new).push(REPLACEMENT),
            // abrupt-doctype-public-identifier
            Some('>') => self.doctype_abrupt_close(),
            None => self.doctype_eof(),
            Some(c) => self.doctype.public_id.get_or_insert_with(String::new).push(c),
        }
    }

    fn doctype_public_identifier_double_quoted_state(&mut self) {
        self.doctype_public_identifier_quoted('"');
    }

    fn doctype_public_identifier_single_quoted_state(&mut self) {
        self.doctype_public_identifier_quoted('\'');
    }

    fn after_doctype_public_identifier_state(&mut self) {
        match self.consume() {
            Some(c) if is_ws(c) => self.switch_to(State::BetweenDoctypePublicAndSystemIdentifiers),
            Some('>') => {
                self.switch_to(State::Data);
                self.emit_doctype();
            },
            Some('"') => {
                // missing-whitespace-between-doctype-public-and-system-identifiers
                self.doctype.system_id = Some(String::new());
                self.switch_to(State::DoctypeSystemIdentifierDoubleQuoted);
            },
            Some('\'') => {
                self.doctype.system_id = Some(String::new());
                self.switch_to(State::DoctypeSystemIdentifierSingleQuoted);
            },
            None => self.doctype_eof(),
            // missing-quote-before-doctype-system-identifier
            Some(_) => self.doctype_bogus_with_quirks(),
        }
    }

    fn between_doctype_public_and_system_identifiers_state(&mut self) {
        match self.consume() {
            Some(c) if is_ws(c) => {},
            Some('>') => {
                self.switch_to(State::Data);
                self.emit_doctype();
            },
            Some('"') => {
                self.doctype.system_id = Some(String::new());
                self.switch_to(State::DoctypeSystemIdentifierDoubleQuoted);
            },
            Some('\'') => {
                self.doctype.system_id = Some(String::new());
                self.switch_to(State::DoctypeSystemIdentifierSingleQuoted);
            },
            None => self.doctype_eof(),
            // missing-quote-before-doctype-system-identifier
            Some(_) => self.doctype_bogus_with_quirks(),
        }
    }

    fn after_doctype_system_keyword_state(&mut self) {
        match self.consume() {
            Some(c) if is_ws(c) => self.switch_to(State::BeforeDoctypeSystemIdentifier),
            Some('"') => {
                // missing-whitespace-after-doctype-system-keyword
                self.doctype.system_id = Some(String::new());
                self.switch_to(State::DoctypeSystemIdentifierDoubleQuoted);
            },
            Some('\'') => {
                self.doctype.system_id = Some(String::new());
                self.switch_to(State::DoctypeSystemIdentifierSingleQuoted);
            },
            // missing-doctype-system-identifier
            Some('>') => self.doctype_abrupt_close(),
            None => self.doctype_eof(),
            // missing-quote-before-doctype-system-identifier
            Some(_) => self.doctype_bogus_with_quirks(),
        }
    }

    fn before_doctype_system_identifier_state(&mut self) {
        match self.consume() {
            Some(c) if is_ws(c) => {},
            Some('"') => {
                self.doctype.system_id = Some(String::new());
                self.switch_to(State::DoctypeSystemIdentifierDoubleQuoted);
            },
            Some('\'') => {
                self.doctype.system_id = Some(String::new());
                self.switch_to(State::DoctypeSystemIdentifierSingleQuoted);
            },
            // missing-doctype-system-identifier
            Some('>') => self.doctype_abrupt_close(),
            None => self.doctype_eof(),
            // missing-quote-before-doctype-system-identifier
            Some(_) => self.doctype_bogus_with_quirks(),
        }
    }

    /// Shared body of the two quoted system identifier states.
    fn doctype_system_identifier_quoted(&mut self, quote: char) {
        match self.consume() {
            Some(c) if c == quote => self.switch_to(State::AfterDoctypeSystemIdentifier),
            Some('\0') => self.doctype.system_id.get_or_insert_with(String::new).push(REPLACEMENT),
            // abrupt-doctype-system-identifier
            Some('>') => self.doctype_abrupt_close(),
            None => self.doctype_eof(),
            Some(c) => self.doctype.system_id.get_or_insert_with(String::new).push(c),
        }
    }

    fn doctype_system_identifier_double_quoted_state(&mut self) {
        self.doctype_system_identifier_quoted('"');
    }

    fn doctype_system_identifier_single_quoted_state(&mut self) {
        self.doctype_system_identifier_quoted('\'');
    }

    fn after_doctype_system_identifier_state(&mut self) {
        match self.consume() {
            Some(c) if is_ws(c) => {},
            Some('>') => {
                self.switch_to(State::Data);
                self.emit_doctype();
            },
            None => self.doctype_eof(),
            // unexpected-character-after-doctype-system-identifier: this does NOT set the
            // force-quirks flag
            // SPEC-UNSURE: from memory this is the only "junk" DOCTYPE branch that leaves the flag
            // off (matches the html5lib expectation for `<!DOCTYPE a PUBLIC "p" "s" x>`).
            Some(_) => self.reconsume_in(State::BogusDoctype),
        }
    }

    fn bogus_doctype_state(&mut self) {
        match self.consume() {
            Some('>') => {
                self.switch_to(State::Data);
                self.emit_doctype();
            },
            None => {
                self.emit_doctype();
                self.emit_eof();
            },
            // NUL is an unexpected-null-character parse error and is ignored like the rest
            Some(_) => {},
        }
    }

    // -----------------------------------------------------------------------------------------
    // 13.2.5.69 – 13.2.5.71 CDATA sections

    fn cdata_section_state(&mut self) {
        match self.consume() {
            Some(']') => self.switch_to(State::CdataSectionBracket),
            // eof-in-cdata
            None => self.emit_eof(),
            // U+0000 is emitted as is (the tree construction stage deals with it)
            // SPEC-UNSURE: the CDATA section state has no U+0000 entry as far as I remember.
            Some(c) => self.emit_char(c),
        }
    }

    fn cdata_section_bracket_state(&mut self) {
        match self.consume() {
            Some(']') => self.switch_to(State::CdataSectionEnd),
            _ => {
                self.emit_char(']');
                self.reconsume_in(State::CdataSection);
            },
        }
    }

    fn cdata_section_end_state(&mut self) {
        match self.consume() {
            Some(']') => self.emit_char(']'),
            Some('>') => self.switch_to(State::Data),
            _ => {
                self.emit_chars("]]");
                self.reconsume_in(State::CdataSection);
            },
        }
    }

    // -----------------------------------------------------------------------------------------
    // 13.2.5.72 – 13.2.5.80 character references

    /// "A character reference is said to be consumed as part of an attribute if the return
    /// state is either attribute value (double-quoted) state, attribute value (single-quoted)
    /// state, or attribute value (unquoted) state."
    fn consumed_as_part_of_an_attribute(&self) -> bool {
        matches!(
            self.return_state,
            State::AttributeValueDoubleQuoted | State::AttributeValueSingleQuoted | State::AttributeValueUnquoted
        )
    }

    /// "Flush code points consumed as a character reference": each code point of the temporary
    /// buffer goes to the current attribute's value or is emitted as a character token.
    fn flush_code_points_consumed_as_a_character_reference(&mut self) {
        let buf = std::mem::take(&mut self.temporary_buffer);
        let in_attr = self.consumed_as_part_of_an_attribute();
        for c in buf.chars() {
            if in_attr {
                self.append_to_attribute_value(c);
            } else {
                self.emit_char(c);
            }
        }
    }

    fn character_reference_state(&mut self) {
        self.temporary_buffer.clear();
        self.temporary_buffer.push('&');
        match self.consume() {
            Some(c) if c.is_ascii_alphanumeric() => self.reconsume_in(State::NamedCharacterReference),
            Some('#') => {
                self.temporary_buffer.push('#');
                self.switch_to(State::NumericCharacterReference);
            },
            _ => {
                self.flush_code_points_consumed_as_a_character_reference();
                let rs = self.return_state;
                self.reconsume_in(rs);
            },
        }
    }

    /// Longest prefix of the upcoming input that is an identifier of the named character
    /// reference table: (number of characters, replacement). Pure look-ahead.
    fn longest_named_reference(&self) -> Option<(usize, &'static str)> {
        let mut lo = 0usize;
        let mut hi = ENTITIES.len();
        let mut k = 0usize;
        let mut best = None;
        loop {
            let b = match self.peek(k) {
                Some(c) if c.is_ascii() => c as u8,
                _ => break,
            };
            // all names in lo..hi share their first k bytes with the input; an entry of length
            // exactly k (if any) sorts first
            let sub = &ENTITIES[lo..hi];
            let first = sub.partition_point(|(n, _)| n.len() <= k || n.as_bytes()[k] < b);
            let last = sub.partition_point(|(n, _)| n.len() <= k || n.as_bytes()[k] <= b);
            if first == last {
                break;
            }
            hi = lo + last;
            lo += first;
            k += 1;
            if ENTITIES[lo].0.len() == k {
                best = Some((k, ENTITIES[lo].1));
            }
        }
        best
    }

    fn named_character_reference_state(&mut self) {
        match self.longest_named_reference() {
            Some((len, replacement)) => {
                // "Consume the maximum number of characters possible ... Append each character
                // to the temporary buffer when it's consumed."
                for _ in 0..len {
                    if let Some(c) = self.consume_raw() {
                        self.temporary_buffer.push(c);
                    }
                }
                let last_is_semicolon = self.current == Some(';');
                let next_blocks = matches!(self.peek(0), Some(c) if c == '=' || c.is_ascii_alphanumeric());
                if self.consumed_as_part_of_an_attribute() && !last_is_semicolon && next_blocks {
                    // historical reasons: left as literal text
                    self.note("match-attribute-exception");
                    self.flush_code_points_consumed_as_a_character_reference();
                } else {
                    // (missing-semicolon-after-character-reference if !last_is_semicolon)
                    self.note(if last_is_semicolon { "match-semicolon" } else { "match-no-semicolon" });
                    self.temporary_buffer.clear();
                    self.temporary_buffer.push_str(replacement);
                    self.flush_code_points_consumed_as_a_character_reference();
                }
                let rs = self.return_state;
                self.switch_to(rs);
            },
            None => {
                self.note("no-match");
                self.flush_code_points_consumed_as_a_character_reference();
                self.switch_to(State::AmbiguousAmpersand);
            },
        }
    }

    fn ambiguous_ampersand_state(&mut self) {
        match self.consume() {
            Some(c) if c.is_ascii_alphanumeric() => {
                if self.consumed_as_part_of_an_attribute() {
                    self.append_to_attribute_value(c);
                } else {
                    self.emit_char(c);
                }
            },
            // ';' is an unknown-named-character-reference parse error; both reconsume
            _ => {
                let rs = self.return_state;
                self.reconsume_in(rs);
            },
        }
    }

    fn numeric_character_reference_state(&mut self) {
        self.character_reference_code = 0;
        match self.consume_numeric() {
            Some(c @ ('x' | 'X')) => {
                self.temporary_buffer.push(c);
                self.switch_to(State::HexadecimalCharacterReferenceStart);
            },
            _ => self.reconsume_in(State::DecimalCharacterReferenceStart),
        }
    }

    fn hexadecimal_character_reference_start_state(&mut self) {
        match self.consume_numeric() {
            Some(c) if c.is_ascii_hexdigit() => self.reconsume_in(State::HexadecimalCharacterReference),
            _ => {
                // absence-of-digits-in-numeric-character-reference
                self.flush_code_points_consumed_as_a_character_reference();
                let rs = self.return_state;
                self.reconsume_in(rs);
            },
        }
    }

    fn decimal_character_reference_start_state(&mut self) {
        match self.consume_numeric() {
            Some(c) if c.is_ascii_digit() => self.reconsume_in(State::DecimalCharacterReference),
            _ => {
                // absence-of-digits-in-numeric-character-reference
                self.flush_code_points_consumed_as_a_character_reference();
                let rs = self.return_state;
                self.reconsume_in(rs);
            },
        }
    }

    /// "Multiply the character reference code by `base`, add `digit`" without overflowing: any
    /// value above 0x10FFFF is equivalent for the end state, so saturation is exact.
    fn accumulate(&mut self, base: u32, digit: u32) {
        self.character_reference_code = self.character_reference_code.saturating_mul(base).saturating_add(digit);
    }

    fn hexadecimal_character_reference_state(&mut self) {
        match self.consume_numeric() {
            Some(c) if c.is_ascii_hexdigit() => {
                let d = c.to_digit(16).unwrap_or(0);
                self.accumulate(16, d);
            },
            Some(';') => self.switch_to(State::NumericCharacterReferenceEnd),
            // missing-semicolon-after-character-reference
            _ => self.reconsume_in(State::NumericCharacterReferenceEnd),
        }
    }

    fn decimal_character_reference_state(&mut self) {
        match self.consume_numeric() {
            Some(c) if c.is_ascii_digit() => {
                let d = c.to_digit(10).unwrap_or(0);
                self.accumulate(10, d);
            },
            Some(';') => self.switch_to(State::NumericCharacterReferenceEnd),
            // missing-semicolon-after-character-reference
            _ => self.reconsume_in(State::NumericCharacterReferenceEnd),
        }
    }

    fn numeric_character_reference_end_state(&mut self) {
        let code = self.character_reference_code;
        let resolved: char = if code == 0 {
            // null-character-reference
            self.note("nul");
            REPLACEMENT
        } else if code > 0x10FFFF {
            // character-reference-outside-unicode-range
            self.note("out-of-range");
            REPLACEMENT
        } else if (0xD800..=0xDFFF).contains(&code) {
            // surrogate-character-reference
            self.note("surrogate");
            REPLACEMENT
        } else if (0xFDD0..=0xFDEF).contains(&code) || (code & 0xFFFE) == 0xFFFE {
            // noncharacter-character-reference: parse error only
            self.note("noncharacter");
            char::from_u32(code).unwrap_or(REPLACEMENT)
        // SPEC-UNSURE: exact wording/order of the noncharacter vs. control checks; both are parse
        // errors only, so the order affects nothing but the coverage label. The definition of
        // "control" used here is C0 (U+0000..=U+001F) plus U+007F..=U+009F.
        } else if let Some(mapped) = c1_replacement(code) {
            // control-character-reference, with a replacement from the table
            self.note("c1-mapped");
            mapped
        } else if code == 0x0D || (is_control(code) && !is_ascii_whitespace_code(code)) {
            // control-character-reference: parse error only
            self.note("control");
            char::from_u32(code).unwrap_or(REPLACEMENT)
        } else {
            self.note("other");
            char::from_u32(code).unwrap_or(REPLACEMENT)
        };
        self.temporary_buffer.clear();
        self.temporary_buffer.push(resolved);
        self.flush_code_points_consumed_as_a_character_reference();
        let rs = self.return_state;
        self.switch_to(rs);
    }
}

/// A control is a C0 control (U+0000..=U+001F) or a code point in U+007F..=U+009F.
fn is_control(code: u32) -> bool {
    code <= 0x1F || (0x7F..=0x9F).contains(&code)
}

/// ASCII whitespace: TAB, LF, FF, CR, SPACE.
fn is_ascii_whitespace_code(code: u32) -> bool {
    matches!(code, 0x09 | 0x0A | 0x0C | 0x0D | 0x20)
}

/// The replacement table of the numeric character reference end state (Windows-1252 C1 range).
fn c1_replacement(code: u32) -> Option<char> {
    let r = match code {
        0x80 => 0x20AC,
        0x82 => 0x201A,
        0x83 => 0x0192,
        0x84 => 0x201E,
        0x85 => 0x2026,
        0x86 => 0x2020,
        0x87 => 0x2021,
        0x88 => 0x02C6,
        0x89 => 0x2030,
        0x8A => 0x0160,
        0x8B => 0x2039,
        0x8C => 0x0152,
        0x8E => 0x017D,
        0x91 => 0x2018,
        0x92 => 0x2019,
        0x93 => 0x201C,
        0x94 => 0x201D,
        0x95 => 0x2022,
        0x96 => 0x2013,
        0x97 => 0x2014,
        0x98 => 0x02DC,
        0x99 => 0x2122,
        0x9A => 0x0161,
        0x9B => 0x203A,
        0x9C => 0x0153,
        0x9E => 0x017E,
        0x9F => 0x0178,
        _ => return None,
    };
    char::from_u32(r)
}

// ---------------------------------------------------------------------------------------------
// known-answer vectors (html5lib-tokenizer-test style JSON) and self checks

use crate::tokrec::{Policy, PolicyState};

/// Raw (uncoalesced) collector applying a `Policy`.
struct CollectSink {
    policy: Policy,
    pstate: PolicyState,
    raw: Vec<(RTok, u64)>,
}

impl CollectSink {
    fn new(policy: Policy) -> CollectSink {
        CollectSink { policy, pstate: PolicyState::default(), raw: Vec::new() }
    }
}

impl RefSink for CollectSink {
    fn token(&mut self, tok: RTok, line: u64) -> Answer {
        let ans = match &tok {
            RTok::Start { name, self_closing, .. } => self.policy.on_tag(&mut self.pstate, true, name, *self_closing),
            RTok::End { name, self_closing, .. } => self.policy.on_tag(&mut self.pstate, false, name, *self_closing),
            _ => Answer::Continue,
        };
        self.raw.push((tok, line));
        ans
    }
    fn foreign(&mut self) -> bool {
        self.policy.foreign(&self.pstate)
    }
}

/// Coalesce adjacent character tokens (a `Null` becomes a U+0000 inside the run, as in the
/// html5lib expectations), drop the final EOF. The line of a run is that of its last piece.
/// Returns (tokens, line of the EOF token).
fn coalesce_for_vectors(raw: &[(RTok, u64)]) -> Result<(Vec<(RTok, u64)>, u64), String> {
    let mut out: Vec<(RTok, u64)> = Vec::new();
    let mut eof_line = None;
    for (i, (t, l)) in raw.iter().enumerate() {
        if eof_line.is_some() {
            return Err(format!("token after EOF at index {i}"));
        }
        let piece = match t {
            RTok::Chars(c) => Some(c.clone()),
            RTok::Null => Some("\0".to_string()),
            RTok::Eof => {
                eof_line = Some(*l);
                continue;
            },
            RTok::Error(_) => return Err("model emitted an Error token".into()),
            _ => None,
        };
        match piece {
            Some(p) => {
                if let Some((RTok::Chars(prev), pl)) = out.last_mut() {
                    prev.push_str(&p);
                    *pl = *l;
                } else {
                    out.push((RTok::Chars(p), *l));
                }
            },
            None => out.push((t.clone(), *l)),
        }
    }
    match eof_line {
        Some(l) => Ok((out, l)),
        None => Err("no EOF token".into()),
    }
}

fn parse_initial_state(s: &str) -> Option<StartState> {
    Some(match s {
        "Data state" => StartState::Data,
        "RCDATA state" => StartState::Rcdata,
        "RAWTEXT state" => StartState::Rawtext,
        "Script data state" => StartState::ScriptData,
        "Script data escaped state" => StartState::ScriptDataEscaped,
        "Script data double escaped state" => StartState::ScriptDataDoubleEscaped,
        "PLAINTEXT state" => StartState::Plaintext,
        _ => return None,
    })
}

/// Expected token as written in the vectors file. `None` fields are not compared.
#[derive(Debug)]
enum Expect {
    Exact(RTok),
    Tag {
        is_end: bool,
        name: String,
        /// attribute list; `ordered` = given as an array of pairs (source order is compared)
        attrs: Option<(Vec<(String, String)>, bool)>,
        self_closing: Option<bool>,
        dup: Option<bool>,
    },
}

fn opt_string(v: &serde_json::Value) -> Result<Option<String>, String> {
    match v {
        serde_json::Value::Null => Ok(None),
        serde_json::Value::String(s) => Ok(Some(s.clone())),
        other => Err(format!("expected string or null, got {other}")),
    }
}

fn parse_attrs(v: &serde_json::Value) -> Result<(Vec<(String, String)>, bool), String> {
    match v {
        serde_json::Value::Object(m) => {
            let mut out = Vec::new();
            for (k, val) in m {
                out.push((k.clone(), val.as_str().ok_or("attribute value must be a string")?.to_string()));
            }
            out.sort();
            Ok((out, false))
        },
        serde_json::Value::Array(a) => {
            let mut out = Vec::new();
            for pair in a {
                let p = pair.as_array().filter(|p| p.len() == 2).ok_or("attribute pair must be [name, value]")?;
                out.push((
                    p[0].as_str().ok_or("attribute name must be a string")?.to_string(),
                    p[1].as_str().ok_or("attribute value must be a string")?.to_string(),
                ));
            }
            Ok((out, true))
        },
        other => Err(format!("bad attribute list {other}")),
    }
}

fn parse_expected(v: &serde_json::Value) -> Result<Expect, String> {
    let a = v.as_array().ok_or("expected token must be an array")?;
    let kind = a.first().and_then(|k| k.as_str()).ok_or("expected token kind")?;
    let s = |i: usize| -> Result<String, String> {
        a.get(i).and_then(|x| x.as_str()).map(|x| x.to_string()).ok_or(format!("{kind}: field {i} must be a string"))
    };
    match kind {
        "Character" => Ok(Expect::Exact(RTok::Chars(s(1)?))),
        "Comment" => Ok(Expect::Exact(RTok::Comment(s(1)?))),
        "DOCTYPE" => {
            if a.len() != 5 {
                return Err("DOCTYPE needs [kind, name, public, system, correctness]".into());
            }
            Ok(Expect::Exact(RTok::Doctype {
                name: opt_string(&a[1])?,
                public_id: opt_string(&a[2])?,
                system_id: opt_string(&a[3])?,
                force_quirks: !a[4].as_bool().ok_or("DOCTYPE correctness must be a bool")?,
            }))
        },
        "StartTag" | "EndTag" => {
            let is_end = kind == "EndTag";
            let attrs = match a.get(2) {
                Some(v) => Some(parse_attrs(v)?),
                // html5lib convention: ["EndTag", name] says nothing about attributes
                None if is_end => None,
                None => Some((Vec::new(), false)),
            };
            let self_closing = match a.get(3) {
                Some(v) => Some(v.as_bool().ok_or("self-closing must be a bool")?),
                None if is_end => None,
                None => Some(false),
            };
            let dup = match a.get(4) {
                Some(v) => Some(v.as_bool().ok_or("dup must be a bool")?),
                None => None,
            };
            Ok(Expect::Tag { is_end, name: s(1)?, attrs, self_closing, dup })
        },
        other => Err(format!("unknown expected token kind {other:?}")),
    }
}

fn matches_expected(e: &Expect, got: &RTok) -> bool {
    match e {
        Expect::Exact(t) => t == got,
        Expect::Tag { is_end, name, attrs, self_closing, dup } => {
            let (g_end, g_name, g_attrs, g_sc, g_dup) = match got {
                RTok::Start { name, attrs, self_closing, dup } => (false, name, attrs, *self_closing, *dup),
                RTok::End { name, attrs, self_closing, dup } => (true, name, attrs, *self_closing, *dup),
                _ => return false,
            };
            if g_end != *is_end || g_name != name {
                return false;
            }
            if let Some((want, ordered)) = attrs {
                let mut g = g_attrs.clone();
                if !*ordered {
                    g.sort();
                }
                if &g != want {
                    return false;
                }
            }
            self_closing.map_or(true, |s| s == g_sc) && dup.map_or(true, |d| d == g_dup)
        },
    }
}

/// Check the model against one parsed vectors document. Returns the number of
/// (case, initial state) runs checked.
///
/// Format (html5lib tokenizer tests plus extensions): `{"tests": [{"description", "input",
/// "output", "initialStates"?, "lastStartTag"?, "foreign"? (bool, default false),
/// "policy"? ("treebuilder"; default: the sink always answers Continue), "discardBom"?
/// (bool, default false), "lines"? (expected line of every output token, then of EOF)}]}`.
/// Tokens: `["Character", s]`, `["Comment", s]`, `["DOCTYPE", name, public, system,
/// correctness]` (correctness = !force_quirks), `["StartTag", name, attrs, selfClosing?, dup?]`,
/// `["EndTag", name, attrs?, selfClosing?, dup?]`; attrs is an object (unordered) or an array of
/// `[name, value]` pairs (source order compared).
pub fn check_vectors_value(doc: &serde_json::Value) -> Result<usize, String> {
    let tests = doc.get("tests").and_then(|t| t.as_array()).ok_or("no \"tests\" array")?;
    let mut checked = 0usize;
    for (idx, t) in tests.iter().enumerate() {
        let desc = t.get("description").and_then(|d| d.as_str()).unwrap_or("?").to_string();
        let ctx = |m: String| format!("case #{idx} {desc:?}: {m}");
        let input = t.get("input").and_then(|d| d.as_str()).ok_or_else(|| ctx("no input".into()))?;
        let output = t.get("output").and_then(|d| d.as_array()).ok_or_else(|| ctx("no output".into()))?;
        let mut expected = Vec::new();
        for o in output {
            expected.push(parse_expected(o).map_err(&ctx)?);
        }
        let states: Vec<StartState> = match t.get("initialStates").and_then(|s| s.as_array()) {
            None => vec![StartState::Data],
            Some(list) => {
                let mut v = Vec::new();
                for s in list {
                    let name = s.as_str().unwrap_or("");
                    v.push(parse_initial_state(name).ok_or_else(|| ctx(format!("unknown initial state {name:?}")))?);
                }
                v
            },
        };
        let last_start_tag = t.get("lastStartTag").and_then(|s| s.as_str()).map(|s| s.to_string());
        let foreign = t.get("foreign").and_then(|b| b.as_bool()).unwrap_or(false);
        let discard_bom = t.get("discardBom").and_then(|b| b.as_bool()).unwrap_or(false);
        let policy = match t.get("policy").and_then(|p| p.as_str()) {
            None => Policy::Const { start: Answer::Continue, end: Answer::Continue, foreign },
            Some("treebuilder") => Policy::TreeBuilderLike,
            Some(other) => return Err(ctx(format!("unknown policy {other:?}"))),
        };
        let lines: Option<Vec<u64>> = t
            .get("lines")
            .and_then(|l| l.as_array())
            .map(|l| l.iter().map(|x| x.as_u64().unwrap_or(0)).collect());
        for st in states {
            let opts = RefTokOpts { start: st, last_start_tag: last_start_tag.clone(), discard_bom };
            let mut sink = CollectSink::new(policy.clone());
            run_reftok(input, &opts, &mut sink);
            let (got, eof_line) = coalesce_for_vectors(&sink.raw).map_err(|m| ctx(format!("[{st:?}] {m}")))?;
            let show = || got.iter().map(|(t, _)| t.short()).collect::<Vec<_>>().join(" ");
            if got.len() != expected.len() {
                return Err(ctx(format!("[{st:?}] expected {} tokens {:?}, got {}: {}", expected.len(), expected, got.len(), show())));
            }
            for (i, (e, (g, _))) in expected.iter().zip(got.iter()).enumerate() {
                if !matches_expected(e, g) {
                    return Err(ctx(format!("[{st:?}] token {i}: expected {e:?}, got {} (all: {})", g.short(), show())));
                }
            }
            if let Some(want) = &lines {
                let mut have: Vec<u64> = got.iter().map(|(_, l)| *l).collect();
                have.push(eof_line);
                if &have != want {
                    return Err(ctx(format!("[{st:?}] lines: expected {want:?}, got {have:?}")));
                }
            }
            checked += 1;
        }
    }
    Ok(checked)
}

/// Load a vectors file (see `check_vectors_value` for the format) and check the model against
/// every case. Returns the number of (case, initial state) runs checked.
pub fn check_vectors(path: &str) -> Result<usize, String> {
    let text = std::fs::read_to_string(path).map_err(|e| format!("{path}: {e}"))?;
    let doc: serde_json::Value = serde_json::from_str(&text).map_err(|e| format!("{path}: {e}"))?;
    check_vectors_value(&doc)
}

/// Compact embedded subset of the vectors (nothing is read from disk).
const SELF_TEST_VECTORS: &str = r##"{"tests":[
{"description":"text and tags","input":"a<B C=d e='f' g=\"h\" i>j</B>","output":[["Character","a"],["StartTag","b",[["c","d"],["e","f"],["g","h"],["i",""]],false,false],["Character","j"],["EndTag","b",{},false,false]]},
{"description":"duplicate attribute","input":"<a x=1 X=2 y>","output":[["StartTag","a",[["x","1"],["y",""]],false,true]]},
{"description":"self closing","input":"<br/>","output":[["StartTag","br",{},true]]},
{"description":"comment","input":"<!--a--b--!>c","output":[["Comment","a--b"],["Character","c"]]},
{"description":"nested comment open","input":"<!--<!---->","output":[["Comment","<!--"]]},
{"description":"doctype","input":"<!DOCTYPE html PUBLIC \"p\" 's'>","output":[["DOCTYPE","html","p","s",true]]},
{"description":"doctype eof","input":"<!DOCTYPE","output":[["DOCTYPE",null,null,null,false]]},
{"description":"rcdata","initialStates":["RCDATA state"],"lastStartTag":"title","input":"a&lt;</b></TITLE >x","output":[["Character","a<</b>"],["EndTag","title"],["Character","x"]]},
{"description":"script double escape","initialStates":["Script data state"],"lastStartTag":"script","input":"<!--<script></script>--></script>","output":[["Character","<!--<script></script>-->"],["EndTag","script"]]},
{"description":"cdata foreign","foreign":true,"input":"<![CDATA[a]]]>b","output":[["Character","a]b"]]},
{"description":"cdata html","input":"<![CDATA[a]]>b","output":[["Comment","[CDATA[a]]"],["Character","b"]]},
{"description":"crlf","input":"a\r\nb\rc\n\rd","output":[["Character","a\nb\nc\n\nd"]],"lines":[5,5]},
{"description":"named refs","input":"&notit;&notin;&amp&ampx&foo;","output":[["Character","¬it;∉&&x&foo;"]]},
{"description":"attr refs","input":"<a b='&amp=&ampx&amp;&not!'>","output":[["StartTag","a",{"b":"&amp=&ampx&¬!"}]]},
{"description":"numeric refs","input":"&#0;&#x80;&#xD800;&#x110000;&#65&#x;&#;","output":[["Character","�€��A&#x;&#;"]]},
{"description":"nul","input":"\u0000<a\u0000 b\u0000=\u0000>","output":[["Character","\u0000"],["StartTag","a�",{"b�":"�"}]]}
]}"##;

/// Check the model against the embedded subset. Returns the number of runs checked.
pub fn self_test() -> Result<usize, String> {
    let doc: serde_json::Value = serde_json::from_str(SELF_TEST_VECTORS).map_err(|e| format!("embedded vectors: {e}"))?;
    check_vectors_value(&doc)
}

/// Structural sanity of the model on `n` random inputs x every start state: exactly one EOF and
/// it is last, one code point per character token, no NUL inside a character token, no Error
/// token, lines never decrease, EOF line == 1 + number of (normalised) line breaks. Returns
/// the number of runs.
pub fn sanity(n: usize, seed: u64) -> Result<usize, String> {
    use crate::gen::{tok_soup, START_STATES};
    let mut rng = crate::prng::Rng::new(seed);
    let mut runs = 0usize;
    for i in 0..n {
        let input = tok_soup(&mut rng, 12);
        for st in START_STATES {
            let last = *rng.pick(&[None, Some("script"), Some("title"), Some("style"), Some("x")]);
            let discard_bom = rng.chance(1, 2);
            let policy = match rng.below(3) {
                0 => Policy::TreeBuilderLike,
                1 => Policy::Const {
                    start: *rng.pick(&crate::tokrec::ALL_ANSWERS),
                    end: *rng.pick(&crate::tokrec::ALL_ANSWERS),
                    foreign: rng.chance(1, 2),
                },
                _ => Policy::Hashed { salt: rng.next_u64(), foreign_salt: rng.next_u64() },
            };
            let opts = RefTokOpts { start: st, last_start_tag: last.map(|s| s.to_string()), discard_bom };
            let mut sink = CollectSink::new(policy.clone());
            run_reftok(&input, &opts, &mut sink);
            let ctx = |m: String| format!("sanity #{i} input {input:?} opts {opts:?} policy {policy:?}: {m}");
            let body = if discard_bom { input.strip_prefix('\u{FEFF}').unwrap_or(&input) } else { &input };
            let breaks = body.replace("\r\n", "\n").chars().filter(|c| *c == '\n' || *c == '\r').count() as u64;
            let raw = &sink.raw;
            match raw.last() {
                Some((RTok::Eof, l)) if *l == 1 + breaks => {},
                other => return Err(ctx(format!("last token {other:?}, expected EOF at line {}", 1 + breaks))),
            }
            if raw.iter().filter(|(t, _)| *t == RTok::Eof).count() != 1 {
                return Err(ctx("more than one EOF".into()));
            }
            let mut prev = 1u64;
            for (t, l) in raw {
                if *l < prev {
                    return Err(ctx(format!("line decreased at {}", t.short())));
                }
                prev = *l;
                match t {
                    RTok::Chars(c) if c.chars().count() != 1 || c.contains('\0') => {
                        return Err(ctx(format!("bad character token {c:?}")));
                    },
                    RTok::Error(_) => return Err(ctx("Error token".into())),
                    _ => {},
                }
            }
            runs += 1;
        }
    }
    Ok(runs)
}

#[cfg(test)]
mod tests {
    use super::*;

    #[test]
    fn entity_table_is_sorted_and_complete() {
        assert_eq!(ENTITIES.len(), 2231);
        assert!(ENTITIES.windows(2).all(|w| w[0].0 < w[1].0));
    }

    #[test]
    fn embedded_vectors_pass() {
        let n = self_test().unwrap_or_else(|e| panic!("{e}"));
        assert!(n >= 16);
    }

    #[test]
    fn vector_file_passes() {
        let path = std::env::var("REFTOK_VECTORS")
            .unwrap_or_else(|_| concat!(env!("CARGO_MANIFEST_DIR"), "/../vectors/tokenizer_vectors.json").to_string());
        let n = check_vectors(&path).unwrap_or_else(|e| panic!("{e}"));
        assert!(n >= 150, "only {n} runs");
        eprintln!("vector runs checked: {n}");
    }

    #[test]
    fn every_state_is_reachable() {
        use crate::gen::{state_prefixes, CLASS_CHARS, SUFFIXES};
        let mut cov = Coverage::new();
        for (start, last, prefix, _) in state_prefixes() {
            for c in CLASS_CHARS {
                for suffix in SUFFIXES {
                    for foreign in [false, true] {
                        let input = format!("{prefix}{c}{suffix}");
                        let opts = RefTokOpts { start, last_start_tag: last.map(|s| s.to_string()), discard_bom: false };
                        let mut sink = CollectSink::new(Policy::Const { start: Answer::Continue, end: Answer::Continue, foreign });
                        cov.extend(run_reftok(&input, &opts, &mut sink));
                    }
                }
            }
        }
        let states: BTreeSet<&str> = cov.iter().map(|(s, _)| *s).collect();
        assert_eq!(states.len(), 80, "states reached: {states:?}");
        eprintln!("(state, class) pairs covered: {}", cov.len());
    }

    #[test]
    fn random_inputs_are_structurally_sane() {
        let n = sanity(10_000, 0x5EED).unwrap_or_else(|e| panic!("{e}"));
        assert_eq!(n, 70_000);
    }
}
