//! Reference WHATWG HTML tree builder (HTML Standard §13.2.6 "Tree construction" and the set-up
//! part of §13.4 "Parsing HTML fragments"), after the 2025 "customizable select" change (no
//! "in select" insertion modes).
//!
//! Written from the specification, independently of the crate under test. It is driven by the
//! reference tokenizer (`model::reftok`) through the `RefSink` trait and produces a plain
//! `TNode` tree. Scripts never run. Parse errors are not reported.
//!
//! Layout: one function per insertion mode, named after the mode; the algorithms of §13.2.6.1–3
//! ("appropriate place for inserting a node", "reconstruct the active formatting elements",
//! "adoption agency algorithm", ...) are separate functions named after the algorithm.
//!
//! `Deviations` are named switches that reproduce behaviour of html5ever that was judged to
//! deviate from the specification; all default to off (= the specification).

use super::reftok::run_reftok;
use super::{RefSink, RefTokOpts};
use crate::gen::StartState;
use crate::tokrec::{Answer, RTok};
use crate::tree::{TAttr, TData, TNode, NS_HTML, NS_MATHML, NS_SVG, NS_XLINK, NS_XML, NS_XMLNS};
use std::collections::BTreeMap;

// ---------------------------------------------------------------------------------------------
// public interface

#[derive(Clone, Copy, Debug, PartialEq, Eq)]
pub enum RefQuirks {
    NoQuirks,
    LimitedQuirks,
    Quirks,
}

#[derive(Clone, Debug)]
pub struct RefTreeOpts {
    pub scripting: bool,
    pub iframe_srcdoc: bool,
    /// initial document mode (for fragments: the mode of the context element's document)
    pub quirks: RefQuirks,
    /// fragment context element: (namespace uri, local name, attributes)
    pub context: Option<(String, String, Vec<(String, String)>)>,
    pub context_allows_scripting: bool,
    pub discard_bom: bool,
    /// fragment case: the context element has a form ancestor (outside the fragment), which becomes the form
    /// element pointer
    pub fragment_form: bool,
}

impl Default for RefTreeOpts {
    fn default() -> Self {
        RefTreeOpts {
            scripting: true,
            iframe_srcdoc: false,
            quirks: RefQuirks::NoQuirks,
            context: None,
            context_allows_scripting: true,
            discard_bom: true,
            fragment_form: false,
        }
    }
}

/// Named deviations of html5ever from the specification (all off = specification behaviour).
#[derive(Clone, Debug, Default, PartialEq, Eq)]
pub struct Deviations {
    /// The "special" category contains only the HTML-namespace names (the MathML mi, mo, mn, ms,
    /// mtext, annotation-xml and SVG foreignObject, desc, title members are missing).
    /// Witness: `<li><svg><foreignObject><li>x`.
    pub special_html_only: bool,
    /// "special" still contains `isindex`. Witness: `<i><isindex></i>x`.
    pub special_has_isindex: bool,
    /// "special" lacks `search`. Witness: `<i><search></i>x`.
    pub special_lacks_search: bool,
    /// The default scope list lacks MathML annotation-xml.
    /// Witness: `<p><math><annotation-xml encoding=text/html><p>x`.
    pub scope_lacks_annotation_xml: bool,
    /// "in table": a character token starts "in table text" only when the current node is
    /// table, tbody, tfoot, thead or tr (`template` is missing from the list).
    /// Witness: `<template><tr><b><tbody> ` (the space gets a reconstructed `b`).
    pub table_text_not_for_template: bool,
    /// In an iframe srcdoc document a DOCTYPE with the force-quirks flag or a name other than
    /// "html" still selects quirks mode (only the public/system identifier tests are exempted).
    /// Witness: `<!DOCTYPE foo>` with iframe_srcdoc = true.
    pub srcdoc_not_exempt_from_force_quirks_and_name: bool,
    /// The quirks public-identifier prefix table lacks "+//Silmaril//dtd html Pro v0r11 19970101//".
    /// Witness: `<!DOCTYPE html PUBLIC "+//Silmaril//dtd html Pro v0r11 19970101//">`.
    pub quirks_table_lacks_silmaril: bool,
    /// "in table body", start tag caption/col/colgroup/tbody/tfoot/thead and end tag table: the
    /// guard looks for "table, tbody, tfoot" in table scope instead of "tbody, thead, tfoot".
    /// Witness: `<template><thead><caption>x`; `<thead><thead>` in a `table` fragment context.
    pub table_body_guard_has_table_not_thead: bool,
    /// A DOCTYPE token in "in table text" is dropped without flushing the pending table character
    /// tokens (the spec's "anything else" entry applies to it). Witness: `<table>a<!DOCTYPE> `.
    pub doctype_does_not_flush_table_text: bool,
    /// The html element created from an `html` start tag in "before html" does not carry the
    /// tokenizer's duplicate-attribute flag. Witness: `<html id id>`.
    pub root_html_loses_dup_flag: bool,
    /// Foreign content, "any other end tag": when the walk up the stack reaches the root html
    /// element the token is dropped instead of being processed by the current insertion mode.
    /// Witness: `<b><i></b><x></i><p>y` in an SVG `g` fragment context.
    pub foreign_end_tag_walk_stops_at_root: bool,
    /// The break-out loop of foreign content ("while the current node is not a MathML text
    /// integration point, an HTML integration point, or an element in the HTML namespace, pop")
    /// does not treat MathML annotation-xml (encoding text/html or application/xhtml+xml) as an
    /// HTML integration point: it is popped too.
    /// Witness: `<math><annotation-xml encoding=text/html></br>`.
    pub breakout_pops_annotation_xml_integration_point: bool,
}

impl Deviations {
    pub const NAMES: &'static [&'static str] = &[
        "special_html_only",
        "special_has_isindex",
        "special_lacks_search",
        "scope_lacks_annotation_xml",
        "table_text_not_for_template",
        "srcdoc_not_exempt_from_force_quirks_and_name",
        "quirks_table_lacks_silmaril",
        "table_body_guard_has_table_not_thead",
        "doctype_does_not_flush_table_text",
        "root_html_loses_dup_flag",
        "foreign_end_tag_walk_stops_at_root",
        "breakout_pops_annotation_xml_integration_point",
    ];
    pub fn set(&mut self, name: &str, v: bool) -> bool {
        match name {
            "special_html_only" => self.special_html_only = v,
            "special_has_isindex" => self.special_has_isindex = v,
            "special_lacks_search" => self.special_lacks_search = v,
            "scope_lacks_annotation_xml" => self.scope_lacks_annotation_xml = v,
            "table_text_not_for_template" => self.table_text_not_for_template = v,
            "srcdoc_not_exempt_from_force_quirks_and_name" => self.srcdoc_not_exempt_from_force_quirks_and_name = v,
            "quirks_table_lacks_silmaril" => self.quirks_table_lacks_silmaril = v,
            "table_body_guard_has_table_not_thead" => self.table_body_guard_has_table_not_thead = v,
            "doctype_does_not_flush_table_text" => self.doctype_does_not_flush_table_text = v,
            "root_html_loses_dup_flag" => self.root_html_loses_dup_flag = v,
            "foreign_end_tag_walk_stops_at_root" => self.foreign_end_tag_walk_stops_at_root = v,
            "breakout_pops_annotation_xml_integration_point" => self.breakout_pops_annotation_xml_integration_point = v,
            _ => return false,
        }
        true
    }
}

pub struct RefTreeOut {
    pub tree: TNode,
    /// final document mode
    pub quirks: RefQuirks,
    pub coverage: BTreeMap<String, u64>,
}

/// Parse `input` with the reference tokenizer + reference tree builder.
pub fn reftree(input: &str, opts: &RefTreeOpts, dev: &Deviations) -> RefTreeOut {
    let mut tb = TreeBuilder::new(opts, dev);
    let start = tb.fragment_start_state();
    let topts = RefTokOpts { start, last_start_tag: None, discard_bom: opts.discard_bom };
    run_reftok(input, &topts, &mut tb);
    tb.finish()
}

// ---------------------------------------------------------------------------------------------
// tokens as the tree builder sees them

#[derive(Clone, Debug, PartialEq, Eq)]
struct Tag {
    name: String,
    attrs: Vec<(String, String)>,
    self_closing: bool,
    dup: bool,
}

impl Tag {
    fn named(name: &str) -> Tag {
        Tag { name: name.to_string(), attrs: Vec::new(), self_closing: false, dup: false }
    }
    fn attr(&self, name: &str) -> Option<&str> {
        self.attrs.iter().find(|a| a.0 == name).map(|a| a.1.as_str())
    }
}

#[derive(Clone, Debug)]
enum Tok {
    Doctype { name: Option<String>, public_id: Option<String>, system_id: Option<String>, force_quirks: bool },
    Start(Tag),
    End(Tag),
    Comment(String),
    /// one character token (U+0000 included)
    Char(char),
    Eof,
}

fn is_ws(c: char) -> bool {
    matches!(c, '\t' | '\n' | '\x0C' | '\r' | ' ')
}

#[derive(Clone, Copy, Debug, PartialEq, Eq)]
enum Class {
    Doctype,
    Comment,
    Ws,
    Nul,
    Char,
    Start,
    End,
    Eof,
}
const N_CLASS: usize = 8;
const CLASS_NAMES: [&str; N_CLASS] = ["doctype", "comment", "ws", "nul", "char", "start", "end", "eof"];

impl Tok {
    fn class(&self) -> Class {
        match self {
            Tok::Doctype { .. } => Class::Doctype,
            Tok::Start(_) => Class::Start,
            Tok::End(_) => Class::End,
            Tok::Comment(_) => Class::Comment,
            Tok::Char('\0') => Class::Nul,
            Tok::Char(c) if is_ws(*c) => Class::Ws,
            Tok::Char(_) => Class::Char,
            Tok::Eof => Class::Eof,
        }
    }
}

// ---------------------------------------------------------------------------------------------
// insertion modes

#[derive(Clone, Copy, Debug, PartialEq, Eq)]
enum Mode {
    Initial,
    BeforeHtml,
    BeforeHead,
    InHead,
    InHeadNoscript,
    AfterHead,
    InBody,
    Text,
    InTable,
    InTableText,
    InCaption,
    InColumnGroup,
    InTableBody,
    InRow,
    InCell,
    InTemplate,
    AfterBody,
    InFrameset,
    AfterFrameset,
    AfterAfterBody,
    AfterAfterFrameset,
}
const N_MODE: usize = 22; // 21 modes + "foreign content"
const FOREIGN_IDX: usize = 21;

impl Mode {
    fn idx(self) -> usize {
        self as usize
    }
}
pub const MODE_NAMES: [&str; N_MODE] = [
    "initial",
    "before html",
    "before head",
    "in head",
    "in head noscript",
    "after head",
    "in body",
    "text",
    "in table",
    "in table text",
    "in caption",
    "in column group",
    "in table body",
    "in row",
    "in cell",
    "in template",
    "after body",
    "in frameset",
    "after frameset",
    "after after body",
    "after after frameset",
    "foreign content",
];

// ---------------------------------------------------------------------------------------------
// the DOM arena

type Id = usize;

#[derive(Clone, Copy, Debug, PartialEq, Eq)]
enum Ns {
    Html,
    MathMl,
    Svg,
    /// only possible for a fragment context element
    Other,
}

fn ns_uri(ns: Ns) -> &'static str {
    match ns {
        Ns::Html => NS_HTML,
        Ns::MathMl => NS_MATHML,
        Ns::Svg => NS_SVG,
        Ns::Other => "",
    }
}

#[derive(Clone, Debug)]
struct Element {
    ns: Ns,
    local: String,
    attrs: Vec<TAttr>,
    dup: bool,
    /// template contents (HTML template elements only)
    contents: Option<Id>,
}

#[derive(Clone, Debug)]
enum Kind {
    Document,
    Fragment,
    Doctype { name: String, public_id: String, system_id: String },
    Text(String),
    Comment(String),
    Element(Element),
}

struct Node {
    kind: Kind,
    parent: Option<Id>,
    children: Vec<Id>,
}

/// An insertion location: inside `parent`, before child `before` (None = after the last child).
#[derive(Clone, Copy, Debug)]
struct Place {
    parent: Id,
    before: Option<Id>,
}

/// Entry of the list of active formatting elements.
#[derive(Clone, Debug)]
enum Afe {
    Marker,
    Elem(Id, Tag),
}

#[derive(Clone, Copy, PartialEq, Eq)]
enum Scope {
    Default,
    ListItem,
    Button,
    Table,
}

const DOC: Id = 0;

// ---------------------------------------------------------------------------------------------
// the tree builder state (§13.2.4 "Parse state")

struct TreeBuilder {
    dev: Deviations,
    nodes: Vec<Node>,
    mode: Mode,
    original_mode: Mode,
    template_modes: Vec<Mode>,
    /// stack of open elements (bottom = last)
    open: Vec<Id>,
    afe: Vec<Afe>,
    head: Option<Id>,
    form: Option<Id>,
    scripting: bool,
    frameset_ok: bool,
    foster_parenting: bool,
    pending_table_text: Vec<char>,
    ignore_lf: bool,
    iframe_srcdoc: bool,
    quirks: RefQuirks,
    /// fragment case: the context element (detached)
    context: Option<Id>,
    context_allows_scripting: bool,
    stopped: bool,
    /// what the tokenizer is told after the current tag token
    answer: Answer,
    cov_modes: [[u64; N_CLASS]; N_MODE],
    cov: BTreeMap<String, u64>,
}

impl RefSink for TreeBuilder {
    fn token(&mut self, tok: RTok, _line: u64) -> Answer {
        self.answer = Answer::Continue;
        let t = match tok {
            RTok::Doctype { name, public_id, system_id, force_quirks } => Tok::Doctype { name, public_id, system_id, force_quirks },
            RTok::Start { name, attrs, self_closing, dup } => Tok::Start(Tag { name, attrs, self_closing, dup }),
            RTok::End { name, attrs, self_closing, dup } => Tok::End(Tag { name, attrs, self_closing, dup }),
            RTok::Comment(c) => Tok::Comment(c),
            RTok::Chars(s) => {
                for c in s.chars() {
                    self.tree_construction_dispatcher(&Tok::Char(c));
                }
                return Answer::Continue;
            },
            RTok::Null => Tok::Char('\0'),
            RTok::Eof => Tok::Eof,
            RTok::Error(_) => return Answer::Continue,
        };
        self.tree_construction_dispatcher(&t);
        self.answer
    }
    fn foreign(&mut self) -> bool {
        match self.adjusted_current_node() {
            Some(n) => self.el(n).ns != Ns::Html,
            None => false,
        }
    }
}

impl TreeBuilder {
    fn new(opts: &RefTreeOpts, dev: &Deviations) -> TreeBuilder {
        let mut tb = TreeBuilder {
            dev: dev.clone(),
            nodes: vec![Node { kind: Kind::Document, parent: None, children: Vec::new() }],
            mode: Mode::Initial,
            original_mode: Mode::Initial,
            template_modes: Vec::new(),
            open: Vec::new(),
            afe: Vec::new(),
            head: None,
            form: None,
            scripting: opts.scripting,
            frameset_ok: true,
            foster_parenting: false,
            pending_table_text: Vec::new(),
            ignore_lf: false,
            iframe_srcdoc: opts.iframe_srcdoc,
            quirks: opts.quirks,
            context: None,
            context_allows_scripting: opts.context_allows_scripting,
            stopped: false,
            answer: Answer::Continue,
            cov_modes: [[0; N_CLASS]; N_MODE],
            cov: BTreeMap::new(),
        };
        if let Some((ns, local, attrs)) = &opts.context {
            tb.set_up_fragment_case(ns, local, attrs);
            if opts.fragment_form {
                // a form ancestor of the context element: a node outside the fragment's tree, never on the stack
                if ns == NS_HTML && local == "form" {
                    tb.form = tb.context;
                } else {
                    let f = tb.new_node(Kind::Element(Element { ns: Ns::Html, local: "form".to_string(), attrs: Vec::new(), dup: false, contents: None }));
                    tb.form = Some(f);
                }
            }
        }
        tb
    }

    /// §13.4 "parsing HTML fragments", steps that concern the tree builder.
    fn set_up_fragment_case(&mut self, ns: &str, local: &str, attrs: &[(String, String)]) {
        let ens = match ns {
            NS_HTML => Ns::Html,
            NS_MATHML => Ns::MathMl,
            NS_SVG => Ns::Svg,
            _ => Ns::Other,
        };
        let tattrs = attrs
            .iter()
            .map(|(k, v)| TAttr { prefix: None, ns: String::new(), local: k.clone(), value: v.clone() })
            .collect();
        let ctx = self.new_node(Kind::Element(Element { ns: ens, local: local.to_string(), attrs: tattrs, dup: false, contents: None }));
        if ens == Ns::Html && local == "template" {
            let f = self.new_node(Kind::Fragment);
            if let Kind::Element(e) = &mut self.nodes[ctx].kind {
                e.contents = Some(f);
            }
        }
        self.context = Some(ctx);
        // "Let root be the result of creating an element given document, "html", and the HTML
        // namespace. Append root to document. Set up the stack of open elements so that it
        // contains just the single element root."
        let root = self.create_element_for(&Tag::named("html"), Ns::Html);
        self.append(DOC, root);
        self.open.push(root);
        // "If the context element is a template element, push "in template" ..."
        if self.is_html(ctx, "template") {
            self.template_modes.push(Mode::InTemplate);
            self.count("template-mode-push:fragment-context");
        }
        self.reset_the_insertion_mode_appropriately();
        // "Set the parser's form element pointer to the nearest node to the context element that
        // is a form element (going straight up the ancestor chain, and including the element
        // itself, if it is a form element), if any." The context element of this harness is a
        // freshly created, parentless element; html5ever's parse_fragment passes no form element
        // (for a `form` context the spec would set the pointer to the context itself — the
        // generator's `form` context is affected; see c02.rs).
        self.form = None;
    }

    /// Tokenizer state for the fragment case (§13.4 step 4), Data otherwise.
    fn fragment_start_state(&self) -> StartState {
        let Some(ctx) = self.context else { return StartState::Data };
        let e = self.el(ctx);
        if e.ns != Ns::Html {
            return StartState::Data;
        }
        match e.local.as_str() {
            "title" | "textarea" => StartState::Rcdata,
            "style" | "xmp" | "iframe" | "noembed" | "noframes" => StartState::Rawtext,
            "script" => StartState::ScriptData,
            "noscript" => {
                if self.context_allows_scripting {
                    StartState::Rawtext
                } else {
                    StartState::Data
                }
            },
            "plaintext" => StartState::Plaintext,
            _ => StartState::Data,
        }
    }

    fn finish(mut self) -> RefTreeOut {
        for m in 0..N_MODE {
            for c in 0..N_CLASS {
                let n = self.cov_modes[m][c];
                if n > 0 {
                    self.cov.insert(format!("mode:({},{})", MODE_NAMES[m], CLASS_NAMES[c]), n);
                }
            }
        }
        let tree = self.export(DOC);
        RefTreeOut { tree, quirks: self.quirks, coverage: self.cov }
    }

    fn count(&mut self, key: &str) {
        if let Some(v) = self.cov.get_mut(key) {
            *v += 1;
        } else {
            self.cov.insert(key.to_string(), 1);
        }
    }

    // -----------------------------------------------------------------------------------------
    // DOM primitives

    fn new_node(&mut self, kind: Kind) -> Id {
        self.nodes.push(Node { kind, parent: None, children: Vec::new() });
        self.nodes.len() - 1
    }

    fn el(&self, id: Id) -> &Element {
        match &self.nodes[id].kind {
            Kind::Element(e) => e,
            other => panic!("reftree: node {id} is not an element: {other:?}"),
        }
    }

    fn is_html(&self, id: Id, name: &str) -> bool {
        matches!(&self.nodes[id].kind, Kind::Element(e) if e.ns == Ns::Html && e.local == name)
    }

    fn is_html_in(&self, id: Id, names: &[&str]) -> bool {
        matches!(&self.nodes[id].kind, Kind::Element(e) if e.ns == Ns::Html && names.contains(&e.local.as_str()))
    }

    fn is_ns(&self, id: Id, ns: Ns, name: &str) -> bool {
        matches!(&self.nodes[id].kind, Kind::Element(e) if e.ns == ns && e.local == name)
    }

    /// Remove `child` from its parent, if it has one.
    fn detach(&mut self, child: Id) {
        if let Some(p) = self.nodes[child].parent.take() {
            if let Some(pos) = self.nodes[p].children.iter().position(|&c| c == child) {
                self.nodes[p].children.remove(pos);
            }
        }
    }

    /// DOM "append": `child` becomes the last child of `parent` (it is first removed from its
    /// old parent). No text merging: that is a property of "insert a character" only.
    fn append(&mut self, parent: Id, child: Id) {
        self.detach(child);
        self.nodes[child].parent = Some(parent);
        self.nodes[parent].children.push(child);
    }

    fn insert_at(&mut self, place: Place, child: Id) {
        self.detach(child);
        let pos = match place.before {
            Some(b) => self.nodes[place.parent].children.iter().position(|&c| c == b).unwrap_or(self.nodes[place.parent].children.len()),
            None => self.nodes[place.parent].children.len(),
        };
        self.nodes[child].parent = Some(place.parent);
        self.nodes[place.parent].children.insert(pos, child);
    }

    fn export(&self, root: Id) -> TNode {
        // recursion depth is bounded by the input length (inputs are short)
        let n = &self.nodes[root];
        let data = match &n.kind {
            Kind::Document => TData::Document,
            Kind::Fragment => TData::Fragment,
            Kind::Doctype { name, public_id, system_id } => {
                TData::Doctype { name: name.clone(), public_id: public_id.clone(), system_id: system_id.clone() }
            },
            Kind::Text(t) => TData::Text(t.clone()),
            Kind::Comment(t) => TData::Comment(t.clone()),
            Kind::Element(e) => TData::Element {
                prefix: None,
                ns: ns_uri(e.ns).to_string(),
                local: e.local.clone(),
                attrs: e.attrs.clone(),
                dup_attrs: e.dup,
            },
        };
        let mut out = TNode::new(data);
        for &c in &n.children {
            out.children.push(self.export(c));
        }
        if let Kind::Element(Element { contents: Some(c), .. }) = &n.kind {
            out.contents = Some(Box::new(self.export(*c)));
        }
        out
    }

    // -----------------------------------------------------------------------------------------
    // §13.2.4.3 The stack of open elements

    fn current_node(&self) -> Id {
        *self.open.last().expect("reftree: stack of open elements is empty")
    }

    /// "The adjusted current node is the context element if the parser was created as part of
    /// the HTML fragment parsing algorithm and the stack of open elements has only one element
    /// in it (fragment case); otherwise, the adjusted current node is the current node."
    fn adjusted_current_node(&self) -> Option<Id> {
        if self.open.is_empty() {
            return None;
        }
        if self.open.len() == 1 {
            if let Some(c) = self.context {
                return Some(c);
            }
        }
        self.open.last().copied()
    }

    fn pop(&mut self) -> Id {
        self.open.pop().expect("reftree: pop from empty stack of open elements")
    }

    fn in_stack(&self, id: Id) -> bool {
        self.open.contains(&id)
    }

    fn stack_has_html(&self, name: &str) -> bool {
        self.open.iter().any(|&n| self.is_html(n, name))
    }

    fn remove_from_stack(&mut self, id: Id) {
        if let Some(pos) = self.open.iter().rposition(|&n| n == id) {
            self.open.remove(pos);
        }
    }

    /// Pop elements until an HTML element with one of `names` has been popped.
    fn pop_until_popped(&mut self, names: &[&str]) {
        while let Some(n) = self.open.pop() {
            if self.is_html_in(n, names) {
                break;
            }
        }
    }

    /// The "special" category.
    fn is_special(&self, id: Id) -> bool {
        let e = self.el(id);
        let n = e.local.as_str();
        let html_special = || {
            if n == "isindex" {
                return self.dev.special_has_isindex;
            }
            if n == "search" {
                return !self.dev.special_lacks_search;
            }
            matches!(
                n,
                "address" | "applet" | "area" | "article" | "aside" | "base" | "basefont" | "bgsound" | "blockquote" | "body"
                    | "br" | "button" | "caption" | "center" | "col" | "colgroup" | "dd" | "details" | "dir" | "div" | "dl" | "dt"
                    | "embed" | "fieldset" | "figcaption" | "figure" | "footer" | "form" | "frame" | "frameset" | "h1" | "h2"
                    | "h3" | "h4" | "h5" | "h6" | "head" | "header" | "hgroup" | "hr" | "html" | "iframe" | "img" | "input"
                    | "keygen" | "li" | "link" | "listing" | "main" | "marquee" | "menu" | "meta" | "nav" | "noembed"
                    | "noframes" | "noscript" | "object" | "ol" | "p" | "param" | "plaintext" | "pre" | "script"
                    | "section" | "select" | "source" | "style" | "summary" | "table" | "tbody" | "td" | "template" | "textarea"
                    | "tfoot" | "th" | "thead" | "title" | "tr" | "track" | "ul" | "wbr" | "xmp"
            )
        };
        match e.ns {
            Ns::Html => html_special(),
            Ns::MathMl => !self.dev.special_html_only && matches!(n, "mi" | "mo" | "mn" | "ms" | "mtext" | "annotation-xml"),
            Ns::Svg => !self.dev.special_html_only && matches!(n, "foreignObject" | "desc" | "title"),
            Ns::Other => false,
        }
    }

    /// Is `id` one of the element types that terminate the given scope?
    fn is_scope_boundary(&self, id: Id, scope: Scope) -> bool {
        let e = self.el(id);
        let n = e.local.as_str();
        if scope == Scope::Table {
            return e.ns == Ns::Html && matches!(n, "html" | "table" | "template");
        }
        let default = match e.ns {
            Ns::Html => matches!(n, "applet" | "caption" | "html" | "table" | "td" | "th" | "marquee" | "object" | "template" | "select"),
            Ns::MathMl => {
                matches!(n, "mi" | "mo" | "mn" | "ms" | "mtext") || (n == "annotation-xml" && !self.dev.scope_lacks_annotation_xml)
            },
            Ns::Svg => matches!(n, "foreignObject" | "desc" | "title"),
            Ns::Other => false,
        };
        if default {
            return true;
        }
        match scope {
            Scope::ListItem => e.ns == Ns::Html && matches!(n, "ol" | "ul"),
            Scope::Button => e.ns == Ns::Html && n == "button",
            _ => false,
        }
    }

    /// "has an element target node in a specific scope", target given by a predicate.
    fn has_in_scope_where(&self, scope: Scope, target: impl Fn(&TreeBuilder, Id) -> bool) -> bool {
        for &node in self.open.iter().rev() {
            if target(self, node) {
                return true;
            }
            if self.is_scope_boundary(node, scope) {
                return false;
            }
        }
        false
    }

    /// "has a <name> element in <scope>" (an HTML element with that tag name).
    fn has_in_scope(&self, scope: Scope, name: &str) -> bool {
        self.has_in_scope_where(scope, |tb, n| tb.is_html(n, name))
    }

    fn has_any_in_scope(&self, scope: Scope, names: &[&str]) -> bool {
        self.has_in_scope_where(scope, |tb, n| tb.is_html_in(n, names))
    }

    fn node_in_scope(&self, scope: Scope, id: Id) -> bool {
        self.has_in_scope_where(scope, |_, n| n == id)
    }

    // -----------------------------------------------------------------------------------------
    // §13.2.4.2 / §13.2.6.3 implied end tags

    fn generate_implied_end_tags(&mut self, except: Option<&str>) {
        const LIST: &[&str] = &["dd", "dt", "li", "optgroup", "option", "p", "rb", "rp", "rt", "rtc"];
        while let Some(&cur) = self.open.last() {
            if self.is_html_in(cur, LIST) && except.map_or(true, |x| !self.is_html(cur, x)) {
                self.open.pop();
            } else {
                break;
            }
        }
    }

    fn generate_all_implied_end_tags_thoroughly(&mut self) {
        const LIST: &[&str] = &[
            "caption", "colgroup", "dd", "dt", "li", "optgroup", "option", "p", "rb", "rp", "rt", "rtc", "tbody", "td", "tfoot", "th",
            "thead", "tr",
        ];
        while let Some(&cur) = self.open.last() {
            if self.is_html_in(cur, LIST) {
                self.open.pop();
            } else {
                break;
            }
        }
    }

    // -----------------------------------------------------------------------------------------
    // §13.2.6.1 Creating and inserting nodes

    /// "appropriate place for inserting a node", optionally with an override target.
    fn appropriate_place_for_inserting_a_node(&mut self, override_target: Option<Id>) -> Place {
        let target = override_target.unwrap_or_else(|| self.current_node());
        let mut place = if self.foster_parenting && self.is_html_in(target, &["table", "tbody", "tfoot", "thead", "tr"]) {
            self.foster_parent_place()
        } else {
            Place { parent: target, before: None }
        };
        // "If the adjusted insertion location is inside a template element, let it instead be
        // inside the template element's template contents, after its last child (if any)."
        if let Kind::Element(Element { contents: Some(c), .. }) = &self.nodes[place.parent].kind {
            place = Place { parent: *c, before: None };
        }
        place
    }

    fn foster_parent_place(&mut self) -> Place {
        let last_template = self.open.iter().rposition(|&n| self.is_html(n, "template"));
        let last_table = self.open.iter().rposition(|&n| self.is_html(n, "table"));
        if let Some(t) = last_template {
            if last_table.map_or(true, |tb| t > tb) {
                self.count("foster-parent:template-contents");
                let tpl = self.open[t];
                let contents = self.el(tpl).contents.expect("template without contents");
                return Place { parent: contents, before: None };
            }
        }
        let Some(ti) = last_table else {
            // fragment case
            self.count("foster-parent:no-table(fragment)");
            return Place { parent: self.open[0], before: None };
        };
        let table = self.open[ti];
        if let Some(p) = self.nodes[table].parent {
            self.count("foster-parent:before-table");
            return Place { parent: p, before: Some(table) };
        }
        self.count("foster-parent:table-without-parent");
        Place { parent: self.open[ti - 1], before: None }
    }

    /// "create an element for a token" (attributes copied as they are; callers adjust foreign
    /// attributes on the token first).
    fn create_element_for(&mut self, tag: &Tag, ns: Ns) -> Id {
        let attrs = tag
            .attrs
            .iter()
            .map(|(k, v)| TAttr { prefix: None, ns: String::new(), local: k.clone(), value: v.clone() })
            .collect();
        self.create_element_with(tag, ns, attrs)
    }

    fn create_element_with(&mut self, tag: &Tag, ns: Ns, attrs: Vec<TAttr>) -> Id {
        let id = self.new_node(Kind::Element(Element { ns, local: tag.name.clone(), attrs, dup: tag.dup, contents: None }));
        if ns == Ns::Html && tag.name == "template" {
            let f = self.new_node(Kind::Fragment);
            if let Kind::Element(e) = &mut self.nodes[id].kind {
                e.contents = Some(f);
            }
        }
        id
    }

    /// "insert an HTML element" for a token.
    fn insert_an_html_element(&mut self, tag: &Tag) -> Id {
        let place = self.appropriate_place_for_inserting_a_node(None);
        let el = self.create_element_for(tag, Ns::Html);
        self.insert_element_at(place, el);
        self.open.push(el);
        el
    }

    /// "insert a foreign element" for a token whose attributes have been adjusted already.
    fn insert_a_foreign_element(&mut self, tag: &Tag, ns: Ns, attrs: Vec<TAttr>) -> Id {
        let place = self.appropriate_place_for_inserting_a_node(None);
        let el = self.create_element_with(tag, ns, attrs);
        self.insert_element_at(place, el);
        self.open.push(el);
        el
    }

    fn insert_element_at(&mut self, place: Place, el: Id) {
        // "If it is possible to insert element at the adjusted insertion location": the only
        // impossible case is a Document that already has an element child; the stack of open
        // elements never has the Document as an insertion target, so this cannot happen here.
        if place.before.is_some() {
            self.count("insert:element-before-sibling");
        }
        self.insert_at(place, el);
    }

    /// "insert a character"
    fn insert_a_character(&mut self, c: char) {
        let place = self.appropriate_place_for_inserting_a_node(None);
        self.insert_character_at(place, c);
    }

    fn insert_character_at(&mut self, place: Place, c: char) {
        // "If the adjusted insertion location is in a Document node, then return."
        if matches!(self.nodes[place.parent].kind, Kind::Document) {
            return;
        }
        let kids = &self.nodes[place.parent].children;
        let pos = match place.before {
            Some(b) => kids.iter().position(|&k| k == b).unwrap_or(kids.len()),
            None => kids.len(),
        };
        // "If there is a Text node immediately before the adjusted insertion location, then
        // append data to that Text node's data."
        if pos > 0 {
            let prev = kids[pos - 1];
            if let Kind::Text(t) = &mut self.nodes[prev].kind {
                t.push(c);
                return;
            }
        }
        if place.before.is_some() {
            self.count("insert:text-before-sibling");
        }
        let t = self.new_node(Kind::Text(c.to_string()));
        self.nodes[t].parent = Some(place.parent);
        self.nodes[place.parent].children.insert(pos, t);
    }

    /// "insert a comment" at the appropriate place
    fn insert_a_comment(&mut self, data: &str) {
        let place = self.appropriate_place_for_inserting_a_node(None);
        let c = self.new_node(Kind::Comment(data.to_string()));
        self.insert_at(place, c);
    }

    /// "insert a comment" as the last child of the given node
    fn insert_a_comment_as_last_child_of(&mut self, parent: Id, data: &str) {
        let c = self.new_node(Kind::Comment(data.to_string()));
        self.append(parent, c);
    }

    /// For each attribute on the token, add it to the element if it is not already present.
    fn add_missing_attributes(&mut self, el: Id, tag: &Tag) {
        if let Kind::Element(e) = &mut self.nodes[el].kind {
            for (k, v) in &tag.attrs {
                if !e.attrs.iter().any(|a| a.ns.is_empty() && a.local == *k) {
                    e.attrs.push(TAttr { prefix: None, ns: String::new(), local: k.clone(), value: v.clone() });
                }
            }
        }
    }

    // -----------------------------------------------------------------------------------------
    // §13.2.4.3 The list of active formatting elements

    fn insert_a_marker(&mut self) {
        self.afe.push(Afe::Marker);
    }

    /// "push onto the list of active formatting elements" (with the Noah's Ark clause)
    fn push_onto_the_list_of_active_formatting_elements(&mut self, el: Id, tag: &Tag) {
        let mut same: Vec<usize> = Vec::new();
        for (i, e) in self.afe.iter().enumerate().rev() {
            match e {
                Afe::Marker => break,
                Afe::Elem(id, _) => {
                    if self.same_name_namespace_attributes(*id, el) {
                        same.push(i);
                    }
                },
            }
        }
        if same.len() >= 3 {
            // `same` is in reverse order: the last pushed index is the earliest entry
            let earliest = *same.last().unwrap();
            self.afe.remove(earliest);
            self.count("noahs-ark-removal");
        }
        self.afe.push(Afe::Elem(el, tag.clone()));
    }

    fn same_name_namespace_attributes(&self, a: Id, b: Id) -> bool {
        let (x, y) = (self.el(a), self.el(b));
        if x.ns != y.ns || x.local != y.local || x.attrs.len() != y.attrs.len() {
            return false;
        }
        x.attrs.iter().all(|p| y.attrs.iter().any(|q| p.ns == q.ns && p.local == q.local && p.value == q.value))
    }

    fn afe_position(&self, el: Id) -> Option<usize> {
        self.afe.iter().position(|e| matches!(e, Afe::Elem(id, _) if *id == el))
    }

    fn remove_from_afe(&mut self, el: Id) {
        if let Some(p) = self.afe_position(el) {
            self.afe.remove(p);
        }
    }

    /// "reconstruct the active formatting elements"
    fn reconstruct_the_active_formatting_elements(&mut self) {
        // 1-2
        let Some(last) = self.afe.last() else { return };
        match last {
            Afe::Marker => return,
            Afe::Elem(id, _) if self.in_stack(*id) => return,
            _ => {},
        }
        // 3-6 rewind
        let mut entry = self.afe.len() - 1;
        loop {
            if entry == 0 {
                break; // "jump to the step labeled create"
            }
            entry -= 1;
            let stop = match &self.afe[entry] {
                Afe::Marker => true,
                Afe::Elem(id, _) => self.in_stack(*id),
            };
            if stop {
                entry += 1; // advance
                break;
            }
        }
        // 7-10 advance/create
        let mut n = 0;
        loop {
            let tag = match &self.afe[entry] {
                Afe::Elem(_, t) => t.clone(),
                Afe::Marker => unreachable!("marker in the range to reconstruct"),
            };
            let new = self.insert_an_html_element(&tag);
            self.afe[entry] = Afe::Elem(new, tag);
            n += 1;
            if entry == self.afe.len() - 1 {
                break;
            }
            entry += 1;
        }
        self.count(&format!("reconstruct-formatting:{}", if n >= 4 { "4+".to_string() } else { n.to_string() }));
    }

    /// "clear the list of active formatting elements up to the last marker"
    fn clear_the_list_of_active_formatting_elements_up_to_the_last_marker(&mut self) {
        while let Some(e) = self.afe.pop() {
            if matches!(e, Afe::Marker) {
                break;
            }
        }
    }

    // -----------------------------------------------------------------------------------------
    // §13.2.4.1 The insertion mode

    fn reset_the_insertion_mode_appropriately(&mut self) {
        let mode = self.compute_reset_mode();
        self.count(&format!("reset-insertion-mode:{}", MODE_NAMES[mode.idx()]));
        self.mode = mode;
    }

    fn compute_reset_mode(&self) -> Mode {
        let mut last = false;
        let mut i = self.open.len();
        loop {
            i -= 1;
            let mut node = self.open[i];
            if i == 0 {
                last = true;
                if let Some(c) = self.context {
                    node = c;
                }
            }
            let e = self.el(node);
            // "a td element" etc. are HTML elements
            if e.ns == Ns::Html {
                match e.local.as_str() {
                    "td" | "th" if !last => return Mode::InCell,
                    "tr" => return Mode::InRow,
                    "tbody" | "thead" | "tfoot" => return Mode::InTableBody,
                    "caption" => return Mode::InCaption,
                    "colgroup" => return Mode::InColumnGroup,
                    "table" => return Mode::InTable,
                    "template" => return *self.template_modes.last().expect("template without template insertion mode"),
                    "head" if !last => return Mode::InHead,
                    "body" => return Mode::InBody,
                    "frameset" => return Mode::InFrameset,
                    "html" => {
                        return if self.head.is_none() { Mode::BeforeHead } else { Mode::AfterHead };
                    },
                    _ => {},
                }
            }
            if last {
                return Mode::InBody;
            }
        }
    }

    // -----------------------------------------------------------------------------------------
    // §13.2.6 Tree construction: the dispatcher

    fn is_mathml_text_integration_point(&self, id: Id) -> bool {
        let e = self.el(id);
        e.ns == Ns::MathMl && matches!(e.local.as_str(), "mi" | "mo" | "mn" | "ms" | "mtext")
    }

    fn is_html_integration_point(&self, id: Id) -> bool {
        let e = self.el(id);
        match e.ns {
            Ns::MathMl if e.local == "annotation-xml" => e.attrs.iter().any(|a| {
                a.ns.is_empty()
                    && a.local == "encoding"
                    && (a.value.eq_ignore_ascii_case("text/html") || a.value.eq_ignore_ascii_case("application/xhtml+xml"))
            }),
            Ns::Svg => matches!(e.local.as_str(), "foreignObject" | "desc" | "title"),
            _ => false,
        }
    }

    fn tree_construction_dispatcher(&mut self, tok: &Tok) {
        if self.stopped {
            return;
        }
        // "If the next token is a U+000A LINE FEED (LF) character token, then ignore that token"
        if self.ignore_lf {
            self.ignore_lf = false;
            if matches!(tok, Tok::Char('\n')) {
                self.count("ignored-leading-lf");
                return;
            }
        }
        let html_rules = match self.adjusted_current_node() {
            None => true,
            Some(acn) => {
                let e = self.el(acn);
                if e.ns == Ns::Html {
                    true
                } else if self.is_mathml_text_integration_point(acn)
                    && match tok {
                        Tok::Start(t) => t.name != "mglyph" && t.name != "malignmark",
                        Tok::Char(_) => true,
                        _ => false,
                    }
                {
                    self.count("dispatch:mathml-text-integration-point");
                    true
                } else if self.is_ns(acn, Ns::MathMl, "annotation-xml") && matches!(tok, Tok::Start(t) if t.name == "svg") {
                    self.count("dispatch:annotation-xml-svg");
                    true
                } else if self.is_html_integration_point(acn) && matches!(tok, Tok::Start(_) | Tok::Char(_)) {
                    self.count("dispatch:html-integration-point");
                    true
                } else {
                    matches!(tok, Tok::Eof)
                }
            },
        };
        if html_rules {
            self.process_using_rules_for(self.mode, tok);
        } else {
            self.cov_modes[FOREIGN_IDX][tok.class() as usize] += 1;
            self.foreign_content(tok);
        }
    }

    /// "process the token using the rules for the <mode> insertion mode"
    fn process_using_rules_for(&mut self, mode: Mode, tok: &Tok) {
        self.cov_modes[mode.idx()][tok.class() as usize] += 1;
        match mode {
            Mode::Initial => self.initial(tok),
            Mode::BeforeHtml => self.before_html(tok),
            Mode::BeforeHead => self.before_head(tok),
            Mode::InHead => self.in_head(tok),
            Mode::InHeadNoscript => self.in_head_noscript(tok),
            Mode::AfterHead => self.after_head(tok),
            Mode::InBody => self.in_body(tok),
            Mode::Text => self.text(tok),
            Mode::InTable => self.in_table(tok),
            Mode::InTableText => self.in_table_text(tok),
            Mode::InCaption => self.in_caption(tok),
            Mode::InColumnGroup => self.in_column_group(tok),
            Mode::InTableBody => self.in_table_body(tok),
            Mode::InRow => self.in_row(tok),
            Mode::InCell => self.in_cell(tok),
            Mode::InTemplate => self.in_template(tok),
            Mode::AfterBody => self.after_body(tok),
            Mode::InFrameset => self.in_frameset(tok),
            Mode::AfterFrameset => self.after_frameset(tok),
            Mode::AfterAfterBody => self.after_after_body(tok),
            Mode::AfterAfterFrameset => self.after_after_frameset(tok),
        }
    }

    /// "reprocess the token" (in the current insertion mode, through the rules for HTML content)
    fn reprocess(&mut self, tok: &Tok) {
        self.process_using_rules_for(self.mode, tok);
    }

    fn stop_parsing(&mut self) {
        // "Pop all the nodes off the stack of open elements." (nothing else is observable here)
        self.open.clear();
        self.stopped = true;
    }

    // -----------------------------------------------------------------------------------------
    // generic text element parsing algorithms

    fn generic_rcdata_element_parsing_algorithm(&mut self, tag: &Tag) {
        self.insert_an_html_element(tag);
        self.answer = Answer::Rcdata;
        self.original_mode = self.mode;
        self.mode = Mode::Text;
    }

    fn generic_raw_text_element_parsing_algorithm(&mut self, tag: &Tag) {
        self.insert_an_html_element(tag);
        self.answer = Answer::Rawtext;
        self.original_mode = self.mode;
        self.mode = Mode::Text;
    }

    // -----------------------------------------------------------------------------------------
    // §13.2.6.4.1 The "initial" insertion mode

    fn initial(&mut self, tok: &Tok) {
        match tok {
            Tok::Char(c) if is_ws(*c) => {},
            Tok::Comment(d) => self.insert_a_comment_as_last_child_of(DOC, d),
            Tok::Doctype { name, public_id, system_id, force_quirks } => {
                let dt = self.new_node(Kind::Doctype {
                    name: name.clone().unwrap_or_default(),
                    public_id: public_id.clone().unwrap_or_default(),
                    system_id: system_id.clone().unwrap_or_default(),
                });
                self.append(DOC, dt);
                if self.iframe_srcdoc {
                    if self.dev.srcdoc_not_exempt_from_force_quirks_and_name && (*force_quirks || name.as_deref() != Some("html")) {
                        self.quirks = RefQuirks::Quirks;
                    }
                    self.count("doctype:srcdoc-exempt");
                } else {
                    let lacks = self.dev.quirks_table_lacks_silmaril;
                    if doctype_is_quirks(name.as_deref(), public_id.as_deref(), system_id.as_deref(), *force_quirks, lacks) {
                        self.quirks = RefQuirks::Quirks;
                        self.count("doctype:quirks");
                    } else if doctype_is_limited_quirks(public_id.as_deref(), system_id.as_deref()) {
                        self.quirks = RefQuirks::LimitedQuirks;
                        self.count("doctype:limited-quirks");
                    } else {
                        self.count("doctype:no-quirks");
                    }
                }
                self.mode = Mode::BeforeHtml;
            },
            _ => {
                // "If the document is not an iframe srcdoc document, then this is a parse error;
                // if the parser cannot change the mode flag is false, set the Document to quirks
                // mode."
                if !self.iframe_srcdoc {
                    self.quirks = RefQuirks::Quirks;
                    self.count("doctype:missing->quirks");
                } else {
                    self.count("doctype:missing-srcdoc");
                }
                self.mode = Mode::BeforeHtml;
                self.reprocess(tok);
            },
        }
    }

    // -----------------------------------------------------------------------------------------
    // §13.2.6.4.2 The "before html" insertion mode

    fn before_html(&mut self, tok: &Tok) {
        match tok {
            Tok::Doctype { .. } => {},
            Tok::Comment(d) => self.insert_a_comment_as_last_child_of(DOC, d),
            Tok::Char(c) if is_ws(*c) => {},
            Tok::Start(t) if t.name == "html" => {
                let mut t2 = t.clone();
                if self.dev.root_html_loses_dup_flag {
                    t2.dup = false;
                }
                let el = self.create_element_for(&t2, Ns::Html);
                self.append(DOC, el);
                self.open.push(el);
                self.mode = Mode::BeforeHead;
            },
            Tok::End(t) if !matches!(t.name.as_str(), "head" | "body" | "html" | "br") => {},
            _ => {
                let el = self.create_element_for(&Tag::named("html"), Ns::Html);
                self.append(DOC, el);
                self.open.push(el);
                self.mode = Mode::BeforeHead;
                self.reprocess(tok);
            },
        }
    }

    // -----------------------------------------------------------------------------------------
    // §13.2.6.4.3 The "before head" insertion mode

    fn before_head(&mut self, tok: &Tok) {
        match tok {
            Tok::Char(c) if is_ws(*c) => {},
            Tok::Comment(d) => self.insert_a_comment(d),
            Tok::Doctype { .. } => {},
            Tok::Start(t) if t.name == "html" => self.in_body(tok),
            Tok::Start(t) if t.name == "head" => {
                let el = self.insert_an_html_element(t);
                self.head = Some(el);
                self.mode = Mode::InHead;
            },
            Tok::End(t) if !matches!(t.name.as_str(), "head" | "body" | "html" | "br") => {},
            _ => {
                let el = self.insert_an_html_element(&Tag::named("head"));
                self.head = Some(el);
                self.mode = Mode::InHead;
                self.reprocess(tok);
            },
        }
    }

    // -----------------------------------------------------------------------------------------
    // §13.2.6.4.4 The "in head" insertion mode

    fn in_head(&mut self, tok: &Tok) {
        match tok {
            Tok::Char(c) if is_ws(*c) => self.insert_a_character(*c),
            Tok::Comment(d) => self.insert_a_comment(d),
            Tok::Doctype { .. } => {},
            Tok::Start(t) => match t.name.as_str() {
                "html" => self.in_body(tok),
                "base" | "basefont" | "bgsound" | "link" | "meta" => {
                    self.insert_an_html_element(t);
                    self.pop();
                    // acknowledge self-closing; (meta: encoding change is not modelled)
                },
                "title" => self.generic_rcdata_element_parsing_algorithm(t),
                "noscript" if self.scripting => self.generic_raw_text_element_parsing_algorithm(t),
                "noframes" | "style" => self.generic_raw_text_element_parsing_algorithm(t),
                "noscript" => {
                    self.insert_an_html_element(t);
                    self.mode = Mode::InHeadNoscript;
                },
                "script" => {
                    // steps 1-7: create at the adjusted insertion location, push
                    self.insert_an_html_element(t);
                    self.answer = Answer::ScriptData;
                    self.original_mode = self.mode;
                    self.mode = Mode::Text;
                },
                "template" => {
                    // allow declarative shadow roots is false here: the plain branch
                    self.insert_a_marker();
                    self.frameset_ok = false;
                    self.mode = Mode::InTemplate;
                    self.template_modes.push(Mode::InTemplate);
                    self.count("template-mode-push:template-start");
                    self.insert_an_html_element(t);
                },
                "head" => {},
                _ => self.in_head_anything_else(tok),
            },
            Tok::End(t) => match t.name.as_str() {
                "head" => {
                    self.pop();
                    self.mode = Mode::AfterHead;
                },
                "body" | "html" | "br" => self.in_head_anything_else(tok),
                "template" => {
                    if !self.stack_has_html("template") {
                        return;
                    }
                    self.generate_all_implied_end_tags_thoroughly();
                    self.pop_until_popped(&["template"]);
                    self.clear_the_list_of_active_formatting_elements_up_to_the_last_marker();
                    self.template_modes.pop();
                    self.reset_the_insertion_mode_appropriately();
                },
                _ => {},
            },
            _ => self.in_head_anything_else(tok),
        }
    }

    fn in_head_anything_else(&mut self, tok: &Tok) {
        self.pop();
        self.mode = Mode::AfterHead;
        self.reprocess(tok);
    }

    // -----------------------------------------------------------------------------------------
    // §13.2.6.4.5 The "in head noscript" insertion mode

    fn in_head_noscript(&mut self, tok: &Tok) {
        match tok {
            Tok::Doctype { .. } => {},
            Tok::Start(t) if t.name == "html" => self.in_body(tok),
            Tok::End(t) if t.name == "noscript" => {
                self.pop();
                self.mode = Mode::InHead;
            },
            Tok::Char(c) if is_ws(*c) => self.in_head(tok),
            Tok::Comment(_) => self.in_head(tok),
            Tok::Start(t) if matches!(t.name.as_str(), "basefont" | "bgsound" | "link" | "meta" | "noframes" | "style") => self.in_head(tok),
            Tok::End(t) if t.name != "br" => {},
            Tok::Start(t) if matches!(t.name.as_str(), "head" | "noscript") => {},
            _ => {
                self.pop();
                self.mode = Mode::InHead;
                self.reprocess(tok);
            },
        }
    }

    // -----------------------------------------------------------------------------------------
    // §13.2.6.4.6 The "after head" insertion mode

    fn after_head(&mut self, tok: &Tok) {
        match tok {
            Tok::Char(c) if is_ws(*c) => self.insert_a_character(*c),
            Tok::Comment(d) => self.insert_a_comment(d),
            Tok::Doctype { .. } => {},
            Tok::Start(t) => match t.name.as_str() {
                "html" => self.in_body(tok),
                "body" => {
                    self.insert_an_html_element(t);
                    self.frameset_ok = false;
                    self.mode = Mode::InBody;
                },
                "frameset" => {
                    self.insert_an_html_element(t);
                    self.mode = Mode::InFrameset;
                },
                "base" | "basefont" | "bgsound" | "link" | "meta" | "noframes" | "script" | "style" | "template" | "title" => {
                    let head = self.head.expect("after head without head element pointer");
                    self.open.push(head);
                    self.in_head(tok);
                    // "Remove the node pointed to by the head element pointer from the stack of
                    // open elements. (It might not be the current node at this point.)"
                    self.remove_from_stack(head);
                    self.count("after-head:head-reentered");
                },
                "head" => {},
                _ => self.after_head_anything_else(tok),
            },
            Tok::End(t) => match t.name.as_str() {
                "template" => self.in_head(tok),
                "body" | "html" | "br" => self.after_head_anything_else(tok),
                _ => {},
            },
            _ => self.after_head_anything_else(tok),
        }
    }

    fn after_head_anything_else(&mut self, tok: &Tok) {
        self.insert_an_html_element(&Tag::named("body"));
        self.mode = Mode::InBody;
        self.reprocess(tok);
    }

    // -----------------------------------------------------------------------------------------
    // §13.2.6.4.8 The "text" insertion mode

    fn text(&mut self, tok: &Tok) {
        match tok {
            Tok::Char(c) => self.insert_a_character(*c),
            Tok::Eof => {
                // (script: set "already started"; not observable in the tree)
                self.pop();
                self.mode = self.original_mode;
                self.reprocess(tok);
            },
            Tok::End(_) => {
                // </script>: scripts never run; every end tag: pop and return to the original mode
                self.pop();
                self.mode = self.original_mode;
            },
            _ => {},
        }
    }

    // -----------------------------------------------------------------------------------------
    // §13.2.6.4.7 The "in body" insertion mode

    fn close_a_p_element(&mut self) {
        self.generate_implied_end_tags(Some("p"));
        self.pop_until_popped(&["p"]);
    }

    fn close_p_if_in_button_scope(&mut self) {
        if self.has_in_scope(Scope::Button, "p") {
            self.close_a_p_element();
        }
    }

    fn in_body(&mut self, tok: &Tok) {
        match tok {
            Tok::Char('\0') => {},
            Tok::Char(c) if is_ws(*c) => {
                self.reconstruct_the_active_formatting_elements();
                self.insert_a_character(*c);
            },
            Tok::Char(c) => {
                self.reconstruct_the_active_formatting_elements();
                self.insert_a_character(*c);
                self.frameset_ok = false;
            },
            Tok::Comment(d) => self.insert_a_comment(d),
            Tok::Doctype { .. } => {},
            Tok::Start(t) => self.in_body_start_tag(tok, t),
            Tok::End(t) => self.in_body_end_tag(tok, t),
            Tok::Eof => {
                if !self.template_modes.is_empty() {
                    self.process_using_rules_for(Mode::InTemplate, tok);
                } else {
                    self.stop_parsing();
                }
            },
        }
    }

    fn in_body_start_tag(&mut self, tok: &Tok, t: &Tag) {
        match t.name.as_str() {
            "html" => {
                if self.stack_has_html("template") {
                    return;
                }
                let top = self.open[0];
                self.add_missing_attributes(top, t);
            },
            "base" | "basefont" | "bgsound" | "link" | "meta" | "noframes" | "script" | "style" | "template" | "title" => {
                self.process_using_rules_for(Mode::InHead, tok)
            },
            "body" => {
                if self.open.len() == 1 || !self.is_html(self.open[1], "body") || self.stack_has_html("template") {
                    return;
                }
                self.frameset_ok = false;
                let body = self.open[1];
                self.add_missing_attributes(body, t);
            },
            "frameset" => {
                if self.open.len() == 1 || !self.is_html(self.open[1], "body") {
                    return;
                }
                if !self.frameset_ok {
                    return;
                }
                let body = self.open[1];
                self.detach(body);
                self.open.truncate(1);
                self.insert_an_html_element(t);
                self.mode = Mode::InFrameset;
                self.count("frameset-replaces-body");
            },
            "address" | "article" | "aside" | "blockquote" | "center" | "details" | "dialog" | "dir" | "div" | "dl" | "fieldset"
            | "figcaption" | "figure" | "footer" | "header" | "hgroup" | "main" | "menu" | "nav" | "ol" | "p" | "search" | "section"
            | "summary" | "ul" => {
                self.close_p_if_in_button_scope();
                self.insert_an_html_element(t);
            },
            "h1" | "h2" | "h3" | "h4" | "h5" | "h6" => {
                self.close_p_if_in_button_scope();
                if self.is_html_in(self.current_node(), &["h1", "h2", "h3", "h4", "h5", "h6"]) {
                    self.pop();
                }
                self.insert_an_html_element(t);
            },
            "pre" | "listing" => {
                self.close_p_if_in_button_scope();
                self.insert_an_html_element(t);
                self.ignore_lf = true;
                self.frameset_ok = false;
            },
            "form" => {
                let has_template = self.stack_has_html("template");
                if self.form.is_some() && !has_template {
                    return;
                }
                self.close_p_if_in_button_scope();
                let el = self.insert_an_html_element(t);
                if !has_template {
                    self.form = Some(el);
                }
            },
            "li" => self.in_body_list_item(t, &["li"]),
            "dd" | "dt" => self.in_body_list_item(t, &["dd", "dt"]),
            "plaintext" => {
                self.close_p_if_in_button_scope();
                self.insert_an_html_element(t);
                self.answer = Answer::Plaintext;
            },
            "button" => {
                if self.has_in_scope(Scope::Default, "button") {
                    self.generate_implied_end_tags(None);
                    self.pop_until_popped(&["button"]);
                }
                self.reconstruct_the_active_formatting_elements();
                self.insert_an_html_element(t);
                self.frameset_ok = false;
            },
            "a" => {
                let mut found = None;
                for e in self.afe.iter().rev() {
                    match e {
                        Afe::Marker => break,
                        Afe::Elem(id, _) if self.is_html(*id, "a") => {
                            found = Some(*id);
                            break;
                        },
                        _ => {},
                    }
                }
                if let Some(a) = found {
                    self.count("a-inside-a");
                    self.adoption_agency_algorithm(tok, t);
                    self.remove_from_afe(a);
                    self.remove_from_stack(a);
                }
                self.reconstruct_the_active_formatting_elements();
                let el = self.insert_an_html_element(t);
                self.push_onto_the_list_of_active_formatting_elements(el, t);
            },
            "b" | "big" | "code" | "em" | "font" | "i" | "s" | "small" | "strike" | "strong" | "tt" | "u" => {
                self.reconstruct_the_active_formatting_elements();
                let el = self.insert_an_html_element(t);
                self.push_onto_the_list_of_active_formatting_elements(el, t);
            },
            "nobr" => {
                self.reconstruct_the_active_formatting_elements();
                if self.has_in_scope(Scope::Default, "nobr") {
                    self.count("nobr-inside-nobr");
                    self.adoption_agency_algorithm(tok, t);
                    self.reconstruct_the_active_formatting_elements();
                }
                let el = self.insert_an_html_element(t);
                self.push_onto_the_list_of_active_formatting_elements(el, t);
            },
            "applet" | "marquee" | "object" => {
                self.reconstruct_the_active_formatting_elements();
                self.insert_an_html_element(t);
                self.insert_a_marker();
                self.frameset_ok = false;
            },
            "table" => {
                if self.quirks != RefQuirks::Quirks {
                    self.close_p_if_in_button_scope();
                }
                self.insert_an_html_element(t);
                self.frameset_ok = false;
                self.mode = Mode::InTable;
            },
            "area" | "br" | "embed" | "img" | "keygen" | "wbr" => {
                self.reconstruct_the_active_formatting_elements();
                self.insert_an_html_element(t);
                self.pop();
                self.frameset_ok = false;
            },
            "input" => {
                // SPEC-UNSURE (customizable select): the two select-related clauses below.
                if self.context_is_html("select") {
                    return;
                }
                if self.has_in_scope(Scope::Default, "select") {
                    self.pop_until_popped(&["select"]);
                }
                self.reconstruct_the_active_formatting_elements();
                self.insert_an_html_element(t);
                self.pop();
                if !t.attr("type").map_or(false, |v| v.eq_ignore_ascii_case("hidden")) {
                    self.frameset_ok = false;
                }
            },
            "param" | "source" | "track" => {
                self.insert_an_html_element(t);
                self.pop();
            },
            "hr" => {
                self.close_p_if_in_button_scope();
                // SPEC-UNSURE (customizable select): "If the stack of open elements has a select
                // element in scope: generate implied end tags" (so that hr closes option/optgroup)
                if self.has_in_scope(Scope::Default, "select") {
                    self.generate_implied_end_tags(None);
                }
                self.insert_an_html_element(t);
                self.pop();
                self.frameset_ok = false;
            },
            "image" => {
                let mut t2 = t.clone();
                t2.name = "img".to_string();
                self.reprocess(&Tok::Start(t2));
            },
            "textarea" => {
                self.insert_an_html_element(t);
                self.ignore_lf = true;
                self.answer = Answer::Rcdata;
                self.original_mode = self.mode;
                self.frameset_ok = false;
                self.mode = Mode::Text;
            },
            "xmp" => {
                self.close_p_if_in_button_scope();
                self.reconstruct_the_active_formatting_elements();
                self.frameset_ok = false;
                self.generic_raw_text_element_parsing_algorithm(t);
            },
            "iframe" => {
                self.frameset_ok = false;
                self.generic_raw_text_element_parsing_algorithm(t);
            },
            "noembed" => self.generic_raw_text_element_parsing_algorithm(t),
            "noscript" if self.scripting => self.generic_raw_text_element_parsing_algorithm(t),
            "select" => {
                // SPEC-UNSURE (customizable select): all three clauses.
                if self.context_is_html("select") {
                    return;
                }
                if self.has_in_scope(Scope::Default, "select") {
                    self.pop_until_popped(&["select"]);
                    return;
                }
                self.reconstruct_the_active_formatting_elements();
                self.insert_an_html_element(t);
                self.frameset_ok = false;
            },
            "option" => {
                // SPEC-UNSURE (customizable select): the select-in-scope branch.
                if self.has_in_scope(Scope::Default, "select") {
                    self.generate_implied_end_tags(Some("optgroup"));
                } else if self.is_html(self.current_node(), "option") {
                    self.pop();
                }
                self.reconstruct_the_active_formatting_elements();
                self.insert_an_html_element(t);
            },
            "optgroup" => {
                // SPEC-UNSURE (customizable select): the select-in-scope branch.
                if self.has_in_scope(Scope::Default, "select") {
                    self.generate_implied_end_tags(None);
                } else if self.is_html(self.current_node(), "option") {
                    self.pop();
                }
                self.reconstruct_the_active_formatting_elements();
                self.insert_an_html_element(t);
            },
            "rb" | "rtc" => {
                if self.has_in_scope(Scope::Default, "ruby") {
                    self.generate_implied_end_tags(None);
                }
                self.insert_an_html_element(t);
            },
            "rp" | "rt" => {
                if self.has_in_scope(Scope::Default, "ruby") {
                    self.generate_implied_end_tags(Some("rtc"));
                }
                self.insert_an_html_element(t);
            },
            "math" => {
                self.reconstruct_the_active_formatting_elements();
                let attrs = adjust_foreign_attributes(adjust_mathml_attributes(&t.attrs));
                self.insert_a_foreign_element(t, Ns::MathMl, attrs);
                if t.self_closing {
                    self.pop();
                }
            },
            "svg" => {
                self.reconstruct_the_active_formatting_elements();
                let attrs = adjust_foreign_attributes(adjust_svg_attributes(&t.attrs));
                self.insert_a_foreign_element(t, Ns::Svg, attrs);
                if t.self_closing {
                    self.pop();
                }
            },
            "caption" | "col" | "colgroup" | "frame" | "head" | "tbody" | "td" | "tfoot" | "th" | "thead" | "tr" => {},
            _ => {
                self.reconstruct_the_active_formatting_elements();
                self.insert_an_html_element(t);
            },
        }
    }

    fn context_is_html(&self, name: &str) -> bool {
        self.context.map_or(false, |c| self.is_html(c, name))
    }

    /// start tags "li" and "dd"/"dt"
    fn in_body_list_item(&mut self, t: &Tag, closes: &[&str]) {
        self.frameset_ok = false;
        let mut i = self.open.len();
        while i > 0 {
            i -= 1;
            let node = self.open[i];
            if self.is_html_in(node, closes) {
                let name = self.el(node).local.clone();
                self.generate_implied_end_tags(Some(&name));
                self.pop_until_popped(&[name.as_str()]);
                break;
            }
            if self.is_special(node) && !self.is_html_in(node, &["address", "div", "p"]) {
                break;
            }
        }
        self.close_p_if_in_button_scope();
        self.insert_an_html_element(t);
    }

    fn in_body_end_tag(&mut self, tok: &Tok, t: &Tag) {
        let name = t.name.as_str();
        match name {
            "template" => self.process_using_rules_for(Mode::InHead, tok),
            "body" => {
                if !self.has_in_scope(Scope::Default, "body") {
                    return;
                }
                self.mode = Mode::AfterBody;
            },
            "html" => {
                if !self.has_in_scope(Scope::Default, "body") {
                    return;
                }
                self.mode = Mode::AfterBody;
                self.reprocess(tok);
            },
            // SPEC-UNSURE (customizable select): "select" in this list.
            "address" | "article" | "aside" | "blockquote" | "button" | "center" | "details" | "dialog" | "dir" | "div" | "dl"
            | "fieldset" | "figcaption" | "figure" | "footer" | "header" | "hgroup" | "listing" | "main" | "menu" | "nav" | "ol"
            | "pre" | "search" | "section" | "select" | "summary" | "ul" => {
                if !self.has_in_scope(Scope::Default, name) {
                    return;
                }
                self.generate_implied_end_tags(None);
                self.pop_until_popped(&[name]);
            },
            "form" => {
                if !self.stack_has_html("template") {
                    let node = self.form.take();
                    let Some(node) = node else { return };
                    if !self.node_in_scope(Scope::Default, node) {
                        return;
                    }
                    self.generate_implied_end_tags(None);
                    self.remove_from_stack(node);
                } else {
                    if !self.has_in_scope(Scope::Default, "form") {
                        return;
                    }
                    self.generate_implied_end_tags(None);
                    self.pop_until_popped(&["form"]);
                }
            },
            "p" => {
                if !self.has_in_scope(Scope::Button, "p") {
                    self.insert_an_html_element(&Tag::named("p"));
                    self.count("end-p-without-p");
                }
                self.close_a_p_element();
            },
            "li" => {
                if !self.has_in_scope(Scope::ListItem, "li") {
                    return;
                }
                self.generate_implied_end_tags(Some("li"));
                self.pop_until_popped(&["li"]);
            },
            "dd" | "dt" => {
                if !self.has_in_scope(Scope::Default, name) {
                    return;
                }
                self.generate_implied_end_tags(Some(name));
                self.pop_until_popped(&[name]);
            },
            "h1" | "h2" | "h3" | "h4" | "h5" | "h6" => {
                const H: &[&str] = &["h1", "h2", "h3", "h4", "h5", "h6"];
                if !self.has_any_in_scope(Scope::Default, H) {
                    return;
                }
                self.generate_implied_end_tags(None);
                self.pop_until_popped(H);
            },
            "a" | "b" | "big" | "code" | "em" | "font" | "i" | "nobr" | "s" | "small" | "strike" | "strong" | "tt" | "u" => {
                self.adoption_agency_algorithm(tok, t);
            },
            "applet" | "marquee" | "object" => {
                if !self.has_in_scope(Scope::Default, name) {
                    return;
                }
                self.generate_implied_end_tags(None);
                self.pop_until_popped(&[name]);
                self.clear_the_list_of_active_formatting_elements_up_to_the_last_marker();
            },
            "br" => {
                // "Parse error. Drop the attributes from the token, and act as described in the
                // next entry; i.e. act as if this was a "br" start tag token with no attributes"
                // (The duplicate-attribute flag is not an attribute; it stays with the token. This is
                // a choice of the model: the HTML Standard has no such flag, CSP speaks of "the
                // element had a duplicate-attribute parse error during tokenization".)
                self.count("end-br");
                let mut br = Tag::named("br");
                br.dup = t.dup;
                self.in_body_start_tag(&Tok::Start(br.clone()), &br);
            },
            _ => self.in_body_any_other_end_tag(t),
        }
    }

    fn in_body_any_other_end_tag(&mut self, t: &Tag) {
        let mut i = self.open.len();
        while i > 0 {
            i -= 1;
            let node = self.open[i];
            if self.is_html(node, &t.name) {
                self.generate_implied_end_tags(Some(&t.name));
                // "Pop all the nodes from the current node up to node, including node"
                if let Some(pos) = self.open.iter().rposition(|&n| n == node) {
                    self.open.truncate(pos);
                }
                return;
            }
            if self.is_special(node) {
                return;
            }
        }
    }

    // -----------------------------------------------------------------------------------------
    // the adoption agency algorithm

    fn adoption_agency_algorithm(&mut self, tok: &Tok, t: &Tag) {
        let subject = t.name.as_str();
        // 2
        let cur = self.current_node();
        if self.is_html(cur, subject) && self.afe_position(cur).is_none() {
            self.pop();
            self.count("adoption-agency:current-node-shortcut");
            return;
        }
        let mut outer = 0u32;
        loop {
            // 4.1, 4.2
            if outer >= 8 {
                self.count("adoption-agency:end=outer-limit-8");
                return;
            }
            outer += 1;
            // 4.3
            let mut fe_pos = None;
            for (i, e) in self.afe.iter().enumerate().rev() {
                match e {
                    Afe::Marker => break,
                    Afe::Elem(id, _) if self.is_html(*id, subject) => {
                        fe_pos = Some(i);
                        break;
                    },
                    _ => {},
                }
            }
            let Some(fe_pos) = fe_pos else {
                self.count(&format!("adoption-agency:end=no-formatting-element,outer={outer}"));
                // "act as described in the "any other end tag" entry above"
                let _ = tok;
                self.in_body_any_other_end_tag(t);
                return;
            };
            let (fe, fe_tag) = match &self.afe[fe_pos] {
                Afe::Elem(id, tag) => (*id, tag.clone()),
                Afe::Marker => unreachable!(),
            };
            // 4.4
            let Some(fe_stack) = self.open.iter().rposition(|&n| n == fe) else {
                self.afe.remove(fe_pos);
                self.count(&format!("adoption-agency:end=not-in-stack,outer={outer}"));
                return;
            };
            // 4.5
            if !self.node_in_scope(Scope::Default, fe) {
                self.count(&format!("adoption-agency:end=not-in-scope,outer={outer}"));
                return;
            }
            // 4.7 furthest block: the topmost node in the stack that is lower than the
            // formatting element and is in the special category
            let fb_stack = (fe_stack + 1..self.open.len()).find(|&i| self.is_special(self.open[i]));
            // 4.8
            let Some(fb_stack) = fb_stack else {
                self.open.truncate(fe_stack);
                self.afe.remove(fe_pos);
                self.count(&format!("adoption-agency:end=no-furthest-block,outer={outer}"));
                return;
            };
            let furthest_block = self.open[fb_stack];
            // 4.9
            let common_ancestor = self.open[fe_stack - 1];
            // 4.10 the bookmark is kept as an index into the list of active formatting elements
            // at which the replacement is to be inserted once the formatting element is removed
            let mut bookmark = fe_pos;
            // 4.11
            let mut node_stack = fb_stack;
            let mut last_node = furthest_block;
            // 4.12, 4.13
            let mut inner = 0u32;
            loop {
                inner += 1;
                // 4.13.2 "Let node be the element immediately above node in the stack of open
                // elements, or if node is no longer in the stack ..., the element that was
                // immediately above node ... before node was removed."
                node_stack -= 1;
                let mut node = self.open[node_stack];
                // 4.13.3
                if node == fe {
                    break;
                }
                // 4.13.4
                let mut node_afe = self.afe_position(node);
                if inner > 3 {
                    if let Some(p) = node_afe {
                        self.afe.remove(p);
                        if p < bookmark {
                            bookmark -= 1;
                        }
                        node_afe = None;
                    }
                }
                // 4.13.5
                let Some(node_afe) = node_afe else {
                    self.open.remove(node_stack);
                    continue;
                };
                // 4.13.6
                let node_tag = match &self.afe[node_afe] {
                    Afe::Elem(_, tag) => tag.clone(),
                    Afe::Marker => unreachable!(),
                };
                let new = self.create_element_for(&node_tag, Ns::Html);
                self.afe[node_afe] = Afe::Elem(new, node_tag);
                self.open[node_stack] = new;
                node = new;
                // 4.13.7
                if last_node == furthest_block {
                    bookmark = node_afe + 1;
                }
                // 4.13.8
                self.append(node, last_node);
                // 4.13.9
                last_node = node;
            }
            // 4.14
            let place = self.appropriate_place_for_inserting_a_node(Some(common_ancestor));
            self.insert_at(place, last_node);
            // 4.15
            let new = self.create_element_for(&fe_tag, Ns::Html);
            // 4.16
            let kids = std::mem::take(&mut self.nodes[furthest_block].children);
            for &k in &kids {
                self.nodes[k].parent = Some(new);
            }
            self.nodes[new].children = kids;
            // 4.17
            self.append(furthest_block, new);
            // 4.18
            let cur_fe_pos = self.afe_position(fe).expect("formatting element left the list");
            self.afe.remove(cur_fe_pos);
            if cur_fe_pos < bookmark {
                bookmark -= 1;
            }
            let bookmark = bookmark.min(self.afe.len());
            self.afe.insert(bookmark, Afe::Elem(new, fe_tag));
            // 4.19
            self.remove_from_stack(fe);
            let fb_now = self.open.iter().rposition(|&n| n == furthest_block).expect("furthest block left the stack");
            self.open.insert(fb_now + 1, new);
            if outer >= 2 {
                self.count(&format!("adoption-agency:outer-iterations>={}", outer.min(8)));
            }
            self.count(&format!("adoption-agency:full-run,inner={}", if inner >= 5 { "5+".to_string() } else { inner.to_string() }));
        }
    }

    // -----------------------------------------------------------------------------------------
    // §13.2.6.4.9 The "in table" insertion mode

    fn clear_the_stack_back_to(&mut self, names: &[&str]) {
        while let Some(&cur) = self.open.last() {
            if self.is_html_in(cur, names) {
                break;
            }
            self.open.pop();
        }
    }

    fn clear_the_stack_back_to_a_table_context(&mut self) {
        self.clear_the_stack_back_to(&["table", "template", "html"]);
    }

    fn clear_the_stack_back_to_a_table_body_context(&mut self) {
        self.clear_the_stack_back_to(&["tbody", "tfoot", "thead", "template", "html"]);
    }

    fn clear_the_stack_back_to_a_table_row_context(&mut self) {
        self.clear_the_stack_back_to(&["tr", "template", "html"]);
    }

    fn in_table(&mut self, tok: &Tok) {
        match tok {
            Tok::Char(_) if self.in_table_text_applies() => {
                self.pending_table_text.clear();
                self.original_mode = self.mode;
                self.mode = Mode::InTableText;
                self.reprocess(tok);
            },
            Tok::Comment(d) => self.insert_a_comment(d),
            Tok::Doctype { .. } => {},
            Tok::Start(t) => match t.name.as_str() {
                "caption" => {
                    self.clear_the_stack_back_to_a_table_context();
                    self.insert_a_marker();
                    self.insert_an_html_element(t);
                    self.mode = Mode::InCaption;
                },
                "colgroup" => {
                    self.clear_the_stack_back_to_a_table_context();
                    self.insert_an_html_element(t);
                    self.mode = Mode::InColumnGroup;
                },
                "col" => {
                    self.clear_the_stack_back_to_a_table_context();
                    self.insert_an_html_element(&Tag::named("colgroup"));
                    self.mode = Mode::InColumnGroup;
                    self.reprocess(tok);
                },
                "tbody" | "tfoot" | "thead" => {
                    self.clear_the_stack_back_to_a_table_context();
                    self.insert_an_html_element(t);
                    self.mode = Mode::InTableBody;
                },
                "td" | "th" | "tr" => {
                    self.clear_the_stack_back_to_a_table_context();
                    self.insert_an_html_element(&Tag::named("tbody"));
                    self.mode = Mode::InTableBody;
                    self.reprocess(tok);
                },
                "table" => {
                    if !self.has_in_scope(Scope::Table, "table") {
                        return;
                    }
                    self.pop_until_popped(&["table"]);
                    self.reset_the_insertion_mode_appropriately();
                    self.reprocess(tok);
                },
                "style" | "script" | "template" => self.process_using_rules_for(Mode::InHead, tok),
                "input" => {
                    if !t.attr("type").map_or(false, |v| v.eq_ignore_ascii_case("hidden")) {
                        self.in_table_anything_else(tok);
                        return;
                    }
                    self.insert_an_html_element(t);
                    self.pop();
                    self.count("in-table:input-hidden");
                },
                "form" => {
                    if self.stack_has_html("template") || self.form.is_some() {
                        return;
                    }
                    let el = self.insert_an_html_element(t);
                    self.form = Some(el);
                    self.pop();
                    self.count("in-table:form");
                },
                _ => self.in_table_anything_else(tok),
            },
            Tok::End(t) => match t.name.as_str() {
                "table" => {
                    if !self.has_in_scope(Scope::Table, "table") {
                        return;
                    }
                    self.pop_until_popped(&["table"]);
                    self.reset_the_insertion_mode_appropriately();
                },
                "body" | "caption" | "col" | "colgroup" | "html" | "tbody" | "td" | "tfoot" | "th" | "thead" | "tr" => {},
                "template" => self.process_using_rules_for(Mode::InHead, tok),
                _ => self.in_table_anything_else(tok),
            },
            Tok::Eof => self.process_using_rules_for(Mode::InBody, tok),
            Tok::Char(_) => self.in_table_anything_else(tok),
        }
    }

    fn in_table_text_applies(&self) -> bool {
        let cur = self.current_node();
        if self.dev.table_text_not_for_template {
            self.is_html_in(cur, &["table", "tbody", "tfoot", "thead", "tr"])
        } else {
            self.is_html_in(cur, &["table", "tbody", "template", "tfoot", "thead", "tr"])
        }
    }

    /// "Parse error. Enable foster parenting, process the token using the rules for the "in
    /// body" insertion mode, and then disable foster parenting."
    fn in_table_anything_else(&mut self, tok: &Tok) {
        self.foster_parenting = true;
        self.process_using_rules_for(Mode::InBody, tok);
        self.foster_parenting = false;
    }

    // -----------------------------------------------------------------------------------------
    // §13.2.6.4.10 The "in table text" insertion mode

    fn in_table_text(&mut self, tok: &Tok) {
        match tok {
            Tok::Char('\0') => {},
            Tok::Char(c) => self.pending_table_text.push(*c),
            Tok::Doctype { .. } if self.dev.doctype_does_not_flush_table_text => {},
            _ => {
                let pending = std::mem::take(&mut self.pending_table_text);
                if pending.iter().any(|c| !is_ws(*c)) {
                    self.count("in-table-text:flush-non-whitespace");
                    for c in pending {
                        self.in_table_anything_else(&Tok::Char(c));
                    }
                } else {
                    if !pending.is_empty() {
                        self.count("in-table-text:flush-whitespace");
                    }
                    for c in pending {
                        self.insert_a_character(c);
                    }
                }
                self.mode = self.original_mode;
                self.reprocess(tok);
            },
        }
    }

    // -----------------------------------------------------------------------------------------
    // §13.2.6.4.11 The "in caption" insertion mode

    fn in_caption(&mut self, tok: &Tok) {
        match tok {
            Tok::End(t) if t.name == "caption" => {
                self.close_the_caption();
            },
            Tok::Start(t) if matches!(t.name.as_str(), "caption" | "col" | "colgroup" | "tbody" | "td" | "tfoot" | "th" | "thead" | "tr") => {
                if self.close_the_caption() {
                    self.reprocess(tok);
                }
            },
            Tok::End(t) if t.name == "table" => {
                if self.close_the_caption() {
                    self.reprocess(tok);
                }
            },
            Tok::End(t) if matches!(t.name.as_str(), "body" | "col" | "colgroup" | "html" | "tbody" | "td" | "tfoot" | "th" | "thead" | "tr") => {},
            _ => self.process_using_rules_for(Mode::InBody, tok),
        }
    }

    /// Returns false if the token is to be ignored (no caption in table scope).
    fn close_the_caption(&mut self) -> bool {
        if !self.has_in_scope(Scope::Table, "caption") {
            return false;
        }
        self.generate_implied_end_tags(None);
        self.pop_until_popped(&["caption"]);
        self.clear_the_list_of_active_formatting_elements_up_to_the_last_marker();
        self.mode = Mode::InTable;
        true
    }

    // -----------------------------------------------------------------------------------------
    // §13.2.6.4.12 The "in column group" insertion mode

    fn in_column_group(&mut self, tok: &Tok) {
        match tok {
            Tok::Char(c) if is_ws(*c) => self.insert_a_character(*c),
            Tok::Comment(d) => self.insert_a_comment(d),
            Tok::Doctype { .. } => {},
            Tok::Start(t) if t.name == "html" => self.process_using_rules_for(Mode::InBody, tok),
            Tok::Start(t) if t.name == "col" => {
                self.insert_an_html_element(t);
                self.pop();
            },
            Tok::End(t) if t.name == "colgroup" => {
                if !self.is_html(self.current_node(), "colgroup") {
                    return;
                }
                self.pop();
                self.mode = Mode::InTable;
            },
            Tok::End(t) if t.name == "col" => {},
            Tok::Start(t) if t.name == "template" => self.process_using_rules_for(Mode::InHead, tok),
            Tok::End(t) if t.name == "template" => self.process_using_rules_for(Mode::InHead, tok),
            Tok::Eof => self.process_using_rules_for(Mode::InBody, tok),
            _ => {
                if !self.is_html(self.current_node(), "colgroup") {
                    return;
                }
                self.pop();
                self.mode = Mode::InTable;
                self.reprocess(tok);
            },
        }
    }

    // -----------------------------------------------------------------------------------------
    // §13.2.6.4.13 The "in table body" insertion mode

    fn in_table_body(&mut self, tok: &Tok) {
        match tok {
            Tok::Start(t) if t.name == "tr" => {
                self.clear_the_stack_back_to_a_table_body_context();
                self.insert_an_html_element(t);
                self.mode = Mode::InRow;
            },
            Tok::Start(t) if matches!(t.name.as_str(), "th" | "td") => {
                self.clear_the_stack_back_to_a_table_body_context();
                self.insert_an_html_element(&Tag::named("tr"));
                self.mode = Mode::InRow;
                self.reprocess(tok);
            },
            Tok::End(t) if matches!(t.name.as_str(), "tbody" | "tfoot" | "thead") => {
                if !self.has_in_scope(Scope::Table, &t.name) {
                    return;
                }
                self.clear_the_stack_back_to_a_table_body_context();
                self.pop();
                self.mode = Mode::InTable;
            },
            Tok::Start(Tag { name, .. }) if matches!(name.as_str(), "caption" | "col" | "colgroup" | "tbody" | "tfoot" | "thead") => {
                self.in_table_body_close_and_reprocess(tok);
            },
            Tok::End(t) if t.name == "table" => self.in_table_body_close_and_reprocess(tok),
            Tok::End(t) if matches!(t.name.as_str(), "body" | "caption" | "col" | "colgroup" | "html" | "td" | "th" | "tr") => {},
            _ => self.process_using_rules_for(Mode::InTable, tok),
        }
    }

    fn in_table_body_close_and_reprocess(&mut self, tok: &Tok) {
        let guard: &[&str] = if self.dev.table_body_guard_has_table_not_thead { &["table", "tbody", "tfoot"] } else { &["tbody", "thead", "tfoot"] };
        if !self.has_any_in_scope(Scope::Table, guard) {
            return;
        }
        self.clear_the_stack_back_to_a_table_body_context();
        self.pop();
        self.mode = Mode::InTable;
        self.reprocess(tok);
    }

    // -----------------------------------------------------------------------------------------
    // §13.2.6.4.14 The "in row" insertion mode

    fn in_row(&mut self, tok: &Tok) {
        match tok {
            Tok::Start(t) if matches!(t.name.as_str(), "th" | "td") => {
                self.clear_the_stack_back_to_a_table_row_context();
                self.insert_an_html_element(t);
                self.mode = Mode::InCell;
                self.insert_a_marker();
            },
            Tok::End(t) if t.name == "tr" => {
                self.in_row_close_the_row();
            },
            Tok::Start(Tag { name, .. }) if matches!(name.as_str(), "caption" | "col" | "colgroup" | "tbody" | "tfoot" | "thead" | "tr") => {
                if self.in_row_close_the_row() {
                    self.reprocess(tok);
                }
            },
            Tok::End(t) if t.name == "table" => {
                if self.in_row_close_the_row() {
                    self.reprocess(tok);
                }
            },
            Tok::End(t) if matches!(t.name.as_str(), "tbody" | "tfoot" | "thead") => {
                if !self.has_in_scope(Scope::Table, &t.name) {
                    return;
                }
                if self.in_row_close_the_row() {
                    self.reprocess(tok);
                }
            },
            Tok::End(t) if matches!(t.name.as_str(), "body" | "caption" | "col" | "colgroup" | "html" | "td" | "th") => {},
            _ => self.process_using_rules_for(Mode::InTable, tok),
        }
    }

    /// Returns false if there is no tr element in table scope (token ignored).
    fn in_row_close_the_row(&mut self) -> bool {
        if !self.has_in_scope(Scope::Table, "tr") {
            return false;
        }
        self.clear_the_stack_back_to_a_table_row_context();
        self.pop();
        self.mode = Mode::InTableBody;
        true
    }

    // -----------------------------------------------------------------------------------------
    // §13.2.6.4.15 The "in cell" insertion mode

    fn close_the_cell(&mut self) {
        self.generate_implied_end_tags(None);
        self.pop_until_popped(&["td", "th"]);
        self.clear_the_list_of_active_formatting_elements_up_to_the_last_marker();
        self.mode = Mode::InRow;
    }

    fn in_cell(&mut self, tok: &Tok) {
        match tok {
            Tok::End(t) if matches!(t.name.as_str(), "td" | "th") => {
                if !self.has_in_scope(Scope::Table, &t.name) {
                    return;
                }
                self.generate_implied_end_tags(None);
                self.pop_until_popped(&[t.name.as_str()]);
                self.clear_the_list_of_active_formatting_elements_up_to_the_last_marker();
                self.mode = Mode::InRow;
            },
            Tok::Start(Tag { name, .. }) if matches!(name.as_str(), "caption" | "col" | "colgroup" | "tbody" | "td" | "tfoot" | "th" | "thead" | "tr") => {
                // "Assert: The stack of open elements has a td or th element in table scope."
                if !self.has_any_in_scope(Scope::Table, &["td", "th"]) {
                    self.count("in-cell:assertion-failed");
                    return;
                }
                self.close_the_cell();
                self.reprocess(tok);
            },
            Tok::End(t) if matches!(t.name.as_str(), "body" | "caption" | "col" | "colgroup" | "html") => {},
            Tok::End(t) if matches!(t.name.as_str(), "table" | "tbody" | "tfoot" | "thead" | "tr") => {
                if !self.has_in_scope(Scope::Table, &t.name) {
                    return;
                }
                self.close_the_cell();
                self.reprocess(tok);
            },
            _ => self.process_using_rules_for(Mode::InBody, tok),
        }
    }

    // -----------------------------------------------------------------------------------------
    // §13.2.6.4.18 The "in template" insertion mode (the two "in select" modes no longer exist)

    fn in_template(&mut self, tok: &Tok) {
        match tok {
            Tok::Char(_) | Tok::Comment(_) | Tok::Doctype { .. } => self.process_using_rules_for(Mode::InBody, tok),
            Tok::Start(t) => {
                let next = match t.name.as_str() {
                    "base" | "basefont" | "bgsound" | "link" | "meta" | "noframes" | "script" | "style" | "template" | "title" => {
                        self.process_using_rules_for(Mode::InHead, tok);
                        return;
                    },
                    "caption" | "colgroup" | "tbody" | "tfoot" | "thead" => Mode::InTable,
                    "col" => Mode::InColumnGroup,
                    "tr" => Mode::InTableBody,
                    "td" | "th" => Mode::InRow,
                    _ => Mode::InBody,
                };
                self.template_modes.pop();
                self.template_modes.push(next);
                self.count(&format!("template-mode-push:{}", MODE_NAMES[next.idx()]));
                self.mode = next;
                self.reprocess(tok);
            },
            Tok::End(t) => {
                if t.name == "template" {
                    self.process_using_rules_for(Mode::InHead, tok);
                }
            },
            Tok::Eof => {
                if !self.stack_has_html("template") {
                    self.stop_parsing();
                    return;
                }
                self.count("in-template:eof-unwind");
                self.pop_until_popped(&["template"]);
                self.clear_the_list_of_active_formatting_elements_up_to_the_last_marker();
                self.template_modes.pop();
                self.reset_the_insertion_mode_appropriately();
                self.reprocess(tok);
            },
        }
    }

    // -----------------------------------------------------------------------------------------
    // §13.2.6.4.19 The "after body" insertion mode

    fn after_body(&mut self, tok: &Tok) {
        match tok {
            Tok::Char(c) if is_ws(*c) => self.process_using_rules_for(Mode::InBody, tok),
            Tok::Comment(d) => {
                let html = self.open[0];
                self.insert_a_comment_as_last_child_of(html, d);
            },
            Tok::Doctype { .. } => {},
            Tok::Start(t) if t.name == "html" => self.process_using_rules_for(Mode::InBody, tok),
            Tok::End(t) if t.name == "html" => {
                if self.context.is_some() {
                    return;
                }
                self.mode = Mode::AfterAfterBody;
            },
            Tok::Eof => self.stop_parsing(),
            _ => {
                self.mode = Mode::InBody;
                self.reprocess(tok);
            },
        }
    }

    // -----------------------------------------------------------------------------------------
    // §13.2.6.4.20 The "in frameset" insertion mode

    fn in_frameset(&mut self, tok: &Tok) {
        match tok {
            Tok::Char(c) if is_ws(*c) => self.insert_a_character(*c),
            Tok::Comment(d) => self.insert_a_comment(d),
            Tok::Doctype { .. } => {},
            Tok::Start(t) => match t.name.as_str() {
                "html" => self.process_using_rules_for(Mode::InBody, tok),
                "frameset" => {
                    self.insert_an_html_element(t);
                },
                "frame" => {
                    self.insert_an_html_element(t);
                    self.pop();
                },
                "noframes" => self.process_using_rules_for(Mode::InHead, tok),
                _ => {},
            },
            Tok::End(t) if t.name == "frameset" => {
                // "If the current node is the root html element, then this is a parse error;
                // ignore the token. (fragment case)"
                if self.open.len() == 1 && self.is_html(self.open[0], "html") {
                    return;
                }
                self.pop();
                if self.context.is_none() && !self.is_html(self.current_node(), "frameset") {
                    self.mode = Mode::AfterFrameset;
                }
            },
            Tok::Eof => self.stop_parsing(),
            _ => {},
        }
    }

    // -----------------------------------------------------------------------------------------
    // §13.2.6.4.21 The "after frameset" insertion mode

    fn after_frameset(&mut self, tok: &Tok) {
        match tok {
            Tok::Char(c) if is_ws(*c) => self.insert_a_character(*c),
            Tok::Comment(d) => self.insert_a_comment(d),
            Tok::Doctype { .. } => {},
            Tok::Start(t) if t.name == "html" => self.process_using_rules_for(Mode::InBody, tok),
            Tok::End(t) if t.name == "html" => self.mode = Mode::AfterAfterFrameset,
            Tok::Start(t) if t.name == "noframes" => self.process_using_rules_for(Mode::InHead, tok),
            Tok::Eof => self.stop_parsing(),
            _ => {},
        }
    }

    // -----------------------------------------------------------------------------------------
    // §13.2.6.4.22 The "after after body" insertion mode

    fn after_after_body(&mut self, tok: &Tok) {
        match tok {
            Tok::Comment(d) => self.insert_a_comment_as_last_child_of(DOC, d),
            Tok::Doctype { .. } => self.process_using_rules_for(Mode::InBody, tok),
            Tok::Char(c) if is_ws(*c) => self.process_using_rules_for(Mode::InBody, tok),
            Tok::Start(t) if t.name == "html" => self.process_using_rules_for(Mode::InBody, tok),
            Tok::Eof => self.stop_parsing(),
            _ => {
                self.mode = Mode::InBody;
                self.reprocess(tok);
            },
        }
    }

    // -----------------------------------------------------------------------------------------
    // §13.2.6.4.23 The "after after frameset" insertion mode

    fn after_after_frameset(&mut self, tok: &Tok) {
        match tok {
            Tok::Comment(d) => self.insert_a_comment_as_last_child_of(DOC, d),
            Tok::Doctype { .. } => self.process_using_rules_for(Mode::InBody, tok),
            Tok::Char(c) if is_ws(*c) => self.process_using_rules_for(Mode::InBody, tok),
            Tok::Start(t) if t.name == "html" => self.process_using_rules_for(Mode::InBody, tok),
            Tok::Eof => self.stop_parsing(),
            Tok::Start(t) if t.name == "noframes" => self.process_using_rules_for(Mode::InHead, tok),
            _ => {},
        }
    }

    // -----------------------------------------------------------------------------------------
    // §13.2.6.5 The rules for parsing tokens in foreign content

    fn foreign_content(&mut self, tok: &Tok) {
        match tok {
            Tok::Char('\0') => self.insert_a_character('\u{FFFD}'),
            Tok::Char(c) if is_ws(*c) => self.insert_a_character(*c),
            Tok::Char(c) => {
                self.insert_a_character(*c);
                self.frameset_ok = false;
            },
            Tok::Comment(d) => self.insert_a_comment(d),
            Tok::Doctype { .. } => {},
            Tok::Start(t) => {
                let breakout = matches!(
                    t.name.as_str(),
                    "b" | "big" | "blockquote" | "body" | "br" | "center" | "code" | "dd" | "div" | "dl" | "dt" | "em" | "embed" | "h1"
                        | "h2" | "h3" | "h4" | "h5" | "h6" | "head" | "hr" | "i" | "img" | "li" | "listing" | "menu" | "meta" | "nobr"
                        | "ol" | "p" | "pre" | "ruby" | "s" | "small" | "span" | "strong" | "strike" | "sub" | "sup" | "table" | "tt"
                        | "u" | "ul" | "var"
                ) || (t.name == "font" && t.attrs.iter().any(|a| matches!(a.0.as_str(), "color" | "face" | "size")));
                if breakout {
                    self.foreign_break_out(tok);
                } else {
                    self.foreign_any_other_start_tag(t);
                }
            },
            Tok::End(t) if matches!(t.name.as_str(), "br" | "p") => self.foreign_break_out(tok),
            Tok::End(t) => {
                // "An end tag whose tag name is "script", if the current node is an SVG script
                // element": pop (scripts never run). The generic walk below gives the same result.
                self.foreign_any_other_end_tag(tok, t);
            },
            Tok::Eof => unreachable!("EOF is never dispatched to foreign content"),
        }
    }

    fn foreign_break_out(&mut self, tok: &Tok) {
        self.count("foreign-break-out");
        // "While the current node is not a MathML text integration point, an HTML integration
        // point, or an element in the HTML namespace, pop elements from the stack of open
        // elements."
        while let Some(&cur) = self.open.last() {
            let html_ip = self.is_html_integration_point(cur)
                && !(self.dev.breakout_pops_annotation_xml_integration_point && self.el(cur).ns == Ns::MathMl);
            if self.el(cur).ns == Ns::Html || self.is_mathml_text_integration_point(cur) || html_ip {
                break;
            }
            self.open.pop();
        }
        // "Reprocess the token according to the rules given in the section corresponding to
        // the current insertion mode in HTML content."
        self.process_using_rules_for(self.mode, tok);
    }

    fn foreign_any_other_start_tag(&mut self, t: &Tag) {
        let acn = self.adjusted_current_node().expect("foreign content without adjusted current node");
        let ns = self.el(acn).ns;
        let mut tag = t.clone();
        let mut attrs = t.attrs.clone();
        match ns {
            Ns::MathMl => {
                attrs = adjust_mathml_attributes(&attrs);
            },
            Ns::Svg => {
                if let Some(fixed) = adjust_svg_tag_name(&tag.name) {
                    tag.name = fixed.to_string();
                }
                attrs = adjust_svg_attributes(&attrs);
            },
            _ => {},
        }
        let attrs = adjust_foreign_attributes(attrs);
        self.insert_a_foreign_element(&tag, ns, attrs);
        if t.self_closing {
            // script in SVG: "act as described in the steps for a "script" end tag below" = pop
            self.pop();
        }
    }

    fn foreign_any_other_end_tag(&mut self, tok: &Tok, t: &Tag) {
        let mut i = self.open.len() - 1;
        let mut node = self.open[i];
        loop {
            // "If node is the topmost element in the stack of open elements, then return."
            if i == 0 {
                return;
            }
            if self.el(node).local.to_ascii_lowercase() == t.name {
                self.open.truncate(i);
                return;
            }
            i -= 1;
            node = self.open[i];
            if i == 0 && self.dev.foreign_end_tag_walk_stops_at_root {
                return;
            }
            if self.el(node).ns == Ns::Html {
                break;
            }
        }
        self.process_using_rules_for(self.mode, tok);
    }
}

// ---------------------------------------------------------------------------------------------
// attribute and tag-name adjustment tables

fn plain(k: &str, v: &str) -> (String, String) {
    (k.to_string(), v.to_string())
}

/// "adjust MathML attributes"
fn adjust_mathml_attributes(attrs: &[(String, String)]) -> Vec<(String, String)> {
    attrs.iter().map(|(k, v)| if k == "definitionurl" { plain("definitionURL", v) } else { plain(k, v) }).collect()
}

pub const SVG_ATTRS: &[&str] = &[
    "attributeName", "attributeType", "baseFrequency", "baseProfile", "calcMode", "clipPathUnits", "diffuseConstant", "edgeMode",
    "filterUnits", "glyphRef", "gradientTransform", "gradientUnits", "kernelMatrix", "kernelUnitLength", "keyPoints", "keySplines",
    "keyTimes", "lengthAdjust", "limitingConeAngle", "markerHeight", "markerUnits", "markerWidth", "maskContentUnits", "maskUnits",
    "numOctaves", "pathLength", "patternContentUnits", "patternTransform", "patternUnits", "pointsAtX", "pointsAtY", "pointsAtZ",
    "preserveAlpha", "preserveAspectRatio", "primitiveUnits", "refX", "refY", "repeatCount", "repeatDur", "requiredExtensions",
    "requiredFeatures", "specularConstant", "specularExponent", "spreadMethod", "startOffset", "stdDeviation", "stitchTiles",
    "surfaceScale", "systemLanguage", "tableValues", "targetX", "targetY", "textLength", "viewBox", "viewTarget", "xChannelSelector",
    "yChannelSelector", "zoomAndPan",
];

/// "adjust SVG attributes"
fn adjust_svg_attributes(attrs: &[(String, String)]) -> Vec<(String, String)> {
    attrs
        .iter()
        .map(|(k, v)| match SVG_ATTRS.iter().find(|a| a.to_ascii_lowercase() == *k) {
            Some(fixed) => plain(fixed, v),
            None => plain(k, v),
        })
        .collect()
}

pub const SVG_TAGS: &[&str] = &[
    "altGlyph", "altGlyphDef", "altGlyphItem", "animateColor", "animateMotion", "animateTransform", "clipPath", "feBlend",
    "feColorMatrix", "feComponentTransfer", "feComposite", "feConvolveMatrix", "feDiffuseLighting", "feDisplacementMap",
    "feDistantLight", "feDropShadow", "feFlood", "feFuncA", "feFuncB", "feFuncG", "feFuncR", "feGaussianBlur", "feImage", "feMerge",
    "feMergeNode", "feMorphology", "feOffset", "fePointLight", "feSpecularLighting", "feSpotLight", "feTile", "feTurbulence",
    "foreignObject", "glyphRef", "linearGradient", "radialGradient", "textPath",
];

/// the SVG tag name table of "any other start tag" in foreign content
fn adjust_svg_tag_name(name: &str) -> Option<&'static str> {
    SVG_TAGS.iter().find(|t| t.to_ascii_lowercase() == name).copied()
}

/// "adjust foreign attributes"; also converts to the output attribute representation
fn adjust_foreign_attributes(attrs: Vec<(String, String)>) -> Vec<TAttr> {
    attrs
        .into_iter()
        .map(|(k, v)| {
            let (prefix, local, ns): (Option<&str>, &str, &str) = match k.as_str() {
                "xlink:actuate" => (Some("xlink"), "actuate", NS_XLINK),
                "xlink:arcrole" => (Some("xlink"), "arcrole", NS_XLINK),
                "xlink:href" => (Some("xlink"), "href", NS_XLINK),
                "xlink:role" => (Some("xlink"), "role", NS_XLINK),
                "xlink:show" => (Some("xlink"), "show", NS_XLINK),
                "xlink:title" => (Some("xlink"), "title", NS_XLINK),
                "xlink:type" => (Some("xlink"), "type", NS_XLINK),
                "xml:lang" => (Some("xml"), "lang", NS_XML),
                "xml:space" => (Some("xml"), "space", NS_XML),
                "xmlns" => (None, "xmlns", NS_XMLNS),
                "xmlns:xlink" => (Some("xmlns"), "xlink", NS_XMLNS),
                other => (None, other, ""),
            };
            TAttr { prefix: prefix.map(|p| p.to_string()), ns: ns.to_string(), local: local.to_string(), value: v }
        })
        .collect()
}

// ---------------------------------------------------------------------------------------------
// the DOCTYPE tables of the "initial" insertion mode

pub const QUIRKY_PUBLIC_PREFIXES: &[&str] = &[
    "+//Silmaril//dtd html Pro v0r11 19970101//",
    "-//AS//DTD HTML 3.0 asWedit + extensions//",
    "-//AdvaSoft Ltd//DTD HTML 3.0 asWedit + extensions//",
    "-//IETF//DTD HTML 2.0 Level 1//",
    "-//IETF//DTD HTML 2.0 Level 2//",
    "-//IETF//DTD HTML 2.0 Strict Level 1//",
    "-//IETF//DTD HTML 2.0 Strict Level 2//",
    "-//IETF//DTD HTML 2.0 Strict//",
    "-//IETF//DTD HTML 2.0//",
    "-//IETF//DTD HTML 2.1E//",
    "-//IETF//DTD HTML 3.0//",
    "-//IETF//DTD HTML 3.2 Final//",
    "-//IETF//DTD HTML 3.2//",
    "-//IETF//DTD HTML 3//",
    "-//IETF//DTD HTML Level 0//",
    "-//IETF//DTD HTML Level 1//",
    "-//IETF//DTD HTML Level 2//",
    "-//IETF//DTD HTML Level 3//",
    "-//IETF//DTD HTML Strict Level 0//",
    "-//IETF//DTD HTML Strict Level 1//",
    "-//IETF//DTD HTML Strict Level 2//",
    "-//IETF//DTD HTML Strict Level 3//",
    "-//IETF//DTD HTML Strict//",
    "-//IETF//DTD HTML//",
    "-//Metrius//DTD Metrius Presentational//",
    "-//Microsoft//DTD Internet Explorer 2.0 HTML Strict//",
    "-//Microsoft//DTD Internet Explorer 2.0 HTML//",
    "-//Microsoft//DTD Internet Explorer 2.0 Tables//",
    "-//Microsoft//DTD Internet Explorer 3.0 HTML Strict//",
    "-//Microsoft//DTD Internet Explorer 3.0 HTML//",
    "-//Microsoft//DTD Internet Explorer 3.0 Tables//",
    "-//Netscape Comm. Corp.//DTD HTML//",
    "-//Netscape Comm. Corp.//DTD Strict HTML//",
    "-//O'Reilly and Associates//DTD HTML 2.0//",
    "-//O'Reilly and Associates//DTD HTML Extended 1.0//",
    "-//O'Reilly and Associates//DTD HTML Extended Relaxed 1.0//",
    "-//SQ//DTD HTML 2.0 HoTMetaL + extensions//",
    "-//SoftQuad Software//DTD HoTMetaL PRO 6.0::19990601::extensions to HTML 4.0//",
    "-//SoftQuad//DTD HoTMetaL PRO 4.0::19971010::extensions to HTML 4.0//",
    "-//Spyglass//DTD HTML 2.0 Extended//",
    "-//Sun Microsystems Corp.//DTD HotJava HTML//",
    "-//Sun Microsystems Corp.//DTD HotJava Strict HTML//",
    "-//W3C//DTD HTML 3 1995-03-24//",
    "-//W3C//DTD HTML 3.2 Draft//",
    "-//W3C//DTD HTML 3.2 Final//",
    "-//W3C//DTD HTML 3.2//",
    "-//W3C//DTD HTML 3.2S Draft//",
    "-//W3C//DTD HTML 4.0 Frameset//",
    "-//W3C//DTD HTML 4.0 Transitional//",
    "-//W3C//DTD HTML Experimental 19960712//",
    "-//W3C//DTD HTML Experimental 970421//",
    "-//W3C//DTD W3 HTML//",
    "-//W3O//DTD W3 HTML 3.0//",
    "-//WebTechs//DTD Mozilla HTML 2.0//",
    "-//WebTechs//DTD Mozilla HTML//",
];

fn starts_with_ci(s: &str, prefix: &str) -> bool {
    s.len() >= prefix.len() && s.as_bytes()[..prefix.len()].eq_ignore_ascii_case(prefix.as_bytes())
}

fn doctype_is_quirks(name: Option<&str>, public_id: Option<&str>, system_id: Option<&str>, force_quirks: bool, lacks_silmaril: bool) -> bool {
    if force_quirks {
        return true;
    }
    if name != Some("html") {
        return true;
    }
    if let Some(p) = public_id {
        if ["-//W3O//DTD W3 HTML Strict 3.0//EN//", "-/W3C/DTD HTML 4.0 Transitional/EN", "HTML"].iter().any(|x| p.eq_ignore_ascii_case(x)) {
            return true;
        }
        if QUIRKY_PUBLIC_PREFIXES.iter().any(|x| starts_with_ci(p, x) && !(lacks_silmaril && x.starts_with("+//Silmaril"))) {
            return true;
        }
        if system_id.is_none()
            && (starts_with_ci(p, "-//W3C//DTD HTML 4.01 Frameset//") || starts_with_ci(p, "-//W3C//DTD HTML 4.01 Transitional//"))
        {
            return true;
        }
    }
    if let Some(s) = system_id {
        if s.eq_ignore_ascii_case("http://www.ibm.com/data/dtd/v11/ibmxhtml1-transitional.dtd") {
            return true;
        }
    }
    false
}

fn doctype_is_limited_quirks(public_id: Option<&str>, system_id: Option<&str>) -> bool {
    if let Some(p) = public_id {
        if starts_with_ci(p, "-//W3C//DTD XHTML 1.0 Frameset//") || starts_with_ci(p, "-//W3C//DTD XHTML 1.0 Transitional//") {
            return true;
        }
        if system_id.is_some()
            && (starts_with_ci(p, "-//W3C//DTD HTML 4.01 Frameset//") || starts_with_ci(p, "-//W3C//DTD HTML 4.01 Transitional//"))
        {
            return true;
        }
    }
    false
}

// ---------------------------------------------------------------------------------------------
// known-answer vectors

fn parse_quirks_name(s: &str) -> Option<RefQuirks> {
    match s {
        "no-quirks" => Some(RefQuirks::NoQuirks),
        "limited-quirks" => Some(RefQuirks::LimitedQuirks),
        "quirks" => Some(RefQuirks::Quirks),
        _ => None,
    }
}

pub fn quirks_name(q: RefQuirks) -> &'static str {
    match q {
        RefQuirks::NoQuirks => "no-quirks",
        RefQuirks::LimitedQuirks => "limited-quirks",
        RefQuirks::Quirks => "quirks",
    }
}

/// Options of one vector case (shared with the tool that prints the model's answer).
pub fn vector_opts(t: &serde_json::Value) -> Result<RefTreeOpts, String> {
    let mut o = RefTreeOpts::default();
    o.scripting = t.get("scripting").and_then(|b| b.as_bool()).unwrap_or(true);
    o.context_allows_scripting = o.scripting;
    o.iframe_srcdoc = t.get("srcdoc").and_then(|b| b.as_bool()).unwrap_or(false);
    if let Some(q) = t.get("initialQuirks").and_then(|q| q.as_str()) {
        o.quirks = parse_quirks_name(q).ok_or_else(|| format!("bad initialQuirks {q:?}"))?;
    }
    if let Some(c) = t.get("context").and_then(|c| c.as_str()) {
        // "td", "svg path", "math mi"; optional attributes in "contextAttrs": [[k,v]..]
        let (ns, local) = match c.split_once(' ') {
            Some(("svg", l)) => (NS_SVG, l),
            Some(("math", l)) => (NS_MATHML, l),
            None => (NS_HTML, c),
            _ => return Err(format!("bad context {c:?}")),
        };
        let attrs = t
            .get("contextAttrs")
            .and_then(|a| a.as_array())
            .map(|a| a.iter().map(|p| (p[0].as_str().unwrap_or("").to_string(), p[1].as_str().unwrap_or("").to_string())).collect())
            .unwrap_or_default();
        o.context = Some((ns.to_string(), local.to_string(), attrs));
    }
    Ok(o)
}

/// Format: `{"tests": [{"description", "input", "expected" (the `tree::dump_html` text of the
/// document), "quirks"? ("no-quirks" | "limited-quirks" | "quirks": expected final mode),
/// "scripting"? (default true), "srcdoc"? (default false), "initialQuirks"?, "context"? ("td",
/// "svg path", "math mi"), "contextAttrs"?}]}`. Returns the number of cases checked.
pub fn check_vectors_value(doc: &serde_json::Value) -> Result<usize, String> {
    let tests = doc.get("tests").and_then(|t| t.as_array()).ok_or("no \"tests\" array")?;
    let mut n = 0;
    for (idx, t) in tests.iter().enumerate() {
        let desc = t.get("description").and_then(|d| d.as_str()).unwrap_or("?");
        let input = t.get("input").and_then(|d| d.as_str()).ok_or_else(|| format!("case #{idx} {desc:?}: no input"))?;
        let expected = t.get("expected").and_then(|d| d.as_str()).ok_or_else(|| format!("case #{idx} {desc:?}: no expected"))?;
        let opts = vector_opts(t).map_err(|e| format!("case #{idx} {desc:?}: {e}"))?;
        let out = reftree(input, &opts, &Deviations::default());
        let got = crate::tree::dump_html(&out.tree);
        if got != expected {
            return Err(format!("case #{idx} {desc:?} input {input:?}: expected\n{expected}\ngot\n{got}"));
        }
        if let Some(q) = t.get("quirks").and_then(|q| q.as_str()) {
            let want = parse_quirks_name(q).ok_or_else(|| format!("case #{idx}: bad quirks {q:?}"))?;
            if want != out.quirks {
                return Err(format!("case #{idx} {desc:?} input {input:?}: expected mode {q}, got {}", quirks_name(out.quirks)));
            }
        }
        n += 1;
    }
    Ok(n)
}

pub fn check_vectors(path: &str) -> Result<usize, String> {
    let text = std::fs::read_to_string(path).map_err(|e| format!("{path}: {e}"))?;
    let doc: serde_json::Value = serde_json::from_str(&text).map_err(|e| format!("{path}: {e}"))?;
    check_vectors_value(&doc)
}

#[cfg(test)]
mod tests {
    #[test]
    fn tree_vectors() {
        let path = concat!(env!("CARGO_MANIFEST_DIR"), "/../vectors/tree_vectors.json");
        let path = if std::path::Path::new(path).exists() { path.to_string() } else { "/verif/vectors/tree_vectors.json".to_string() };
        let n = super::check_vectors(&path).unwrap_or_else(|e| panic!("{e}"));
        assert!(n >= 150, "only {n} vectors");
    }
}
