//! Reference models (independent of the code under test).
