//! Reference models (written from the specifications, independent of the code under test).

use crate::gen::StartState;
use crate::tokrec::{Answer, Policy, PolicyState, RTok};

pub mod entities;
pub mod reftok;
pub mod reftree;

/// Receiver of reference-tokenizer output. Mirrors what html5ever's `TokenSink` can do.
pub trait RefSink {
    /// Called for every token in emission order. Character tokens are delivered one code point at a
    /// time as `RTok::Chars(<one char>)`; a U+0000 character token is delivered as `RTok::Null`.
    /// `line` = 1 + number of line breaks (after CR/CRLF normalisation) consumed when the token is
    /// emitted. Parse errors are NOT delivered. For Start/End tokens the returned `Answer` switches
    /// the tokenizer state exactly as the corresponding `TokenSinkResult` would (Continue = no
    /// change; Script = switch to the data state); for other tokens it is ignored.
    fn token(&mut self, tok: RTok, line: u64) -> Answer;
    /// "There is an adjusted current node and it is not an element in the HTML namespace"
    /// (decides whether `<![CDATA[` opens a CDATA section).
    fn foreign(&mut self) -> bool;
}

#[derive(Clone, Debug)]
pub struct RefTokOpts {
    pub start: StartState,
    pub last_start_tag: Option<String>,
    /// drop one leading U+FEFF of the stream
    pub discard_bom: bool,
}

impl Default for RefTokOpts {
    fn default() -> Self {
        RefTokOpts { start: StartState::Data, last_start_tag: None, discard_bom: true }
    }
}

/// A RefSink that applies a `Policy` and collects coalesced tokens (what C01 compares).
pub struct PolicySink {
    pub policy: Policy,
    pub pstate: PolicyState,
    pub toks: Vec<(RTok, u64)>,
}

impl PolicySink {
    pub fn new(policy: Policy) -> PolicySink {
        PolicySink { policy, pstate: PolicyState::default(), toks: Vec::new() }
    }
}

impl RefSink for PolicySink {
    fn token(&mut self, tok: RTok, line: u64) -> Answer {
        let ans = match &tok {
            RTok::Start { name, self_closing, .. } => self.policy.on_tag(&mut self.pstate, true, name, *self_closing),
            RTok::End { name, self_closing, .. } => self.policy.on_tag(&mut self.pstate, false, name, *self_closing),
            _ => Answer::Continue,
        };
        match (&tok, self.toks.last_mut()) {
            (RTok::Chars(c), Some((RTok::Chars(prev), pl))) => {
                prev.push_str(c);
                *pl = line;
            },
            _ => self.toks.push((tok, line)),
        }
        ans
    }
    fn foreign(&mut self) -> bool {
        self.policy.foreign(&self.pstate)
    }
}
