//! C09 — line numbers reported with tokens match the source.

use super::c01::{impl_tokens, model_tokens, Case};
use super::common::*;
use crate::drive::*;
use crate::gen::{self, StartState};
use crate::msink::MSink;
use crate::prng::{hash_str, mix, Rng};
use crate::report::{catch, nthreads, par_run, Meta, Stats};
use crate::tokrec::{Policy, RTok};
use crate::Args;
use html5ever::buffer_queue::BufferQueue;
use html5ever::tendril::StrTendril;
use html5ever::tokenizer::{Token, TokenSink, TokenSinkResult, Tokenizer};
use html5ever::tree_builder::TreeBuilder;
use html5ever::TokenizerResult;
use serde_json::{json, Value};
use std::cell::{Cell, RefCell};

fn count_breaks(s: &str) -> u64 {
    let mut n = 0;
    let mut it = s.chars().peekable();
    while let Some(c) = it.next() {
        match c {
            '\r' => {
                n += 1;
                if it.peek() == Some(&'\n') {
                    it.next();
                }
            },
            '\n' => n += 1,
            _ => {},
        }
    }
    n
}

/// Which tokenizer context the first wrongly numbered token is in (stable signature).
fn sig_for(tok: &RTok) -> &'static str {
    match tok {
        RTok::Start { .. } | RTok::End { .. } => "tag",
        RTok::Doctype { .. } => "doctype",
        RTok::Comment(_) => "comment",
        RTok::Chars(_) | RTok::Null => "chars",
        RTok::Eof => "eof",
        RTok::Error(_) => "error",
    }
}

fn check_tok(c: &Case, rng: &mut Rng, st: &mut Stats, all_two_splits: bool) {
    let breaks = count_breaks(if c.discard_bom { c.input.strip_prefix('\u{feff}').unwrap_or(&c.input) } else { &c.input });
    let (model, _) = match catch(|| model_tokens(c)) {
        Ok(m) => m,
        Err(_) => return,
    };
    st.case(if breaks > 0 { Some(hash_str(&format!("{c:?}"))) } else { None });
    // model sanity: EOF line
    if model.last().map(|t| t.1) != Some(1 + breaks) {
        st.inconclusive(&format!("reference model EOF line inconsistent on {}", show(&c.input)));
        return;
    }
    let n = c.input.chars().count();
    let mut schedules: Vec<Vec<usize>> = vec![vec![]];
    if all_two_splits {
        schedules.extend(gen::two_chunk_cuts(n));
        if n > 1 {
            schedules.push(gen::one_char_cuts(n));
        }
    } else {
        schedules.push(gen::random_cuts(rng, n));
        schedules.push(vec![rng.below(n + 1)]);
    }
    for cuts in &schedules {
        let imp = match impl_tokens(c, cuts) {
            Ok(i) => i,
            Err(_) => return,
        };
        st.count("runs");
        if first_diff(&imp, &model, false).is_some() {
            st.count("token_mismatch_skipped(C01/C03's business)");
            return;
        }
        st.add("token_lines_compared", imp.len() as u64);
        if let Some(pos) = imp.iter().zip(model.iter()).position(|(a, b)| a.1 != b.1) {
            let (t, got) = &imp[pos];
            let want = model[pos].1;
            st.violation(
                &format!("line:{}", sig_for(t)),
                &format!(
                    "input={} cuts={:?} start={}: token #{pos} {} reported on line {got}, source position says {want} (EOF: {} vs {})",
                    show(&c.input),
                    &cuts[..cuts.len().min(6)],
                    start_state_name(c.start),
                    t.short(),
                    imp.last().map(|t| t.1).unwrap_or(0),
                    1 + breaks
                ),
                json!({"kind": "tok", "case": c.to_json(), "cuts": cuts}),
            );
            return;
        }
    }
}

/// An embedder switches the tokenizer to PLAINTEXT between two feeds (Tokenizer::set_plaintext_state,
/// public API). Whatever state the switch interrupts, every line break of the input is read in some
/// state, so the EOF token must still carry 1 + the line breaks of the whole input, and lines never
/// go backwards.
fn check_plaintext_switch(input: &str, cut: usize, st: &mut Stats) {
    let chars: Vec<char> = input.chars().collect();
    let cut = cut.min(chars.len());
    let first: String = chars[..cut].iter().collect();
    let second: String = chars[cut..].iter().collect();
    let r = catch(|| {
        let sink = crate::tokrec::RecSink::new(Policy::TreeBuilderLike);
        let tok = Tokenizer::new(sink, Default::default());
        let q = BufferQueue::default();
        for (k, part) in [&first, &second].iter().enumerate() {
            if k == 1 {
                tok.set_plaintext_state();
            }
            if !part.is_empty() {
                q.push_back(StrTendril::from_slice(part));
            }
            while !matches!(tok.feed(&q), TokenizerResult::Done) {}
        }
        tok.end();
        let toks = std::mem::take(&mut *tok.sink.toks.borrow_mut());
        toks
    });
    let Ok(toks) = r else { return };
    st.count("plaintext_switch_runs");
    let breaks = count_breaks(input.strip_prefix('\u{feff}').unwrap_or(input));
    let eof = toks.iter().rev().find(|t| matches!(t.0, RTok::Eof)).map(|t| t.1);
    let backwards = toks.windows(2).position(|w| w[1].1 < w[0].1);
    if eof != Some(1 + breaks) || backwards.is_some() {
        st.violation(
            "line:plaintext-switch",
            &format!("input={} fed as {:?} | set_plaintext_state() | {:?}: EOF reported on line {:?}, the input has {} line breaks{}", show(input), show(&first), show(&second), eof, breaks, if backwards.is_some() { "; token lines go backwards" } else { "" }),
            json!({"kind": "plaintext-switch", "input": input, "cut": cut}),
        );
    }
}

/// TokenSink wrapper that checks, for every token handed to the tree builder, that the sink's
/// current line (last set_current_line, initially 1) equals the token's line afterwards.
struct LineTee {
    inner: TreeBuilder<crate::msink::H, MSink>,
    bad: RefCell<Option<String>>,
    checked: Cell<u64>,
    last: Cell<u64>,
}

impl TokenSink for LineTee {
    type Handle = crate::msink::H;
    fn process_token(&self, token: Token, line: u64) -> TokenSinkResult<Self::Handle> {
        if line < self.last.get() && self.bad.borrow().is_none() {
            *self.bad.borrow_mut() = Some(format!("line went backwards: {} after {}", line, self.last.get()));
        }
        self.last.set(line);
        let desc = if self.bad.borrow().is_none() { Some(format!("{token:?}")) } else { None };
        let r = self.inner.process_token(token, line);
        let sink_line = self.inner.sink.inner.borrow().lines.last().copied().unwrap_or(1);
        self.checked.set(self.checked.get() + 1);
        if sink_line != line && self.bad.borrow().is_none() {
            *self.bad.borrow_mut() = Some(format!("token {} has line {line} but the sink's current line is {sink_line}", desc.unwrap_or_default().chars().take(60).collect::<String>()));
        }
        r
    }
    fn end(&self) {
        self.inner.end()
    }
    fn adjusted_current_node_present_but_not_in_html_namespace(&self) -> bool {
        self.inner.adjusted_current_node_present_but_not_in_html_namespace()
    }
}

fn check_forwarding(input: &str, cuts: &[usize], st: &mut Stats) {
    let chunks = split_at_chars(input, cuts);
    let r = catch(|| {
        let tb = TreeBuilder::new(MSink::new(), Default::default());
        let tok = Tokenizer::new(LineTee { inner: tb, bad: RefCell::new(None), checked: Cell::new(0), last: Cell::new(1) }, Default::default());
        let q = BufferQueue::default();
        for c in &chunks {
            q.push_back(StrTendril::from_slice(c));
            while !matches!(tok.feed(&q), TokenizerResult::Done) {}
        }
        tok.end();
        let bad = tok.sink.bad.borrow().clone();
        (bad, tok.sink.checked.get(), tok.sink.last.get())
    });
    if let Ok((bad, checked, last)) = r {
        st.add("forwarded_tokens_checked", checked);
        st.count("forwarding_runs");
        let breaks = count_breaks(input.strip_prefix('\u{feff}').unwrap_or(input));
        if let Some(b) = bad {
            st.violation("forwarding", &format!("input={} cuts={:?}: {b}", show(input), &cuts[..cuts.len().min(6)]), json!({"kind": "fwd", "input": input, "cuts": cuts}));
        } else if last != 1 + breaks {
            st.violation("line:eof", &format!("input={} cuts={:?}: last token (EOF) carries line {last}, the input has {} line breaks", show(input), &cuts[..cuts.len().min(6)], breaks), json!({"kind": "fwd", "input": input, "cuts": cuts}));
        }
    }
}

const BREAKS: [&str; 3] = ["\n", "\r", "\r\n"];

/// every state prefix with a line break substituted at every position of prefix+continuation
fn enum_cases() -> Vec<Case> {
    let mut v = Vec::new();
    for (start, last, prefix, _) in gen::state_prefixes() {
        for cont in ["x>", "\">'>", "-->", "=v>", " a='b'>y", "PUBLIC \"p\" 's'>", "]]>z", "</title>", "</script>", ";x"] {
            let base: Vec<char> = format!("{prefix}{cont}").chars().collect();
            for pos in 0..=base.len() {
                for b in BREAKS {
                    let mut s: String = base[..pos].iter().collect();
                    s.push_str(b);
                    s.extend(base[pos..].iter());
                    v.push(Case { input: s, start, last_tag: last.map(|x| x.to_string()), policy: Policy::TreeBuilderLike, discard_bom: true });
                }
            }
        }
    }
    v
}

pub fn run(args: &Args) -> (Meta, Stats) {
    if let Some(p) = &args.replay {
        let mut st = Stats::new();
        let v: Value = serde_json::from_str(&std::fs::read_to_string(p).unwrap_or_default()).unwrap_or(Value::Null);
        let mut rng = Rng::new(1);
        if v["kind"] == "fwd" {
            let cuts: Vec<usize> = v["cuts"].as_array().map(|a| a.iter().filter_map(|x| x.as_u64()).map(|x| x as usize).collect()).unwrap_or_default();
            check_forwarding(v["input"].as_str().unwrap_or(""), &cuts, &mut st);
        } else if v["kind"] == "plaintext-switch" {
            check_plaintext_switch(v["input"].as_str().unwrap_or(""), v["cut"].as_u64().unwrap_or(0) as usize, &mut st);
        } else {
            check_tok(&Case::from_json(&v["case"]), &mut rng, &mut st, true);
        }
        return (super::meta(args, "replay of one recorded case", &[]), st);
    }
    let seed = args.seed;
    let cases = enum_cases();
    let quick = args.quick();
    let deadline = args.deadline();
    let st = par_run(nthreads(), |shard, nshards, st| {
        let mut rng = Rng::new(mix(seed ^ 0xC09, shard as u64));
        for (i, c) in cases.iter().enumerate() {
            if i % nshards != shard {
                continue;
            }
            // quick: all 2-chunk splits for a seed-dependent quarter, one-piece + random for the rest
            let full = !quick || (i / nshards + seed as usize) % 4 == 0;
            check_tok(c, &mut rng, st, full);
            st.count("enumerated_cases");
            if full {
                st.count("enumerated_cases_with_all_two_chunk_splits");
            }
        }
        while !expired(deadline) {
            let mut input = gen::tok_soup(&mut rng, 8);
            // sprinkle line breaks
            let mut chars: Vec<char> = input.chars().collect();
            for _ in 0..rng.range(1, 4) {
                let pos = rng.below(chars.len() + 1);
                for (k, ch) in rng.pick_s(&BREAKS).chars().enumerate() {
                    chars.insert(pos + k, ch);
                }
            }
            input = chars.into_iter().collect();
            if input.chars().count() > 200 {
                continue;
            }
            let start = if rng.chance(1, 4) { *rng.pick(&gen::START_STATES) } else { StartState::Data };
            let c = Case { input: input.clone(), start, last_tag: Some("title".into()), policy: Policy::TreeBuilderLike, discard_bom: true };
            check_tok(&c, &mut rng, st, input.chars().count() <= 40);
            st.count("soup_cases");
            let n = input.chars().count();
            let cuts = gen::random_cuts(&mut rng, n);
            check_forwarding(&input, &cuts, st);
            if rng.chance(1, 4) {
                // cut next to a line break half of the time (between CR and LF, after CR, before LF)
                let positions: Vec<usize> = input.chars().enumerate().filter(|(_, c)| *c == '\r' || *c == '\n').map(|(i, _)| i).collect();
                let cut = if !positions.is_empty() && rng.chance(1, 2) { *rng.pick(&positions) + rng.below(2) } else { rng.below(n + 1) };
                check_plaintext_switch(&input, cut, st);
            }
            if st.samples.len() < 2 && rng.chance(1, 300) {
                let (m, _) = model_tokens(&c);
                st.sample(json!({"case": c.to_json(), "model_tokens_with_lines": toks_json(&m)}));
            }
        }
    });
    let mut m = super::meta(
        args,
        "expected line of every non-character token and of the end of every character run = 1 + line breaks (LF, CR, CRLF once) the reference tokenizer has consumed at that emission; EOF = 1 + breaks of the whole input (counted independently). Inputs: every tokenizer-state prefix x 10 continuations with LF / CR / CRLF substituted at every position, under all 2-chunk splits and 1-char chunks (all in thorough, a seed-dependent quarter in quick), plus markup soup with sprinkled line breaks; the tree builder's forwarding is checked token by token (sink's current line after set_current_line == token line) on full parses; runs in which the embedder calls set_plaintext_state() between two feeds (cut placed next to line breaks half of the time) must still end with EOF on line 1 + breaks. Non-trivial = the input contains a line break; distinct by case hash.",
        &["token streams that differ from the reference model are skipped here (C01 reports them)", "line of individual character tokens inside a run is not compared (they may be split differently)"],
    );
    m.require = vec![("enumerated_cases".into(), cases.len() as u64), ("forwarding_runs".into(), 1000), ("token_lines_compared".into(), 100000), ("plaintext_switch_runs".into(), 1000)];
    (m, st)
}
