//! Helpers shared by several checks.

use crate::gen::StartState;
use crate::tokrec::RTok;
use html5ever::tokenizer::states::{RawKind, ScriptEscapeKind, State};
use serde_json::{json, Value};
use std::time::Instant;

pub fn real_state(s: StartState) -> State {
    match s {
        StartState::Data => State::Data,
        StartState::Rcdata => State::RawData(RawKind::Rcdata),
        StartState::Rawtext => State::RawData(RawKind::Rawtext),
        StartState::ScriptData => State::RawData(RawKind::ScriptData),
        StartState::ScriptDataEscaped => State::RawData(RawKind::ScriptDataEscaped(ScriptEscapeKind::Escaped)),
        StartState::ScriptDataDoubleEscaped => State::RawData(RawKind::ScriptDataEscaped(ScriptEscapeKind::DoubleEscaped)),
        StartState::Plaintext => State::Plaintext,
    }
}

pub fn start_state_name(s: StartState) -> &'static str {
    match s {
        StartState::Data => "Data",
        StartState::Rcdata => "Rcdata",
        StartState::Rawtext => "Rawtext",
        StartState::ScriptData => "ScriptData",
        StartState::ScriptDataEscaped => "ScriptDataEscaped",
        StartState::ScriptDataDoubleEscaped => "ScriptDataDoubleEscaped",
        StartState::Plaintext => "Plaintext",
    }
}

pub fn parse_start_state(s: &str) -> StartState {
    match s {
        "Rcdata" => StartState::Rcdata,
        "Rawtext" => StartState::Rawtext,
        "ScriptData" => StartState::ScriptData,
        "ScriptDataEscaped" => StartState::ScriptDataEscaped,
        "ScriptDataDoubleEscaped" => StartState::ScriptDataDoubleEscaped,
        "Plaintext" => StartState::Plaintext,
        _ => StartState::Data,
    }
}

/// Describe the first difference between two token streams.
pub fn first_diff(a: &[(RTok, u64)], b: &[(RTok, u64)], compare_lines: bool) -> Option<String> {
    let n = a.len().min(b.len());
    for i in 0..n {
        if a[i].0 != b[i].0 {
            return Some(format!("token #{i}: {} vs {}", a[i].0.short(), b[i].0.short()));
        }
        if compare_lines && a[i].1 != b[i].1 {
            return Some(format!("token #{i} {}: line {} vs {}", a[i].0.short(), a[i].1, b[i].1));
        }
    }
    if a.len() != b.len() {
        let (longer, which) = if a.len() > b.len() { (a, "first") } else { (b, "second") };
        return Some(format!(
            "length {} vs {}; {which} continues with {}",
            a.len(),
            b.len(),
            longer[n].0.short()
        ));
    }
    None
}

pub fn toks_json(t: &[(RTok, u64)]) -> Value {
    Value::Array(t.iter().take(60).map(|(t, l)| json!(format!("{}@{}", t.short(), l))).collect())
}

/// First line where two dumps differ.
pub fn dump_diff(a: &str, b: &str) -> String {
    let la: Vec<&str> = a.lines().collect();
    let lb: Vec<&str> = b.lines().collect();
    for i in 0..la.len().max(lb.len()) {
        let x = la.get(i).copied().unwrap_or("<end>");
        let y = lb.get(i).copied().unwrap_or("<end>");
        if x != y {
            return format!("line {i}: {x:?} vs {y:?}");
        }
    }
    "identical".into()
}

pub fn expired(deadline: Instant) -> bool {
    Instant::now() >= deadline
}

/// Escape a string for display in summaries.
pub fn show(s: &str) -> String {
    let o = format!("{s:?}");
    if o.chars().count() > 200 {
        let mut t: String = o.chars().take(200).collect();
        t.push('…');
        t
    } else {
        o
    }
}

/// Greedy delta-debugging over characters: remove chunks while `fails` stays true.
pub fn minimize_str(input: &str, fails: &mut dyn FnMut(&str) -> bool, max_tests: usize) -> String {
    let mut cur: Vec<char> = input.chars().collect();
    let mut tests = 0;
    let mut chunk = (cur.len() / 2).max(1);
    while chunk >= 1 && tests < max_tests {
        let mut i = 0;
        let mut progressed = false;
        while i < cur.len() && tests < max_tests {
            let end = (i + chunk).min(cur.len());
            let cand: String = cur[..i].iter().chain(cur[end..].iter()).collect();
            tests += 1;
            if fails(&cand) {
                cur = cand.chars().collect();
                progressed = true;
            } else {
                i += chunk;
            }
        }
        if chunk == 1 && !progressed {
            break;
        }
        if !progressed {
            chunk /= 2;
        }
    }
    cur.into_iter().collect()
}

/// A writer that follows the `io::Write` contract but is as unhelpful as the contract allows:
/// each `write` accepts at most the next scheduled number of bytes (at least one), and now and
/// then fails with `Interrupted` (which `write_all` must retry). A serializer that calls `write`
/// where it means `write_all` loses data here and nowhere else.
pub struct ChoppyWriter {
    pub out: Vec<u8>,
    sizes: Vec<usize>,
    k: usize,
    pub short_writes: u64,
}

impl ChoppyWriter {
    pub fn new(seed: u64) -> ChoppyWriter {
        let sizes = match seed % 5 {
            0 => vec![1],
            1 => vec![2, 1, 3],
            2 => vec![7, 0, 1000],
            3 => vec![63, 64, 65, 1],
            _ => vec![(seed % 97 + 1) as usize, 0, (seed % 13 + 1) as usize, 4096],
        };
        ChoppyWriter { out: Vec::new(), sizes, k: 0, short_writes: 0 }
    }
}

impl std::io::Write for ChoppyWriter {
    fn write(&mut self, buf: &[u8]) -> std::io::Result<usize> {
        let want = self.sizes[self.k % self.sizes.len()];
        self.k += 1;
        if want == 0 {
            return Err(std::io::Error::new(std::io::ErrorKind::Interrupted, "again"));
        }
        let n = want.min(buf.len());
        if n < buf.len() {
            self.short_writes += 1;
        }
        self.out.extend_from_slice(&buf[..n]);
        Ok(n)
    }
    fn flush(&mut self) -> std::io::Result<()> {
        Ok(())
    }
}
