//! Length arithmetic of tendrils at the 2^31 / 2^32 limits (C11 and C12).
//!
//! Runs in a child process (`vharness HUGE-TENDRIL`), because the failure mode of wrapped length
//! arithmetic is a wild copy that kills the process, which `catch_unwind` cannot turn into a
//! verdict. The 2 GiB buffers are allocated but almost never touched, so the cost is address
//! space, not memory. Each step prints `STEP <name>` before it runs and `OK <name>` or
//! `BAD <name> <what>` after; the parent maps a death by SIGSEGV/SIGBUS/SIGILL/SIGABRT after a STEP line to
//! a violation, and an allocation failure to "skipped".

use crate::report::{catch, out_line, Stats};
use serde_json::json;
use tendril::ByteTendril;

const HALF: u32 = 1 << 31;
const OFLOW: &str = "overflow in buffer arithmetic";

fn mk(n: u32) -> ByteTendril {
    let mut t = ByteTendril::new();
    // set-up only (not an operation under test): a buffer of n bytes that is never written
    unsafe { t.push_uninitialized(n) };
    t
}

fn step(name: &str, f: impl FnOnce() -> Result<(), String>) {
    out_line(&format!("STEP {name}"));
    let t0 = std::time::Instant::now();
    let r = catch(f);
    if std::env::var("VERIF_HUGE_TIMING").is_ok() {
        eprintln!("{name}: {:.2}s", t0.elapsed().as_secs_f64());
    }
    match r {
        Ok(Ok(())) => out_line(&format!("OK {name}")),
        Ok(Err(e)) => out_line(&format!("BAD {name} {e}")),
        Err(p) => out_line(&format!("BAD {name} unexpected panic: {}", p.replace('\n', " "))),
    }
}

/// the operation must panic with the documented overflow message and leave `t` as it was
fn must_overflow(t: &mut ByteTendril, what: &str, f: impl FnOnce(&mut ByteTendril)) -> Result<(), String> {
    let before = t.len32();
    let r = catch(std::panic::AssertUnwindSafe(|| f(t)));
    match r {
        Err(m) if m.contains(OFLOW) => {
            if t.len32() != before {
                return Err(format!("{what}: panicked with the overflow message but the length changed from {before} to {}", t.len32()));
            }
            Ok(())
        },
        Err(m) => Err(format!("{what}: panicked with {m:?} instead of the documented overflow panic")),
        Ok(()) => Err(format!("{what}: a result longer than u32::MAX was accepted; length is now {}", t.len32())),
    }
}

pub fn child_main() -> i32 {
    // 1. growth up to exactly 2^31 works and keeps content
    step("grow-to-2^31", || {
        let mut t = mk(HALF - 64);
        if t.len32() != HALF - 64 {
            return Err(format!("len {} after push_uninitialized(2^31-64)", t.len32()));
        }
        t.push_slice(&[7u8; 32]);
        if t.len32() != HALF - 32 {
            return Err(format!("len {} after pushing 32 bytes onto 2^31-64", t.len32()));
        }
        if t[(HALF - 64) as usize..] != [7u8; 32] {
            return Err("the 32 pushed bytes are not at the end".into());
        }
        let u = t.subtendril(HALF - 40, 8);
        if &u[..] != &[7u8; 8] {
            return Err(format!("subtendril(2^31-40, 8) = {:?}", &u[..]));
        }
        let mut v = t.clone();
        v.pop_front(HALF - 48);
        if &v[..] != &[7u8; 16] {
            return Err(format!("pop_front(2^31-48) leaves {:?}", &v[..]));
        }
        v.pop_back(10);
        if v.len32() != 6 {
            return Err("pop_back after pop_front".into());
        }
        // out-of-bounds requests near the top of the u32 range
        for (o, l) in [(HALF - 32, 1u32), (HALF - 33, 2), (u32::MAX, 1), (u32::MAX, u32::MAX), (1, u32::MAX), (HALF, HALF), (HALF - 32, u32::MAX)] {
            if t.try_subtendril(o, l).is_ok() {
                return Err(format!("try_subtendril({o}, {l}) on a tendril of length 2^31-32 succeeded"));
            }
        }
        if t.try_subtendril(HALF - 33, 1).is_err() || t.try_subtendril(0, HALF - 32).is_err() {
            return Err("an in-bounds try_subtendril at the very end failed".into());
        }
        if t.try_pop_front(HALF - 31).is_ok() || t.try_pop_back(HALF - 31).is_ok() {
            return Err("try_pop_* by len+1 succeeded".into());
        }
        Ok(())
    });
    // 2. len + len == 2^32: must be refused, operands untouched
    step("push_tendril-2^31+2^31", || {
        let mut a = mk(HALF);
        let b = mk(HALF);
        let r = must_overflow(&mut a, "push_tendril of two 2^31-byte tendrils", |a| a.push_tendril(&b));
        if b.len32() != HALF {
            return Err("the pushed tendril changed".into());
        }
        r
    });
    step("push_slice-2^31+2^31", || {
        let mut a = mk(HALF);
        let b = mk(HALF);
        // the slice is 2 GiB of never-written pages; it is only read if the length check is wrong
        let r = must_overflow(&mut a, "push_slice of 2^31 bytes onto 2^31 bytes", |a| a.push_slice(&b[..]));
        r?;
        must_overflow(&mut a, "try_push_bytes of 2^31 bytes onto 2^31 bytes", |a| {
            let _ = a.try_push_bytes(&b[..]);
        })?;
        let mut c = ByteTendril::from_slice(b"0123456789abcdef0123");
        must_overflow(&mut c, "push_slice of u32::MAX-15 bytes onto 20 bytes", |c| {
            // a slice whose length alone is fine but whose sum with the current length is not
            let big = unsafe { std::slice::from_raw_parts(b.as_ptr(), (HALF - 1) as usize) };
            c.push_slice(big);
            c.push_slice(big);
            c.push_slice(big);
        })?;
        Ok(())
    });
    // 3. result below 2^32 but beyond what a power-of-two capacity can hold: refused or exact
    step("push_tendril-between-2^31-and-2^32", || {
        let mut a = mk(HALF - 32);
        let b = mk(HALF - 32);
        let r = catch(std::panic::AssertUnwindSafe(|| a.push_tendril(&b)));
        match r {
            Err(m) if m.contains(OFLOW) => {
                if a.len32() != HALF - 32 {
                    return Err(format!("refused, but the length changed to {}", a.len32()));
                }
                Ok(())
            },
            Err(m) => Err(format!("panicked with {m:?}")),
            Ok(()) if a.len32() == u32::MAX - 63 => Ok(()),
            Ok(()) => Err(format!("accepted with length {}", a.len32())),
        }
    });
    // 4. pushes whose new length does not fit u32
    step("push_slice-overflow", || {
        let mut a = mk(HALF);
        a.pop_front(1); // shared-or-owned with an offset
        let big = vec![0u8; 64];
        let _ = big;
        must_overflow(&mut a, "push_uninitialized(2^31+1) on 2^31-1 bytes", |a| unsafe { a.push_uninitialized(HALF + 1) })
    });
    step("reserve-overflow", || {
        let mut a = ByteTendril::from_slice(b"0123456789");
        must_overflow(&mut a, "reserve(u32::MAX - 5) on 10 bytes", |a| a.reserve(u32::MAX - 5))?;
        must_overflow(&mut a, "reserve(u32::MAX) on 10 bytes", |a| a.reserve(u32::MAX))?;
        let mut s = tendril::StrTendril::from_slice("abcdefghijklmnopqrstuvwxyz");
        let r = catch(std::panic::AssertUnwindSafe(|| s.reserve(u32::MAX - 20)));
        if r.is_ok() {
            return Err("reserve(u32::MAX-20) on an unshared 26-byte string tendril was accepted".into());
        }
        if &*s != "abcdefghijklmnopqrstuvwxyz" {
            return Err("a refused reserve changed the tendril".into());
        }
        if a.as_ref() != b"0123456789" {
            return Err("a refused reserve changed the tendril".into());
        }
        Ok(())
    });
    step("with_capacity-then-fill", || {
        // capacity request of 2^31: allowed, length 0, usable
        let mut t = ByteTendril::with_capacity(HALF);
        if t.len32() != 0 {
            return Err("with_capacity gives a non-empty tendril".into());
        }
        t.push_slice(b"xyz");
        if t.as_ref() != b"xyz" {
            return Err("content after with_capacity".into());
        }
        Ok(())
    });
    out_line("DONE");
    0
}

/// Parent side: run the child and fold its report into `st` under `prefix` signatures.
pub fn run_child(st: &mut Stats) {
    let exe = match std::env::current_exe() {
        Ok(e) => e,
        Err(_) => {
            st.count("huge_scenarios_skipped");
            return;
        },
    };
    let out = match std::process::Command::new(exe).arg("HUGE-TENDRIL").env("VERIF_PLAIN_STDOUT", "1").output() {
        Ok(o) => o,
        Err(_) => {
            st.count("huge_scenarios_skipped");
            return;
        },
    };
    let so = String::from_utf8_lossy(&out.stdout).to_string();
    let se = String::from_utf8_lossy(&out.stderr).to_string();
    let mut last_step = String::new();
    let mut done = false;
    for l in so.lines() {
        if let Some(n) = l.strip_prefix("STEP ") {
            last_step = n.to_string();
        } else if l.starts_with("OK ") {
            st.count("huge_length_steps_ok");
            last_step.clear();
        } else if let Some(b) = l.strip_prefix("BAD ") {
            let name = b.split(' ').next().unwrap_or("").to_string();
            if b.contains("memory allocation") {
                st.count("huge_scenarios_skipped");
            } else {
                st.violation(&format!("huge:{name}"), &format!("2 GiB-scale length arithmetic: {b}"), json!({"kind": "huge", "step": name}));
            }
            last_step.clear();
        } else if l == "DONE" {
            done = true;
        }
    }
    if !done {
        use std::os::unix::process::ExitStatusExt;
        let sig = out.status.signal();
        if se.contains("memory allocation of") || sig == Some(9) {
            // could not get the address space (or was OOM-killed): nothing observed
            st.count("huge_scenarios_skipped");
        } else if !last_step.is_empty() && matches!(sig, Some(11) | Some(7) | Some(4) | Some(6)) {
            st.violation(
                &format!("huge:crash:{last_step}"),
                &format!("the process running 2 GiB-scale tendril operations was killed by signal {} in step {last_step} (stderr: {})", sig.unwrap_or(0), se.chars().take(300).collect::<String>()),
                json!({"kind": "huge", "step": last_step}),
            );
        } else {
            st.inconclusive(&format!("huge-length child ended without a report (status {:?}, step {last_step:?})", out.status));
        }
    }
}
