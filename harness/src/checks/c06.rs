//! C06 — a parsed document always has the canonical html/head/body skeleton (invariant at quiescence).

use super::common::*;
use super::parse_common::*;
use crate::drive::*;
use crate::gen;
use crate::prng::{hash_str, mix, Rng};
use crate::report::{catch, nthreads, par_run, Meta, Stats};
use crate::tree::{dump_html, from_rcdom, TData, TNode};
use crate::Args;
use html5ever::tendril::TendrilSink;
use markup5ever_rcdom::RcDom;
use serde_json::{json, Value};

fn is_ws(s: &str) -> bool {
    s.chars().all(|c| matches!(c, '\t' | '\n' | '\x0C' | '\r' | ' '))
}

/// Returns (rule, detail) for the first broken rule.
pub fn skeleton_violation(doc: &TNode, st: &mut Stats) -> Option<(&'static str, String)> {
    if doc.data != TData::Document {
        return Some(("root-not-document", "root is not a document".into()));
    }
    // document children
    let mut seen_doctype = 0;
    let mut seen_elem = 0;
    for c in &doc.children {
        match &c.data {
            TData::Comment(_) => {},
            TData::Doctype { .. } => {
                seen_doctype += 1;
                if seen_elem > 0 {
                    return Some(("doctype-after-element", "doctype after the html element".into()));
                }
            },
            TData::Element { .. } => {
                seen_elem += 1;
                if !c.is_html("html") {
                    return Some(("document-child-not-html", format!("document element child is {:?}", c.data)));
                }
            },
            TData::Text(t) => return Some(("text-under-document", format!("text {t:?} is a child of the document"))),
            other => return Some(("bad-document-child", format!("{other:?}"))),
        }
    }
    st.count("rule:document-children");
    if seen_doctype > 1 {
        return Some(("two-doctypes", format!("{seen_doctype} doctypes")));
    }
    if seen_elem != 1 {
        return Some(("html-element-count", format!("{seen_elem} element children of the document")));
    }
    let html = doc.children.iter().find(|c| c.is_element()).unwrap();
    // html's children
    let elems: Vec<&TNode> = html.children.iter().filter(|c| c.is_element()).collect();
    st.count("rule:html-children");
    if elems.is_empty() || !elems[0].is_html("head") {
        return Some(("head-not-first", format!("first element child of html is {:?}", elems.first().map(|e| &e.data))));
    }
    if elems.len() < 2 {
        return Some(("no-body-or-frameset", "html has only a head".into()));
    }
    if elems[1].is_html("body") {
        st.count("skeleton:body");
        if elems.len() > 2 {
            return Some(("extra-after-body", format!("element after body: {:?}", elems[2].data)));
        }
    } else if elems[1].is_html("frameset") {
        st.count("skeleton:frameset");
        for e in &elems[2..] {
            if !e.is_html("noframes") {
                // The WHATWG algorithm itself produces this shape for `<b><frameset></frameset></html> `:
                // the list of active formatting elements survives the frameset replacement and
                // "after after frameset" handles whitespace with the in-body rules (reconstruction).
                const FMT: &[&str] = &["a", "b", "big", "code", "em", "font", "i", "nobr", "s", "small", "strike", "strong", "tt", "u"];
                let is_fmt = FMT.iter().any(|f| e.is_html(f));
                let only_ws_text = e.children.iter().all(|c| matches!(&c.data, TData::Text(t) if is_ws(t)) || c.is_element());
                if is_fmt && only_ws_text {
                    return Some(("extra-after-frameset:reconstructed-formatting-element", format!("formatting element after frameset: {:?}", e.data)));
                }
                return Some(("extra-after-frameset", format!("element after frameset: {:?}", e.data)));
            }
            st.count("skeleton:frameset+noframes");
        }
    } else {
        return Some(("second-not-body-or-frameset", format!("{:?}", elems[1].data)));
    }
    for c in &html.children {
        if let TData::Text(t) = &c.data {
            st.count("rule:html-text-whitespace");
            if !is_ws(t) {
                return Some(("non-whitespace-under-html", format!("text {t:?} is a child of html")));
            }
        }
    }
    // whole tree: adjacency, emptiness, childless leaves
    let mut stack = vec![doc];
    let mut texts = 0u64;
    while let Some(n) = stack.pop() {
        let mut prev_text = false;
        for c in &n.children {
            let is_text = matches!(c.data, TData::Text(_));
            if is_text && prev_text {
                return Some(("adjacent-text", format!("two adjacent text nodes under {:?}", n.data)));
            }
            prev_text = is_text;
            if let TData::Text(t) = &c.data {
                texts += 1;
                if t.is_empty() {
                    return Some(("empty-text", format!("empty text node under {:?}", n.data)));
                }
            }
            stack.push(c);
        }
        if !n.children.is_empty() && !matches!(n.data, TData::Document | TData::Fragment | TData::Element { .. }) {
            return Some(("leaf-with-children", format!("{:?} has children", n.data)));
        }
        if let Some(c) = &n.contents {
            if !n.is_html("template") {
                return Some(("contents-on-non-template", format!("{:?}", n.data)));
            }
            stack.push(c);
        }
    }
    st.add("text_nodes_checked", texts);
    None
}

fn check(input: &str, cuts: &[usize], opts: &HtmlOpts, st: &mut Stats) {
    let chunks = split_at_chars(input, cuts);
    // abstract DOM
    if let Ok(r) = catch(|| run_html_parse(&chunks, opts, Gc::Off, false, &mut no_script)) {
        let t = r.sink.document_tree();
        st.case(if t.count_nodes() > 4 { Some(hash_str(&format!("{input}{}{cuts:?}", opts.scripting))) } else { None });
        if let Some((rule, d)) = skeleton_violation(&t, st) {
            st.violation(
                rule,
                &format!("input={} cuts={:?} scripting={}: {d}", show(input), &cuts[..cuts.len().min(6)], opts.scripting),
                json!({"input": input, "cuts": cuts, "scripting": opts.scripting, "tree": dump_html(&t)}),
            );
        }
        if st.samples.len() < 2 && t.count_nodes() > 8 {
            st.sample(json!({"input": input, "tree": dump_html(&t)}));
        }
    } else {
        st.count("run_panicked");
        st.violation("parse-panicked", &format!("input={} cuts={:?}: parse_document panicked, so there is no document skeleton", show(input), &cuts[..cuts.len().min(6)]), json!({"input": input, "cuts": cuts, "scripting": opts.scripting}));
    }
    // RcDom through the public driver
    let scripting = opts.scripting;
    let r = catch(|| {
        let mut po = html5ever::ParseOpts::default();
        po.tree_builder.scripting_enabled = scripting;
        let mut p = html5ever::parse_document(RcDom::default(), po);
        for c in &chunks {
            p.process(c.as_str().into());
        }
        p.finish()
    });
    if let Ok(dom) = r {
        let t = from_rcdom(&dom.document);
        st.count("rcdom_trees_checked");
        if let Some((rule, d)) = skeleton_violation(&t, st) {
            st.violation(
                &format!("rcdom:{rule}"),
                &format!("input={} cuts={:?} scripting={}: {d}", show(input), &cuts[..cuts.len().min(6)], scripting),
                json!({"input": input, "cuts": cuts, "scripting": scripting, "sink": "rcdom"}),
            );
        }
    }
}

pub fn run(args: &Args) -> (Meta, Stats) {
    if let Some(p) = &args.replay {
        let mut st = Stats::new();
        let v: Value = serde_json::from_str(&std::fs::read_to_string(p).unwrap_or_default()).unwrap_or(Value::Null);
        let cuts: Vec<usize> = v["cuts"].as_array().map(|a| a.iter().filter_map(|x| x.as_u64()).map(|x| x as usize).collect()).unwrap_or_default();
        let mut o = HtmlOpts::default();
        o.scripting = v["scripting"].as_bool().unwrap_or(true);
        check(v["input"].as_str().unwrap_or(""), &cuts, &o, &mut st);
        return (super::meta(args, "replay of one recorded case", &[]), st);
    }
    let seed = args.seed;
    let deadline = args.deadline();
    let st = par_run(nthreads(), |shard, _n, st| {
        let mut rng = Rng::new(mix(seed ^ 0xC06, shard as u64));
        let frames = [
            "<frameset>", "</frameset>", "<frame>", "<noframes>", "</noframes>", "</html>", "</body>", "<body>", "<html>", "<head>", "</head>", "<template>", "</template>", " ", "x", "<!-- c -->", "<!DOCTYPE html>", "<table>", "<p>", "\0", "<input type=hidden>", "<br>", "<script></script>", "<noscript>", "<title>", "<svg>", "<select>", "<b>",
        ];
        while !expired(deadline) {
            let input = if rng.chance(1, 4) {
                // skeleton-focused soup
                let k = rng.range(1, 10);
                (0..k).map(|_| rng.pick_s(&frames)).collect::<String>()
            } else {
                random_html_case(&mut rng, &[], &[], false).0
            };
            let mut opts = HtmlOpts::default();
            opts.scripting = rng.chance(1, 2);
            let n = input.chars().count();
            let cuts = if n <= 12 && rng.chance(1, 3) {
                // every 2-chunk split of short inputs
                for c in gen::two_chunk_cuts(n) {
                    check(&input, &c, &opts, st);
                }
                gen::one_char_cuts(n)
            } else {
                random_schedule(&mut rng, n)
            };
            check(&input, &cuts, &opts, st);
            st.count("documents");
        }
    });
    let mut m = super::meta(
        args,
        "parse_document over grammar documents, scenario templates (frameset replacement, template EOF unwinding, after-head re-entry, foster parenting, stray </html>/</body>), a skeleton-focused tag soup and markup soup, under random and exhaustive-2-chunk schedules and both scripting settings; the finished tree of the abstract DOM and of RcDom is walked by the skeleton checker. Non-trivial = more than the 4 skeleton nodes; distinct by hash of input+scripting+schedule.",
        &["'frameset optionally followed by noframes' is read as 'only noframes elements may follow frameset' (the spec itself yields several noframes for repeated tags)"],
    );
    m.require = vec![("skeleton:body".into(), 1000), ("skeleton:frameset".into(), 50), ("skeleton:frameset+noframes".into(), 5), ("rcdom_trees_checked".into(), 1000)];
    (m, st)
}
