//! C02 — the tree builder follows the WHATWG tree-construction algorithm (differential: the real
//! html5ever tree builder vs the independent reference model `model::reftree`).
//!
//! For every generated (input, options) the document tree built by html5ever (into the abstract
//! DOM `MSink`) and its final quirks mode are compared with the model's. A disagreement that a
//! named `Deviations` switch set of the model reproduces is reported under the signature
//! `dev:<names>`; anything else is `unexplained` (with replay file and minimised input).

use super::common::*;
use super::parse_common::*;
use crate::drive::*;
use crate::gen;
use crate::model::reftree::{self, reftree, Deviations, RefQuirks, RefTreeOpts, MODE_NAMES};
use crate::prng::{hash_str, mix, Rng};
use crate::report::{catch, nthreads, par_run, Meta, Stats};
use crate::tree::{dump_html, NS_HTML};
use crate::Args;
use html5ever::interface::QuirksMode;
use serde_json::{json, Value};

/// Element names kept out of the generated inputs (undecided or out-of-scope constructs).
///  * `selectedcontent`: cloning an option into it is a sink operation (MSink implements it), not
///    part of the tree-construction model.
pub const EXCLUDE: &[&str] = &["selectedcontent"];

/// Fragment contexts kept out of the workload (see the report of the C02 adjudication).
pub const EXCLUDE_CONTEXTS: &[(&str, &str)] = &[];

pub const MAX_INPUT_CHARS: usize = 400;

/// Vary the initial quirks-mode option for document (non-fragment) parses too.
pub const DOC_INITIAL_QUIRKS: bool = false;

fn to_ref_quirks(q: QuirksMode) -> RefQuirks {
    match q {
        QuirksMode::Quirks => RefQuirks::Quirks,
        QuirksMode::LimitedQuirks => RefQuirks::LimitedQuirks,
        QuirksMode::NoQuirks => RefQuirks::NoQuirks,
    }
}

pub fn to_ref_opts(o: &HtmlOpts) -> RefTreeOpts {
    RefTreeOpts {
        scripting: o.scripting,
        iframe_srcdoc: o.iframe_srcdoc,
        quirks: to_ref_quirks(o.quirks),
        context: o.context.clone(),
        context_allows_scripting: o.context_allows_scripting,
        discard_bom: o.tok.discard_bom,
        fragment_form: o.fragment_form && o.context.is_some(),
    }
}

fn opts_json(input: &str, o: &HtmlOpts) -> Value {
    json!({
        "input": input,
        "scripting": o.scripting,
        "iframe_srcdoc": o.iframe_srcdoc,
        "quirks": format!("{:?}", o.quirks),
        "context": o.context.as_ref().map(|c| json!({"ns": c.0, "local": c.1, "attrs": c.2.iter().map(|a| json!([a.0, a.1])).collect::<Vec<_>>()})),
        "context_allows_scripting": o.context_allows_scripting,
        "allow_shadow": o.allow_shadow,
        "discard_bom": o.tok.discard_bom,
        "fragment_form": o.fragment_form,
    })
}

fn opts_from_json(v: &Value) -> (String, HtmlOpts) {
    let mut o = HtmlOpts::default();
    o.scripting = v["scripting"].as_bool().unwrap_or(true);
    o.iframe_srcdoc = v["iframe_srcdoc"].as_bool().unwrap_or(false);
    o.quirks = match v["quirks"].as_str().unwrap_or("NoQuirks") {
        "Quirks" => QuirksMode::Quirks,
        "LimitedQuirks" => QuirksMode::LimitedQuirks,
        _ => QuirksMode::NoQuirks,
    };
    if let Some(c) = v["context"].as_object() {
        let attrs = c
            .get("attrs")
            .and_then(|a| a.as_array())
            .map(|a| a.iter().map(|p| (p[0].as_str().unwrap_or("").to_string(), p[1].as_str().unwrap_or("").to_string())).collect())
            .unwrap_or_default();
        o.context = Some((
            c.get("ns").and_then(|x| x.as_str()).unwrap_or(NS_HTML).to_string(),
            c.get("local").and_then(|x| x.as_str()).unwrap_or("div").to_string(),
            attrs,
        ));
    }
    o.context_allows_scripting = v["context_allows_scripting"].as_bool().unwrap_or(o.scripting);
    o.allow_shadow = v["allow_shadow"].as_bool().unwrap_or(false);
    o.tok.discard_bom = v["discard_bom"].as_bool().unwrap_or(true);
    o.fragment_form = v["fragment_form"].as_bool().unwrap_or(false);
    (v["input"].as_str().unwrap_or("").to_string(), o)
}

/// html5ever's result: (tree dump, final quirks mode). Err = the library panicked.
fn run_impl(input: &str, o: &HtmlOpts) -> Result<(String, RefQuirks), String> {
    let r = catch(|| run_html_parse(&[input.to_string()], o, Gc::Off, false, &mut no_script))?;
    let q = r.sink.quirks().unwrap_or(o.quirks);
    Ok((dump_html(&r.sink.document_tree()), to_ref_quirks(q)))
}

fn run_model(input: &str, ro: &RefTreeOpts, dev: &Deviations) -> (String, RefQuirks) {
    let out = reftree(input, ro, dev);
    (dump_html(&out.tree), out.quirks)
}

fn disagrees(input: &str, o: &HtmlOpts, dev: &Deviations) -> bool {
    match run_impl(input, o) {
        Ok(i) => i != run_model(input, &to_ref_opts(o), dev),
        Err(_) => false,
    }
}

/// Find a smallest set of deviation switches under which the model reproduces `want`.
fn explain(input: &str, ro: &RefTreeOpts, want: &(String, RefQuirks)) -> Option<Vec<&'static str>> {
    let names = Deviations::NAMES;
    for &a in names {
        let mut d = Deviations::default();
        d.set(a, true);
        if &run_model(input, ro, &d) == want {
            return Some(vec![a]);
        }
    }
    for (i, &a) in names.iter().enumerate() {
        for &b in &names[i + 1..] {
            let mut d = Deviations::default();
            d.set(a, true);
            d.set(b, true);
            if &run_model(input, ro, &d) == want {
                return Some(vec![a, b]);
            }
        }
    }
    // everything on, then drop what is not needed
    let mut d = Deviations::default();
    for &a in names {
        d.set(a, true);
    }
    if &run_model(input, ro, &d) != want {
        return None;
    }
    let mut on: Vec<&'static str> = names.to_vec();
    for &a in names {
        let mut d2 = Deviations::default();
        for &b in on.iter().filter(|&&b| b != a) {
            d2.set(b, true);
        }
        if &run_model(input, ro, &d2) == want {
            on.retain(|&b| b != a);
        }
    }
    Some(on)
}

pub fn check_case(input: &str, o: &HtmlOpts, st: &mut Stats, merge_cov: bool) {
    let imp = match run_impl(input, o) {
        Ok(i) => i,
        Err(m) => {
            // the implementation delivered no DOM where the algorithm defines one
            st.count("impl_panicked");
            st.observe("impl_panics", &crate::report::panic_signature(&m));
            st.case(Some(crate::prng::hash_str(input)));
            st.violation(&format!("impl-panic:{}", crate::report::panic_signature(&m)), &format!("input={}: html5ever panicked: {m}", show(input)), json!({"input": input, "opts": super::c03::html_opts_json(o)}));
            return;
        },
    };
    let ro = to_ref_opts(o);
    let out = reftree(input, &ro, &Deviations::default());
    let model = (dump_html(&out.tree), out.quirks);
    let nodes = out.tree.count_nodes();
    st.case(if nodes > 4 { Some(hash_str(&format!("{input}\u{1}{}", o.describe()))) } else { None });
    st.max("max_tree_nodes", nodes as u64);
    if merge_cov {
        let mut seen_modes = [false; MODE_NAMES.len()];
        for (k, v) in &out.coverage {
            st.add(&format!("model:{k}"), *v);
            if let Some(rest) = k.strip_prefix("mode:(") {
                if let Some(m) = rest.split(',').next() {
                    if let Some(i) = MODE_NAMES.iter().position(|x| *x == m) {
                        seen_modes[i] = true;
                    }
                }
            }
            if k.starts_with("adoption-agency:outer-iterations>=") {
                let n: u64 = k.rsplit('=').next().and_then(|x| x.parse().ok()).unwrap_or(0);
                st.max("adoption_agency_max_outer_iterations", n);
            }
            if k.starts_with("foster-parent:") {
                st.add("foster_parent_insertions", *v);
            }
        }
        for (i, s) in seen_modes.iter().enumerate() {
            if *s {
                st.count(&format!("cases_reaching_mode:{}", MODE_NAMES[i]));
            }
        }
    }
    match &o.context {
        None => st.count("kind:document"),
        Some(c) => {
            st.count("kind:fragment");
            if o.fragment_form {
                st.count("kind:fragment-with-form-element-pointer");
            }
            st.observe("fragment_contexts", &format!("{}:{}", short_ns(&c.0), c.1));
        },
    }
    if o.iframe_srcdoc {
        st.count("opt:iframe_srcdoc");
    }
    if !o.scripting {
        st.count("opt:scripting_off");
    }
    if o.quirks != QuirksMode::NoQuirks {
        st.count("opt:initial_quirks");
    }
    st.observe("final_quirks", &format!("{:?}", model.1));
    if imp == model {
        st.count("agree");
        if st.samples.len() < 3 && nodes > 10 {
            st.sample(json!({"input": input, "opts": o.describe(), "tree": model.0}));
        }
        return;
    }
    // disagreement
    st.count("disagree");
    let explained = explain(input, &ro, &imp);
    let (sig, dev_set) = match &explained {
        Some(names) => {
            let mut d = Deviations::default();
            for n in names {
                d.set(n, true);
            }
            (format!("dev:{}", names.join("+")), d)
        },
        None => ("unexplained".to_string(), Deviations::default()),
    };
    st.count(&format!("sig:{sig}"));
    // one signature per switch (a case that needs several switches is reported under each)
    let sigs: Vec<String> = match &explained {
        Some(names) => names.iter().map(|n| format!("dev:{n}")).collect(),
        None => vec![sig.clone()],
    };
    for s in &sigs {
        st.count(&format!("by_switch:{s}"));
    }
    // minimising is the expensive part: do it only while the signature is still rare in this shard
    if explained.is_some() && sigs.iter().all(|s| st.counters.get(&format!("by_switch:{s}")).copied().unwrap_or(0) > 2) {
        return;
    }
    // minimise (bounded): still disagrees with the spec model, and (when explained) still agrees
    // with the model under the same deviation set
    let is_explained = explained.is_some();
    let mut pred = |s: &str| -> bool {
        if !disagrees(s, o, &Deviations::default()) {
            return false;
        }
        if is_explained {
            !disagrees(s, o, &dev_set)
        } else {
            // stay unexplained while shrinking
            match run_impl(s, o) {
                Ok(i) => explain(s, &ro, &i).is_none(),
                Err(_) => false,
            }
        }
    };
    let min = minimize_str(input, &mut pred, 400);
    let imp_min = run_impl(&min, o).unwrap_or_default_pair();
    let model_min = run_model(&min, &ro, &Deviations::default());
    let what = if imp_min.1 != model_min.1 && imp_min.0 == model_min.0 {
        format!("quirks mode: impl {:?} vs model {:?}", imp_min.1, model_min.1)
    } else {
        format!("tree differs at {}", dump_diff(&imp_min.0, &model_min.0))
    };
    let mut replay = opts_json(input, o);
    if let Value::Object(m) = &mut replay {
        m.insert("minimised".into(), json!(min));
        m.insert("impl_tree_min".into(), json!(imp_min.0));
        m.insert("model_tree_min".into(), json!(model_min.0));
        m.insert("impl_quirks_min".into(), json!(format!("{:?}", imp_min.1)));
        m.insert("model_quirks_min".into(), json!(format!("{:?}", model_min.1)));
    }
    if !is_explained {
        st.observe("unexplained_minimised", &format!("{} [{}]", show(&min), short_opts(o)));
    }
    for s in &sigs {
        st.violation(s, &format!("min={} [{}] {what} (impl vs model){}", show(&min), short_opts(o), if sigs.len() > 1 { format!(" needs {sig}") } else { String::new() }), replay.clone());
    }
}

fn short_opts(o: &HtmlOpts) -> String {
    format!(
        "ctx={} scr={} srcdoc={} q={:?}",
        o.context.as_ref().map(|c| format!("{}:{}{}", short_ns(&c.0), c.1, if c.2.is_empty() { String::new() } else { format!("{:?}", c.2) })).unwrap_or_else(|| "-".into()),
        o.scripting as u8,
        o.iframe_srcdoc as u8,
        o.quirks
    )
}

/// Constructs whose specification text the model's author is not certain of: such cases are
/// skipped (recorded as undecided in the C02 report) instead of being compared.
pub fn undecided(input: &str, o: &HtmlOpts) -> Option<&'static str> {
    if let Some(c) = &o.context {
        if c.0 == NS_HTML && c.1 == "select" && input.to_ascii_lowercase().contains("<input") {
            return Some("input start tag in a select fragment context");
        }
    }
    None
}

trait OrDefaultPair {
    fn unwrap_or_default_pair(self) -> (String, RefQuirks);
}
impl OrDefaultPair for Result<(String, RefQuirks), String> {
    fn unwrap_or_default_pair(self) -> (String, RefQuirks) {
        self.unwrap_or_else(|m| (format!("<panic: {m}>"), RefQuirks::NoQuirks))
    }
}

fn truncate_chars(s: String, n: usize) -> String {
    if s.chars().count() <= n {
        s
    } else {
        s.chars().take(n).collect()
    }
}

/// C02-specific focused generator: short tag soups over a small vocabulary that reaches the
/// mechanisms the rule names (adoption agency, foster parenting, templates, foreign content).
fn focused_soup(rng: &mut Rng) -> String {
    const SETS: &[&[&str]] = &[
        &["<a>", "<b>", "<i>", "<nobr>", "<p>", "<div>", "</a>", "</b>", "</i>", "</nobr>", "</p>", "</div>", "x", " ", "<table>", "<td>", "</table>", "<button>", "<li>", "<a href=#>", "<b id=a>", "<font size=1>", "</font>"],
        &["<table>", "<tr>", "<td>", "<th>", "<tbody>", "<caption>", "<colgroup>", "<col>", "</table>", "</tr>", "</td>", "</tbody>", "</caption>", "</colgroup>", "x", " ", "<b>", "</b>", "<input type=hidden>", "<input>", "<form>", "</form>", "<script>", "</script>", "<style>", "</style>", "<template>", "</template>", "<!-- c -->", "\0", "<select>", "<a>", "<p>", "<tfoot>", "<thead>", "</thead>"],
        &["<template>", "</template>", "<tr>", "<td>", "<col>", "<div>", "x", " ", "<table>", "</table>", "<caption>", "<tbody>", "<html a=b>", "<body c=d>", "<frameset>", "<head>", "</head>", "<title>", "</title>", "<b>", "</b>", "</body>", "</html>"],
        &["<svg>", "<math>", "</svg>", "</math>", "<mi>", "<mo>", "<mtext>", "<annotation-xml>", "<annotation-xml encoding=text/html>", "<foreignObject>", "<desc>", "<title>", "</title>", "<p>", "</p>", "<b>", "</b>", "<font>", "<font color=red>", "<mglyph>", "<malignmark>", "x", " ", "\0", "<![CDATA[x]]>", "<br>", "</br>", "<table>", "<td>", "<script>", "</script>", "<path/>", "<g>", "</g>", "<svg/>", "<div>", "</div>", "<a>", "</a>", "<li>", "</mi>", "</annotation-xml>", "</foreignObject>", "</desc>", "<clippath>", "<image>", "<textarea>", "<!-- c -->"],
        &["<html>", "<head>", "<body>", "</html>", "</head>", "</body>", "<frameset>", "</frameset>", "<frame>", "<noframes>", "</noframes>", "x", " ", "<!-- c -->", "<!DOCTYPE html>", "<meta>", "<title>", "</title>", "<script>", "</script>", "<noscript>", "</noscript>", "<link>", "<style>", "</style>", "<base>", "<br>", "</br>", "<p>", "</p>", "<template>", "</template>", "<input type=hidden>", "\0", "\n"],
        &["<select>", "</select>", "<option>", "</option>", "<optgroup>", "</optgroup>", "<hr>", "<input>", "<keygen>", "<textarea>", "</textarea>", "<button>", "</button>", "<div>", "</div>", "<b>", "</b>", "<p>", "x", " ", "<table>", "<tr>", "<td>", "</table>", "<caption>", "<script>", "</script>", "<template>", "</template>", "<svg>", "<li>", "<datalist>", "<span>", "<a>"],
        &["<ul>", "<ol>", "<li>", "<dl>", "<dd>", "<dt>", "</li>", "</dd>", "</dt>", "</ul>", "<p>", "</p>", "<div>", "<address>", "<h1>", "<h2>", "</h1>", "</h3>", "<pre>", "\n", "<listing>", "<form>", "</form>", "<button>", "</button>", "<ruby>", "<rb>", "<rt>", "<rtc>", "<rp>", "</ruby>", "<b>", "</b>", "x", " ", "<plaintext>", "<xmp>", "</xmp>", "<iframe>", "</iframe>", "<noembed>", "</noembed>", "<applet>", "<marquee>", "<object>", "</object>", "</marquee>", "<image>", "<hr>", "<wbr>", "<details>", "<summary>", "<dialog>", "<search>", "<main>", "<center>", "<menu>"],
    ];
    let set = *rng.pick(SETS);
    let k = rng.range(1, 14);
    let mut s = String::new();
    if rng.chance(1, 6) {
        s.push_str(rng.pick_s(gen::QUIRKS_DOCTYPES));
    }
    for _ in 0..k {
        s.push_str(rng.pick_s(set));
    }
    s
}

fn random_opts(rng: &mut Rng, contexts: &[Ctx]) -> HtmlOpts {
    let mut o = HtmlOpts::default();
    o.scripting = rng.chance(1, 2);
    o.context_allows_scripting = o.scripting;
    if rng.chance(1, 3) {
        o.context = Some(rng.pick(contexts).clone());
        if rng.chance(1, 8) {
            o.context_allows_scripting = !o.scripting;
        }
        o.fragment_form = rng.chance(1, 4);
    }
    o.iframe_srcdoc = rng.chance(1, 6);
    // The initial-mode option of a *document* parse is outside the specification's domain
    // (a Document starts in no-quirks mode); it is varied for fragments only, where it stands for
    // the mode of the context element's node document.
    if (o.context.is_some() || DOC_INITIAL_QUIRKS) && rng.chance(1, 3) {
        o.quirks = *rng.pick(&[QuirksMode::Quirks, QuirksMode::LimitedQuirks]);
    }
    o
}

pub fn contexts() -> Vec<Ctx> {
    gen::fragment_contexts()
        .into_iter()
        .filter(|c| {
            let ns = short_ns(&c.0).to_string();
            !EXCLUDE_CONTEXTS.iter().any(|(n, l)| *n == ns && *l == c.1)
        })
        .collect()
}

/// Every row of the quirks-mode tables of the "initial" insertion mode (the 55 public-identifier
/// prefixes, the three exact public identifiers, the system identifier, the two HTML 4.01 and the two
/// XHTML 1.0 prefixes), each in nine shapes: as is, continued, upper-cased, lower-cased and continued,
/// one character short, with a leading space, with a system identifier, under another name, and as a
/// SYSTEM identifier; the first shape also in an iframe srcdoc document. A single wrong row of the
/// table in html5ever (a typo, a missing entry, prefix vs exact match, case) differs from the model here.
fn doctype_matrix() -> Vec<(String, bool)> {
    let mut ids: Vec<String> = crate::model::reftree::QUIRKY_PUBLIC_PREFIXES.iter().map(|s| s.to_string()).collect();
    for s in [
        "-//W3O//DTD W3 HTML Strict 3.0//EN//",
        "-/W3C/DTD HTML 4.0 Transitional/EN",
        "HTML",
        "http://www.ibm.com/data/dtd/v11/ibmxhtml1-transitional.dtd",
        "-//W3C//DTD HTML 4.01 Frameset//",
        "-//W3C//DTD HTML 4.01 Transitional//",
        "-//W3C//DTD XHTML 1.0 Frameset//",
        "-//W3C//DTD XHTML 1.0 Transitional//",
        "-//W3C//DTD HTML 4.01//",
        "-//W3C//DTD XHTML 1.0 Strict//",
        "-//W3C//DTD XHTML 1.1//",
        "",
    ] {
        ids.push(s.to_string());
    }
    let mut v = vec![];
    for p in &ids {
        let short: String = {
            let mut c: Vec<char> = p.chars().collect();
            c.pop();
            c.into_iter().collect()
        };
        v.push((format!("<!DOCTYPE html PUBLIC \"{p}\">x"), false));
        v.push((format!("<!DOCTYPE html PUBLIC \"{p}\">x"), true));
        v.push((format!("<!DOCTYPE html PUBLIC \"{p}EN\">x"), false));
        v.push((format!("<!DOCTYPE html PUBLIC \"{}\">x", p.to_uppercase()), false));
        v.push((format!("<!DOCTYPE html PUBLIC \"{}zz\">x", p.to_lowercase()), false));
        v.push((format!("<!DOCTYPE html PUBLIC \"{short}\">x"), false));
        v.push((format!("<!DOCTYPE html PUBLIC \" {p}\">x"), false));
        v.push((format!("<!DOCTYPE html PUBLIC \"{p}\" \"s\">x"), false));
        v.push((format!("<!DOCTYPE html PUBLIC \"{p}\" \"\">x"), false));
        v.push((format!("<!DOCTYPE htm PUBLIC \"{p}\">x"), false));
        v.push((format!("<!DOCTYPE html SYSTEM \"{p}\">x"), false));
        v.push((format!("<!DOCTYPE html PUBLIC \"x\" \"{p}\">x"), false));
        v.push((format!("<!doctype HTML public '{p}'><p>"), false));
    }
    v
}

/// One input per row of the remaining tables of the tree builder.
fn table_matrix() -> Vec<String> {
    let mut v = vec![];
    for a in crate::model::reftree::SVG_ATTRS {
        let l = a.to_ascii_lowercase();
        v.push(format!("<svg {l}=1 {l}x=2><g {l}=3 /><foreignObject><p {l}=4></foreignObject></svg><math {l}=5><mi {l}=6></mi></math><div {l}=7>"));
    }
    for t in crate::model::reftree::SVG_TAGS {
        let l = t.to_ascii_lowercase();
        v.push(format!("<svg><{l} a=1>t</{l}><{l}x/><{l}/></svg><math><{l}>u</{l}></math><div><{l}>v</{l}></div>"));
        v.push(format!("<svg><{t}>t</{t}></svg>"));
    }
    for a in ["xlink:actuate", "xlink:arcrole", "xlink:href", "xlink:role", "xlink:show", "xlink:title", "xlink:type", "xml:lang", "xml:space", "xmlns", "xmlns:xlink", "xlink:hrefx", "xlink:", "xlink", "xml:base", "xml:id", "xmlns:foo", "xmlns:", "xml:", "xlink:label", "xlink:from", "xlink:to"] {
        v.push(format!("<svg {a}=1><g {a}=2 /></svg><math {a}=3><mi {a}=4></mi></math><p {a}=5>"));
        v.push(format!("<svg {}=1>", a.to_uppercase()));
    }
    for (el, a) in [("math", "definitionurl"), ("mi", "definitionurl"), ("svg", "definitionurl"), ("annotation-xml", "encoding"), ("math", "DEFINITIONURL")] {
        v.push(format!("<math><{el} {a}=u>x</{el}></math><svg><{el} {a}=u>y"));
    }
    // break-out tags of foreign content (and their neighbours)
    for t in [
        "b", "big", "blockquote", "body", "br", "center", "code", "dd", "div", "dl", "dt", "em", "embed", "h1", "h2", "h3", "h4", "h5", "h6", "head", "hr", "i", "img", "li", "listing", "menu", "meta", "nobr", "ol", "p", "pre", "ruby", "s",
        "small", "span", "strong", "strike", "sub", "sup", "table", "tt", "u", "ul", "var", "a", "abbr", "address", "font", "form", "html", "input", "title", "script", "style", "template", "svg", "math", "q", "cite", "label", "button", "select", "textarea", "iframe", "object", "video",
    ] {
        v.push(format!("<svg><g><{t}>x</{t}>y</g>z</svg>w"));
        v.push(format!("<math><mi><{t}>x</mi><mo><{t}>y"));
        v.push(format!("<svg><desc><{t}>x</desc><{t}>y"));
    }
    for a in ["color", "face", "size", "COLOR", "colour", "style", "sizes", ""] {
        v.push(format!("<svg><font {a}=1>x</font>y</svg><math><font {a}>z"));
    }
    // scope boundaries inside foreign content (MathML text integration points, annotation-xml, SVG
    // foreignObject / desc / title) against each kind of scope
    for (open, close) in [("<math><mi>", "</mi></math>"), ("<math><mo>", "</mo></math>"), ("<math><mn>", "</mn></math>"), ("<math><ms>", "</ms></math>"), ("<math><mtext>", "</mtext></math>"), ("<math><annotation-xml>", "</annotation-xml></math>"), ("<math><annotation-xml encoding=text/html>", "</annotation-xml></math>"), ("<math><annotation-xml encoding='application/xhtml+xml'>", "</annotation-xml></math>"), ("<svg><foreignObject>", "</foreignObject></svg>"), ("<svg><desc>", "</desc></svg>"), ("<svg><title>", "</title></svg>"), ("<svg><g>", "</g></svg>"), ("<math><mrow>", "</mrow></math>")] {
        for (outer, inner) in [("<p>", "<p>"), ("<button>", "<button>"), ("<ul><li>", "<li>"), ("<table><tr><td>", "<td>"), ("<a>", "<a>"), ("<nobr>", "<nobr>"), ("<h1>", "</h1>"), ("<dl><dd>", "<dt>"), ("<form>", "</form>"), ("<b>", "</b>"), ("<select>", "<option>")] {
            v.push(format!("{outer}a{open}{inner}b{close}c"));
        }
    }
    // every known element name in the contexts that consult the element-category tables
    let mut names = gen::all_html_names();
    names.sort();
    names.dedup();
    for n in names {
        if EXCLUDE.contains(&n) {
            continue;
        }
        v.push(format!("<p>a<{n}>b</p>c"));
        v.push(format!("<button>a<{n}>b</button>c<button>d"));
        v.push(format!("<ul><li>a<{n}>b<li>c</ul><dl><dd><{n}><dt>x"));
        v.push(format!("<table><{n}>a<tr><td><{n}>b</table>c"));
        v.push(format!("<select><{n}>a</select>b"));
        v.push(format!("<b><i>a<{n}>b</b>c</i>d</{n}>e"));
        v.push(format!("<{n}>a</{n}>b<{n}/>c</{n}>"));
        v.push(format!("<a>x<{n}><a>y"));
        v.push(format!("<h1>a<{n}>b<h2>c"));
        v.push(format!("<template><{n}>a</template>b"));
        v.push(format!("<svg><{n}>a</{n}>b</svg>c"));
    }
    v
}

pub fn run(args: &Args) -> (Meta, Stats) {
    if let Some(p) = &args.replay {
        let mut st = Stats::new();
        let v: Value = serde_json::from_str(&std::fs::read_to_string(p).unwrap_or_default()).unwrap_or(Value::Null);
        let (input, o) = opts_from_json(&v);
        check_case(&input, &o, &mut st, true);
        if let Some(min) = v["minimised"].as_str() {
            check_case(min, &o, &mut st, true);
        }
        return (super::meta(args, "replay of one recorded case", &[]), st);
    }
    // debugging aid: `vharness C02 --show <input> [<options-json>]` prints both trees
    if args.rest.first().map(|s| s.as_str()) == Some("--show") {
        let input = args.rest.get(1).cloned().unwrap_or_default();
        let v: Value = args.rest.get(2).and_then(|s| serde_json::from_str(s).ok()).unwrap_or(json!({}));
        let (_, o) = opts_from_json(&v);
        let imp = run_impl(&input, &o).unwrap_or_default_pair();
        let mut d = Deviations::default();
        if let Some(names) = v["dev"].as_array() {
            for n in names {
                d.set(n.as_str().unwrap_or(""), true);
            }
        }
        let model = run_model(&input, &to_ref_opts(&o), &d);
        crate::report::out_line(&format!("input {input:?} [{}]\n--- impl ({:?})\n{}--- model ({:?})\n{}{}", short_opts(&o), imp.1, imp.0, model.1, model.0, if imp == model { "SAME" } else { "DIFFERENT" }));
        let mut st = Stats::new();
        st.case(None);
        return (super::meta(args, "show one case", &[]), st);
    }
    // tool mode: `vharness C02 --fill-vectors in.json out.json` writes the model's dump as the
    // "expected" of every case that has none (used once to draft /verif/vectors/tree_vectors.json,
    // whose expectations were then reviewed by hand) and reports where html5ever differs
    if args.rest.first().map(|s| s.as_str()) == Some("--fill-vectors") {
        let text = std::fs::read_to_string(&args.rest[1]).unwrap_or_default();
        let mut doc: Value = serde_json::from_str(&text).unwrap_or(json!({"tests": []}));
        let mut st = Stats::new();
        if let Some(tests) = doc["tests"].as_array_mut() {
            for t in tests.iter_mut() {
                let ro = reftree::vector_opts(t).expect("bad vector options");
                let input = t["input"].as_str().unwrap_or("").to_string();
                let out = reftree(&input, &ro, &Deviations::default());
                let dump = dump_html(&out.tree);
                let mut o = HtmlOpts::default();
                o.scripting = ro.scripting;
                o.context_allows_scripting = ro.context_allows_scripting;
                o.iframe_srcdoc = ro.iframe_srcdoc;
                o.context = ro.context.clone();
                o.quirks = match ro.quirks {
                    RefQuirks::Quirks => QuirksMode::Quirks,
                    RefQuirks::LimitedQuirks => QuirksMode::LimitedQuirks,
                    RefQuirks::NoQuirks => QuirksMode::NoQuirks,
                };
                let imp = run_impl(&input, &o).unwrap_or_default_pair();
                if imp != (dump.clone(), out.quirks) {
                    crate::report::out_line(&format!("html5ever differs on {:?}: {}", t["description"], dump_diff(&imp.0, &dump)));
                }
                if t.get("expected").is_none() {
                    t["expected"] = json!(dump);
                }
                st.case(None);
            }
        }
        let _ = std::fs::write(&args.rest[2], serde_json::to_string_pretty(&doc).unwrap());
        return (super::meta(args, "fill vectors", &[]), st);
    }
    // the DOCTYPE tables, row by row
    let mut doctypes = doctype_matrix();
    // ... and the other tables: foreign attribute / tag-name adjustments, break-out tags, and every
    // known element name in the contexts whose behaviour depends on the element-category tables
    doctypes.extend(table_matrix().into_iter().map(|s| (s, false)));
    // known-answer vectors of the model first
    let vec_path = args.root.join("vectors").join("tree_vectors.json");
    let vectors = reftree::check_vectors(&vec_path.to_string_lossy());
    let seed = args.seed;
    let deadline = args.deadline();
    let ctxs = contexts();
    let mut st = par_run(nthreads(), |shard, nshards, st| {
        let mut rng = Rng::new(mix(seed ^ 0xC02, shard as u64));
        // systematic part: every scenario-ish input under every context x scripting (sharded)
        let all_ctx: Vec<Option<Ctx>> = std::iter::once(None).chain(ctxs.iter().cloned().map(Some)).collect();
        let mut k = 0usize;
        for (i, (input, srcdoc)) in doctypes.iter().enumerate() {
            if i % nshards == shard {
                let mut o = HtmlOpts::default();
                o.iframe_srcdoc = *srcdoc;
                check_case(input, &o, st, false);
                st.count("doctype_matrix_cases");
            }
        }
        while !expired(deadline) {
            let (input, mut o) = match rng.below(10) {
                0..=3 => {
                    let (i, _) = random_html_case(&mut rng, &ctxs, EXCLUDE, false);
                    (i, random_opts(&mut rng, &ctxs))
                },
                4..=6 => (focused_soup(&mut rng), random_opts(&mut rng, &ctxs)),
                7 => {
                    let s = gen::scenario(&mut rng);
                    let s = if rng.chance(1, 2) { gen::mutate(&mut rng, &s) } else { s };
                    let mut s2 = s;
                    for e in EXCLUDE {
                        s2 = s2.replace(&format!("<{e}"), "<div").replace(&format!("</{e}"), "</div");
                    }
                    (s2, random_opts(&mut rng, &ctxs))
                },
                8 => {
                    // every context in turn (systematic sweep over contexts x scripting x srcdoc x quirks)
                    let idx = (k * nshards + shard) % (all_ctx.len() * 2 * 2 * 3);
                    k += 1;
                    let mut o = HtmlOpts::default();
                    o.context = all_ctx[idx % all_ctx.len()].clone();
                    let r = idx / all_ctx.len();
                    o.scripting = r % 2 == 0;
                    o.context_allows_scripting = o.scripting;
                    o.iframe_srcdoc = (r / 2) % 2 == 1;
                    if o.context.is_some() || DOC_INITIAL_QUIRKS {
                        o.quirks = [QuirksMode::NoQuirks, QuirksMode::LimitedQuirks, QuirksMode::Quirks][(r / 4) % 3];
                    }
                    let input = if rng.chance(1, 2) { focused_soup(&mut rng) } else { gen::html_doc(&mut rng, EXCLUDE, 14) };
                    (input, o)
                },
                _ => {
                    let d = rng.pick_s(gen::QUIRKS_DOCTYPES).to_string();
                    let d = if rng.chance(1, 4) { gen::random_case(&mut rng, &d) } else { d };
                    let tail = if rng.chance(1, 2) { focused_soup(&mut rng) } else { String::new() };
                    let lead = *rng.pick(&["", "", " ", "<!-- c -->", "\n"]);
                    (format!("{lead}{d}{tail}"), random_opts(&mut rng, &ctxs))
                },
            };
            // (a parse error between <pre>/<listing>/<textarea> and a following LF used to cancel the
            // "ignore a leading LF" step in html5ever; repaired by a fix: commit, so "</>" and "&#" stay in)
            let input = truncate_chars(input, MAX_INPUT_CHARS);
            if input.contains("selectedcontent") {
                continue;
            }
            o.tok.discard_bom = true;
            if let Some(why) = undecided(&input, &o) {
                st.count(&format!("skipped_undecided:{why}"));
                continue;
            }
            check_case(&input, &o, st, true);
        }
    });
    match &vectors {
        Ok(n) => st.add("model_vectors_passed", *n as u64),
        Err(e) => st.inconclusive(&format!("reference-model known-answer vectors failed: {e}")),
    }
    let mut m = super::meta(
        args,
        "One-piece parse of grammar documents, scenario templates, mutations, focused tag soups, a DOCTYPE sweep and the complete DOCTYPE table matrix (every public-identifier prefix / exact identifier / system identifier of the quirks and limited-quirks tables x 13 shapes) and a matrix with one input per row of the other tables (58 SVG attribute and 37 SVG tag-name adjustments, foreign attribute adjustments and near misses, MathML definitionURL, 65 break-out candidates in three foreign contexts, font attributes, and every known element name in eleven contexts that consult the special / scope / implied-end-tag categories), as documents and under every fragment context x scripting x iframe_srcdoc x initial quirks mode, by html5ever (into the abstract DOM) and by the independent reference tree builder driven by the reference tokenizer; the dump of the document tree (namespaces, adjusted attributes, template contents, duplicate-attribute flag) and the final quirks mode must be equal. Non-trivial = model tree has more than 4 nodes; distinct by hash of input+options.",
        &[
            "scripts never run (no document.write, no re-entrancy); allow_declarative_shadow_roots = false",
            "the fragment context element is parentless and no form element is passed (html5ever's parse_fragment API)",
            "selectedcontent is out of the vocabulary (option cloning is a sink operation)",
            "the initial quirks-mode option is varied for fragment parses only (for a document parse it is outside the specification's domain: html5ever assigns NoQuirks on a non-quirky DOCTYPE, the specification never resets the mode)",
            "undecided constructs are skipped: an input start tag in a select fragment context (counter skipped_undecided:*)",
            "the duplicate-attribute flag of a </br> end tag is kept on the br element it creates (model choice; the HTML Standard has no such flag)",
            "the reference model was written from memory of the WHATWG text (no spec copy offline); clauses marked SPEC-UNSURE in reftree.rs",
        ],
    );
    let mut req: Vec<(String, u64)> = vec![
        ("agree".into(), 5000),
        ("kind:fragment".into(), 500),
        ("kind:document".into(), 1000),
        ("opt:iframe_srcdoc".into(), 100),
        ("opt:scripting_off".into(), 500),
        ("opt:initial_quirks".into(), 100),
        ("foster_parent_insertions".into(), 200),
        ("adoption_agency_max_outer_iterations".into(), 4),
        ("model:noahs-ark-removal".into(), 5),
        ("model:foreign-break-out".into(), 50),
        ("model:in-template:eof-unwind".into(), 20),
        ("model:frameset-replaces-body".into(), 5),
        ("model:doctype:quirks".into(), 50),
        ("model:doctype:limited-quirks".into(), 20),
        ("model:doctype:no-quirks".into(), 50),
        ("model_vectors_passed".into(), 150),
        ("fragment_contexts".into(), 40),
        ("doctype_matrix_cases".into(), 2800),
    ];
    for m in MODE_NAMES {
        req.push((format!("cases_reaching_mode:{m}"), 20));
    }
    m.require = req;
    m.extra.insert("model_vectors".into(), json!(match &vectors { Ok(n) => format!("{n} passed"), Err(e) => format!("FAILED: {e}") }));
    m.extra.insert("deviation_switches".into(), json!(Deviations::NAMES));
    m.extra.insert("excluded_vocabulary".into(), json!(EXCLUDE));
    (m, st)
}
