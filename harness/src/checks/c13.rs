//! C13 — BufferQueue behaves as one flat character stream (history vs String model).

use super::common::*;
use crate::prng::{mix, Rng};
use crate::report::{catch, nthreads, par_run, Meta, Stats};
use crate::{Args, Tier};
use markup5ever::buffer_queue::{BufferQueue, SetResult};
use markup5ever::SmallCharSet;
use serde_json::json;
use std::collections::VecDeque;
use tendril::StrTendril;

const PIECES: &[&str] = &["", "a", "b", "<", "&", "\r", "\n", "\0", " ", "\t", "!", "-", "--", "é", "日本", "\u{10ffff}", "ab", "doctype", "DOC", "TYPE", "public", "PUB", "LIC", "[CDATA[", "[CD", "ATA[", "xyz", "0123456789", "<!--", ">", "=", "\"", "'", "abcdefghijklmnopqrstuvwxyz"];
const PATTERNS: &[&str] = &["--", "doctype", "public", "system", "[CDATA[", "a", "ab", "<!--", "DOCTYPE", "x", "0123", "-"];

/// multi-byte characters whose encodings end in / contain the extreme continuation bytes 0x80 and
/// 0xBF and every lead-byte class, to sit directly in front of set members
const EDGE_CHARS: &[char] = &['\u{80}', '\u{bf}', '\u{c0}', '\u{ff}', '\u{13f}', '\u{7ff}', '\u{800}', '\u{fff}', '\u{ffff}', '\u{10000}', '\u{3ffff}', '\u{10ffff}', '\u{7f}', '@', 'A', 'z', '~'];

/// a piece over the whole alphabet: every character below 64 (all possible set members), letters,
/// and the edge characters above; up to 40 characters so that word-sized scanning has blocks to skip
fn rand_piece(rng: &mut Rng) -> String {
    if !cfg!(miri) && rng.chance(1, 400) {
        // one very long buffer (beyond 2^16 bytes), plain or with a multi-byte character across the 2^16 mark
        let n = *rng.pick(&[65535usize, 65536, 65537, 70000, 131073]);
        let mut s = "a".repeat(n);
        match rng.below(3) {
            0 => s.push_str("é?<"),
            1 => s.insert(65535, 'é'),
            _ => {},
        }
        return s;
    }
    let n = match rng.below(4) {
        0 => rng.range(1, 3),
        1 => rng.range(7, 10),
        _ => rng.range(1, 40),
    };
    let mut s = String::new();
    let dense = rng.chance(1, 2);
    for _ in 0..n {
        match rng.below(if dense { 4 } else { 9 }) {
            0 => s.push(char::from_u32(rng.below(64) as u32).unwrap()),
            1 => s.push(*rng.pick(EDGE_CHARS)),
            3 => {
                // a character above U+00FF whose low byte (or low 6 bits) is the code of a possible set
                // member: U+2026 -> '&', U+4E0A -> LF, U+0100 / U+1F600 -> NUL, ... (a scanner that
                // truncates scalar values would take it for a member)
                let hi = *rng.pick(&[0x1u32, 0x20, 0x21, 0x4e, 0xff, 0x100, 0x1f6, 0x10ff]);
                let c = char::from_u32((hi << 8) | rng.below(64) as u32).unwrap_or('\u{2026}');
                s.push(c);
            },
            _ => s.push((b'a' + rng.below(26) as u8) as char),
        }
    }
    s
}

fn rand_set(rng: &mut Rng) -> SmallCharSet {
    let mut bits = 0u64;
    match rng.below(4) {
        0 => {
            for c in ['\r', '\0', '&', '<', '\n'] {
                bits |= 1 << (c as u64);
            }
        },
        1 => {
            for c in ['\r', '\t', '\n', '\x0C', ' ', '&', '>', '\0'] {
                bits |= 1 << (c as u64);
            }
        },
        _ => {
            for _ in 0..rng.range(1, 8) {
                bits |= 1 << rng.below(64);
            }
        },
    }
    SmallCharSet { bits }
}

fn in_set(set: &SmallCharSet, c: char) -> bool {
    (c as u32) < 64 && (set.bits >> (c as u32)) & 1 == 1
}

pub fn run_history(rng: &mut Rng, nops: usize, st: &mut Stats) -> Result<usize, (String, String)> {
    let q = BufferQueue::default();
    let mut m: VecDeque<String> = VecDeque::new();
    let q2 = BufferQueue::default();
    let mut m2: VecDeque<String> = VecDeque::new();
    let mut log: Vec<String> = vec![];
    let mut pushed = String::new(); // everything ever pushed at the back, minus consumed — audited at the end
    macro_rules! fail {
        ($($a:tt)*) => {{
            let tail: Vec<String> = log.iter().rev().take(10).rev().cloned().collect();
            return Err((tail.join(" ; "), format!($($a)*)));
        }};
    }
    for opno in 0..nops {
        let op = rng.below(15);
        match op {
            13 => {
                // a second queue takes over / hands back the whole content
                log.push(format!("#{opno} swap_with(second queue holding {:?})", m2));
                q.swap_with(&q2);
                std::mem::swap(&mut m, &mut m2);
                st.count("op:swap_with");
            },
            14 => {
                let fresh = BufferQueue::default();
                let mut fm: VecDeque<String> = VecDeque::new();
                for _ in 0..rng.below(3) {
                    let s = rand_piece(rng);
                    fresh.push_back(StrTendril::from_slice(&s));
                    fm.push_back(s);
                }
                log.push(format!("#{opno} replace_with({fm:?})"));
                q.replace_with(fresh);
                m = fm;
                st.count("op:replace_with");
            },
            0 | 1 | 2 => {
                let mut s = String::new();
                for _ in 0..rng.below(4) {
                    if rng.chance(1, 3) {
                        s.push_str(&rand_piece(rng));
                    } else {
                        s.push_str(rng.pick_s(PIECES));
                    }
                }
                log.push(format!("#{opno} push_back({s:?})"));
                q.push_back(StrTendril::from_slice(&s));
                if !s.is_empty() {
                    m.push_back(s.clone());
                }
                pushed.push_str(&s);
                st.count("op:push_back");
            },
            3 => {
                let s = if rng.chance(1, 3) { rand_piece(rng) } else { rng.pick_s(PIECES).to_string() };
                log.push(format!("#{opno} push_front({s:?})"));
                q.push_front(StrTendril::from_slice(&s));
                if !s.is_empty() {
                    m.push_front(s);
                }
                st.count("op:push_front");
            },
            4 | 5 => {
                log.push(format!("#{opno} next"));
                let got = q.next();
                let want = m.front().and_then(|f| f.chars().next());
                if got != want {
                    fail!("next() = {got:?}, model {want:?}");
                }
                if let Some(c) = want {
                    let f = m.front_mut().unwrap();
                    f.drain(..c.len_utf8());
                    if f.is_empty() {
                        m.pop_front();
                    }
                }
                st.count("op:next");
            },
            6 => {
                log.push(format!("#{opno} peek"));
                let got = q.peek();
                let want = m.front().and_then(|f| f.chars().next());
                if got != want {
                    fail!("peek() = {got:?}, model {want:?}");
                }
                st.count("op:peek");
            },
            7 | 8 | 9 => {
                let set = rand_set(rng);
                log.push(format!("#{opno} pop_except_from({:#x})", set.bits));
                let got = q.pop_except_from(set);
                let want: Option<Result<char, String>> = m.front().map(|f| {
                    let first = f.chars().next().unwrap();
                    if in_set(&set, first) {
                        Ok(first)
                    } else {
                        Err(f.chars().take_while(|&c| !in_set(&set, c)).collect())
                    }
                });
                match (&got, &want) {
                    (None, None) => {},
                    (Some(SetResult::FromSet(c)), Some(Ok(w))) if c == w => {
                        st.count("result:FromSet");
                        let f = m.front_mut().unwrap();
                        f.drain(..w.len_utf8());
                        if f.is_empty() {
                            m.pop_front();
                        }
                    },
                    (Some(SetResult::NotFromSet(t)), Some(Err(w))) if &**t == w.as_str() => {
                        st.count("result:NotFromSet");
                        if w.is_empty() {
                            fail!("pop_except_from returned an empty run");
                        }
                        let f = m.front_mut().unwrap();
                        f.drain(..w.len());
                        if f.is_empty() {
                            m.pop_front();
                            st.count("result:NotFromSet-to-end-of-buffer");
                        }
                    },
                    _ => fail!("pop_except_from = {got:?}, model {want:?}"),
                }
                st.count("op:pop_except_from");
            },
            10 | 11 => {
                let cat: String = m.iter().map(|s| s.as_str()).collect();
                // a fixed keyword, or a pattern cut from what is actually queued (exact, with one
                // letter's case flipped, with the last character changed, or one character too long)
                let derived: String;
                let pat: &str = if !cat.is_empty() && rng.chance(1, 3) {
                    let k = rng.range(1, 12);
                    let mut p: String = cat.chars().take(k).collect();
                    match rng.below(5) {
                        0 => p = p.chars().map(|c| if c.is_ascii_lowercase() { c.to_ascii_uppercase() } else { c.to_ascii_lowercase() }).collect(),
                        1 => {
                            p.pop();
                            p.push('#');
                        },
                        2 => p.push('z'),
                        _ => {},
                    }
                    derived = p;
                    st.count("eat_patterns_cut_from_the_queue");
                    &derived
                } else {
                    rng.pick_s(PATTERNS)
                };
                let ci = rng.chance(1, 2);
                // one call in six uses another symmetric comparator that keeps ASCII apart from non-ASCII (white-space
                // class, '-' ~ '_'): eat is documented to compare with the caller's function, and for a symmetric one the
                // answer does not depend on the argument order
                let custom = if rng.chance(1, 6) { 1 + rng.below(2) } else { 0 };
                let swapped: String;
                let pat: &str = if custom != 0 && rng.chance(2, 3) {
                    swapped = pat.chars().map(|c| match (custom, c) { (1, ' ') => '\t', (1, '\t') => '\n', (1, '\n') => ' ', (2, '-') => '_', (2, '_') => '-', _ => c }).collect();
                    &swapped
                } else {
                    pat
                };
                fn eq_ws(a: &u8, b: &u8) -> bool {
                    a == b || (a.is_ascii_whitespace() && b.is_ascii_whitespace())
                }
                fn eq_dash(a: &u8, b: &u8) -> bool {
                    a == b || (matches!(*a, b'-' | b'_') && matches!(*b, b'-' | b'_'))
                }
                log.push(format!("#{opno} eat({pat:?}, ci={ci}, custom={custom})"));
                let got = match custom {
                    1 => q.eat(pat, eq_ws),
                    2 => q.eat(pat, eq_dash),
                    _ if ci => q.eat(pat, u8::eq_ignore_ascii_case),
                    _ => q.eat(pat, u8::eq),
                };
                if custom != 0 {
                    st.count("eat_with_symmetric_custom_comparator");
                }
                let cb = cat.as_bytes();
                let mut want = Some(true);
                for (k, pb) in pat.bytes().enumerate() {
                    if k >= cb.len() {
                        want = None;
                        break;
                    }
                    let eq = match custom {
                        1 => eq_ws(&cb[k], &pb),
                        2 => eq_dash(&cb[k], &pb),
                        _ if ci => cb[k].eq_ignore_ascii_case(&pb),
                        _ => cb[k] == pb,
                    };
                    if !eq {
                        want = Some(false);
                        break;
                    }
                }
                if cb.is_empty() {
                    want = None;
                }
                if got != want {
                    fail!("eat({pat:?}) = {got:?}, model {want:?} (queue {:?})", m);
                }
                st.count(match want {
                    Some(true) => "result:eat-true",
                    Some(false) => "result:eat-false",
                    None => "result:eat-need-more",
                });
                if want == Some(true) {
                    let mut left = pat.len();
                    let spans = m.iter().take_while(|_| true).count();
                    let _ = spans;
                    let mut crossed = 0;
                    while left > 0 {
                        let f = m.front_mut().unwrap();
                        let k = left.min(f.len());
                        f.drain(..k);
                        left -= k;
                        if f.is_empty() {
                            m.pop_front();
                            crossed += 1;
                        }
                    }
                    if crossed > 0 {
                        st.count("result:eat-true-across-buffers");
                    }
                }
                st.count("op:eat");
            },
            _ => {
                log.push(format!("#{opno} pop_front"));
                let got = q.pop_front().map(|t| t.to_string());
                let want = m.pop_front();
                if got != want {
                    fail!("pop_front() = {got:?}, model {want:?}");
                }
                st.count("op:pop_front");
            },
        }
        if q.is_empty() != m.is_empty() {
            fail!("is_empty() = {}, model {}", q.is_empty(), m.is_empty());
        }
    }
    // nothing lost, duplicated or reordered: drain the rest
    let mut rest = String::new();
    while let Some(c) = q.next() {
        rest.push(c);
    }
    let want: String = m.iter().map(|s| s.as_str()).collect();
    if rest != want {
        return Err((log.iter().rev().take(10).rev().cloned().collect::<Vec<_>>().join(" ; "), format!("drained remainder {rest:?} != model {want:?}")));
    }
    let mut rest2 = String::new();
    while let Some(c) = q2.next() {
        rest2.push(c);
    }
    let want2: String = m2.iter().map(|s| s.as_str()).collect();
    if rest2 != want2 {
        return Err((log.iter().rev().take(10).rev().cloned().collect::<Vec<_>>().join(" ; "), format!("second queue (swap_with partner) drained to {rest2:?}, model {want2:?}")));
    }
    Ok(nops)
}

pub fn run(args: &Args) -> (Meta, Stats) {
    if let Some(p) = &args.replay {
        let mut st = Stats::new();
        let v: serde_json::Value = serde_json::from_str(&std::fs::read_to_string(p).unwrap_or_default()).unwrap_or_default();
        let hseed = v["history_seed"].as_str().and_then(|s| s.parse().ok()).unwrap_or(0);
        st.case(Some(1));
        st.distinct.insert(2);
        let mut rng = Rng::new(hseed);
        if let Err((ops, what)) = run_history(&mut rng, v["nops"].as_u64().unwrap_or(100) as usize, &mut st) {
            st.violation("mismatch", &format!("{what} after {ops}"), v.clone());
        }
        return (super::meta(args, "replay of one recorded history", &[]), st);
    }
    let seed = args.seed;
    let deadline = args.deadline();
    let sanit = args.tier == Tier::Sanitizer;
    let san_n = args.san_n(30);
    let st = par_run(if sanit { 1 } else { nthreads() }, |shard, _n, st| {
        let mut k = 0u64;
        loop {
            if sanit {
                if k >= san_n {
                    break;
                }
            } else if expired(deadline) {
                break;
            }
            let hseed = mix(mix(seed ^ 0xC13, shard as u64), k);
            k += 1;
            let nops = if sanit { 80 } else { 20 + (hseed % 200) as usize };
            st.case(Some(hseed));
            let mut rng = Rng::new(hseed);
            match catch(|| run_history(&mut rng, nops, st)) {
                Ok(Ok(n)) => st.add("operations", n as u64),
                Ok(Err((ops, what))) => {
                    let sig = what.split(['(', ' ']).next().unwrap_or("mismatch").to_string();
                    st.violation(&format!("mismatch:{sig}"), &format!("{what}; last operations: {ops}"), json!({"history_seed": hseed.to_string(), "nops": nops}));
                },
                Err(m) => st.violation(&format!("panic:{}", crate::report::panic_signature(&m)), &format!("panic {m}"), json!({"history_seed": hseed.to_string(), "nops": nops})),
            }
            if st.samples.len() < 2 && k % 101 == 0 {
                st.sample(json!({"history_seed": hseed.to_string(), "nops": nops, "note": "a history is reproduced exactly from its seed"}));
            }
        }
    });
    let mut m = super::meta(
        args,
        "random interleavings of push_back / push_front / next / peek / pop_except_from / eat / pop_front / is_empty / swap_with / replace_with over random partitions of text (every character below 64, multi-byte characters incl. those whose encodings end in 0x80/0xBF placed next to set members, runs of up to 40 characters, look-ahead keywords split across 1-4 buffers), random SmallCharSets (the tokenizer's sets and arbitrary 64-bit sets), exact, ASCII-case-insensitive and two other symmetric comparators (white-space class, '-' ~ '_'); every return value is compared with a VecDeque<String> model (eat decided on the concatenation) and the drained remainder must equal the model (nothing lost, duplicated or reordered). The harness is also built with debug assertions in the 'checked' profile and run under Miri/ASan by the sanitizer legs. Each history is a distinct case (hash = its seed).",
        &["the empty pattern is not exercised (eat on an empty queue returns need-more before looking at the pattern)"],
    );
    if !sanit {
        m.require = vec![("operations".into(), 500_000), ("result:eat-true-across-buffers".into(), 500), ("result:eat-need-more".into(), 500), ("result:NotFromSet-to-end-of-buffer".into(), 500), ("result:FromSet".into(), 500)];
    }
    (m, st)
}
