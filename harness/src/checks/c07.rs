//! C07 — HTML serializer output re-parses to the same tree; inner equals outer.

use super::common::*;
use crate::drive::qual;
use crate::gen;
use crate::prng::{hash_str, mix, Rng};
use crate::report::{catch, nthreads, par_run, Meta, Stats};
use crate::tree::{dump_html, from_rcdom, TNode, NS_HTML, NS_MATHML, NS_SVG};
use crate::Args;
use html5ever::serialize::{serialize, SerializeOpts, TraversalScope};
use html5ever::tendril::{StrTendril, TendrilSink};
use html5ever::{Attribute, ParseOpts};
use markup5ever_rcdom::{Handle, Node, NodeData, RcDom, SerializableHandle};
use serde_json::{json, Value};
use std::cell::RefCell;
use std::rc::Rc;

const SAFE: &[&str] = &["div", "span", "section", "article", "main", "aside", "header", "footer", "nav", "ul", "ol", "blockquote", "figure", "figcaption", "fieldset", "details", "dialog", "center", "address", "custom-x", "x-y", "data-el", "bdi", "cite", "q", "label", "abbr"];
const ATTR_NAMES: &[&str] = &["id", "class", "title", "data-x", "data-y-z", "lang", "dir", "a", "b1", "hidden", "style", "onclick", "href"];
const HOSTILE: &[&str] = &[
    "&", "<", ">", "\"", "'", ";", "#", "x", "\u{a0}", "\u{a1}", "\u{80}", "\u{c2}", "é", "&amp", "&amp;", "&#38;", "&lt", "&lt;", "&quot;", "&nbsp", "</div>", "</span>", "<!--", "-->", "]]>", "<![CDATA[", "<script>", "</script>",
    "<b>", " ", "\n", "\t", "\x0C", "=", "`", "&#x26;", "&notit;", "&not", "\u{feff}", "日本", "\u{10ffff}", "<", "&", "a", "b",
];

/// Every local name web_atoms knows (element and attribute names alike: 1100 of them) that the
/// tree builder gives no special treatment: not in any of the generator's special-element lists,
/// lower-case, a valid tag name. As HTML elements they are all "ordinary", so the serializer must
/// treat them like a div - a name-based special case in the serializer (void, raw text) for a name the
/// parser does not special-case breaks the round trip.
fn ordinary_atom_names() -> &'static [&'static str] {
    static NAMES: std::sync::OnceLock<Vec<&'static str>> = std::sync::OnceLock::new();
    NAMES.get_or_init(|| {
        let special = gen::special_html_names();
        include_str!("/repo/web_atoms/local_names.txt")
            .lines()
            .map(|l| l.trim())
            .filter(|l| !l.is_empty() && l.chars().next().unwrap().is_ascii_lowercase() && l.chars().all(|c| c.is_ascii_lowercase() || c.is_ascii_digit() || c == '-'))
            .filter(|l| !special.contains(l) && !PARSER_SPECIAL_EXTRA.contains(l))
            .collect()
    })
}

/// names the tree builder treats specially that the generator's lists do not carry
const PARSER_SPECIAL_EXTRA: &[&str] = &["image", "spacer", "multicol", "blink", "dir", "menu", "summary", "search", "hgroup", "selectedcontent", "slot"];

fn hostile(rng: &mut Rng, maxparts: usize) -> String {
    let mut s = String::new();
    for _ in 0..rng.range(1, maxparts) {
        s.push_str(rng.pick_s(HOSTILE));
    }
    if rng.chance(1, 12) {
        // long strings crossing the serializer's internal search chunks
        let filler = "abcdefghij".repeat(rng.range(1, 40));
        s.push_str(&filler);
        s.push_str(rng.pick_s(HOSTILE));
    }
    s
}

fn elem(ns: &str, local: &str, attrs: Vec<(String, String)>) -> Handle {
    Node::new(NodeData::Element {
        name: qual(ns, local),
        attrs: RefCell::new(attrs.into_iter().map(|(k, v)| Attribute { name: qual("", &k), value: StrTendril::from_slice(&v) }).collect()),
        template_contents: RefCell::new(None),
        mathml_annotation_xml_integration_point: false,
    })
}

fn text(s: &str) -> Handle {
    Node::new(NodeData::Text { contents: RefCell::new(StrTendril::from_slice(s)) })
}

fn add(parent: &Handle, child: Handle) {
    child.parent.set(Some(Rc::downgrade(parent)));
    parent.children.borrow_mut().push(child);
}

fn gen_tree(rng: &mut Rng, parent: &Handle, depth: usize, budget: &mut usize) {
    let n = rng.range(0, 4);
    let mut last_text = false;
    for k in 0..n {
        if *budget == 0 {
            return;
        }
        *budget -= 1;
        if !last_text && rng.chance(2, 5) {
            let mut t = if rng.chance(1, 60) { crate::big::long_run(rng, 9000, &["&", "<", ">", "\"", "\u{a0}", "&amp;", "</div>", "\u{c2}"]) } else { hostile(rng, 4) };
            if k == 0 && depth == 0 && rng.chance(1, 8) {
                t.insert(0, '\u{feff}');
            }
            add(parent, text(&t));
            last_text = true;
        } else if rng.chance(1, 10) {
            add(parent, Node::new(NodeData::Comment { contents: StrTendril::from_slice(rng.pick_s(&[" c ", "", "x", "a-b", "&amp;", "<b>"])) }));
            last_text = false;
        } else {
            let mut attrs = vec![];
            let mut names = ATTR_NAMES.to_vec();
            rng.shuffle(&mut names);
            for name in names.iter().take([0, 0, 1, 1, 2, 3][rng.below(6)]) {
                attrs.push((name.to_string(), if rng.chance(1, 6) { String::new() } else if rng.chance(1, 60) { crate::big::long_run(rng, 9000, &["&", "<", ">", "\"", "'", "\u{a0}", "&quot;"]) } else { hostile(rng, 3) }));
            }
            let name = if rng.chance(1, 3) { let v = ordinary_atom_names(); v[rng.below(v.len())] } else { rng.pick_s(SAFE) };
            let e = elem(NS_HTML, name, attrs);
            if depth < 5 {
                gen_tree(rng, &e, depth + 1, budget);
            }
            add(parent, e);
            last_text = false;
        }
    }
}

fn ser(h: &Handle, scope: TraversalScope, scripting: bool) -> Result<String, String> {
    catch(|| {
        let mut out = Vec::new();
        let scope2 = scope.clone();
        let sh: SerializableHandle = h.clone().into();
        serialize(&mut out, &sh, SerializeOpts { scripting_enabled: scripting, traversal_scope: scope.clone(), create_missing_parent: false }).expect("serialize");
        // the same serialization into a writer that accepts only a few bytes per call must give
        // the same bytes (one in eight serializations, chosen by content)
        if out.len() % 8 == 3 {
            let mut w = ChoppyWriter::new(out.len() as u64 / 8 + out.iter().map(|b| *b as u64).sum::<u64>());
            serialize(&mut w, &sh, SerializeOpts { scripting_enabled: scripting, traversal_scope: scope, create_missing_parent: false }).expect("serialize into a short-writing writer");
            CHOPPY_RUNS.with(|c| c.set(c.get() + 1));
            if w.out != out {
                panic!("short-write writer: serializing into a writer that accepts a few bytes per write() call produced {} bytes, into a Vec {} bytes (first difference at byte {})", w.out.len(), out.len(), w.out.iter().zip(out.iter()).position(|(a, b)| a != b).unwrap_or(w.out.len().min(out.len())));
            }
        }
        // create_missing_parent only matters for an invalid call sequence (an end without a start); a tree
        // never produces one, so the option must not change a byte (one in four serializations, chosen by content)
        if out.len() % 4 == 1 {
            let mut out2 = Vec::new();
            let sh2: SerializableHandle = h.clone().into();
            serialize(&mut out2, &sh2, SerializeOpts { scripting_enabled: scripting, traversal_scope: scope2, create_missing_parent: true }).expect("serialize with create_missing_parent");
            MISSING_PARENT_RUNS.with(|c| c.set(c.get() + 1));
            if out2 != out {
                panic!("create_missing_parent=true changed the serialization of a well-formed tree: {:?} vs {:?}", String::from_utf8_lossy(&out2), String::from_utf8_lossy(&out));
            }
        }
        String::from_utf8(out).expect("utf8")
    })
}

thread_local! {
    static MISSING_PARENT_RUNS: std::cell::Cell<u64> = const { std::cell::Cell::new(0) };
    static CHOPPY_RUNS: std::cell::Cell<u64> = const { std::cell::Cell::new(0) };
}

fn parse_fragment_div(s: &str) -> Result<TNode, String> {
    catch(|| {
        let mut opts = ParseOpts::default();
        opts.tokenizer.discard_bom = false;
        let dom = html5ever::parse_fragment(RcDom::default(), opts, qual(NS_HTML, "div"), vec![], false).one(s);
        // document -> html -> children
        let t = from_rcdom(&dom.document);
        t.children.into_iter().next().expect("root html")
    })
}

/// Part A
fn check_round_trip(rng: &mut Rng, st: &mut Stats) {
    let container = elem(NS_HTML, "div", vec![]);
    let mut budget = rng.range(1, 14);
    gen_tree(rng, &container, 0, &mut budget);
    let want = from_rcdom(&container);
    let s = match ser(&container, TraversalScope::ChildrenOnly(None), true) {
        Ok(s) => s,
        Err(m) => {
            let sig = if m.contains("short-write writer") { "serializer:short-writes" } else { "roundtrip:serializer-panic" };
            st.violation(sig, &format!("serializing the tree failed: {m}"), json!({"tree": dump_html(&want)}));
            return;
        },
    };
    st.case(Some(hash_str(&s)));
    st.count("round_trips");
    st.add("serialized_bytes", s.len() as u64);
    match parse_fragment_div(&s) {
        Err(m) => st.violation("roundtrip:parse-panic", &format!("serialized {}: {m}", show(&s)), json!({"serialized": s})),
        Ok(got) => {
            // compare children of the container with children of the fragment root
            let a: Vec<String> = want.children.iter().map(dump_html).collect();
            let b: Vec<String> = got.children.iter().map(dump_html).collect();
            if a != b {
                let (da, db) = (a.join(""), b.join(""));
                let kind = if da.contains("@") && dump_diff(&da, &db).contains('@') { "attribute" } else { "text-or-structure" };
                st.violation(&format!("roundtrip:{kind}"), &format!("serialized {} re-parses differently: {}", show(&s), dump_diff(&da, &db)), json!({"kind": "roundtrip", "serialized": s, "tree": da}));
            }
            if st.samples.len() < 2 && rng.chance(1, 200) {
                st.sample(json!({"tree": a.join(""), "serialized": s}));
            }
        },
    }
}

const VOID: &[&str] = &["area", "base", "basefont", "bgsound", "br", "col", "embed", "frame", "hr", "img", "input", "keygen", "link", "meta", "param", "source", "track", "wbr"];

/// Part B on one element
fn check_inner_outer(e: &Handle, scripting: bool, st: &mut Stats) -> Option<(String, String)> {
    let NodeData::Element { name, attrs, .. } = &e.data else { return None };
    let (outer, inner) = match (ser(e, TraversalScope::IncludeNode, scripting), ser(e, TraversalScope::ChildrenOnly(Some(name.clone())), scripting)) {
        (Ok(o), Ok(i)) => (o, i),
        (Err(m), _) | (_, Err(m)) => {
            // the serializer panicked (or wrote something else into a short-writing writer)
            let sig = if m.contains("short-write writer") { "serializer:short-writes".to_string() } else { format!("serializer-panic:{}", crate::report::panic_signature(&m)) };
            return Some((sig, format!("<{}:{}> scripting={scripting}: {m}", crate::drive::short_ns(&name.ns), name.local)));
        },
    };
    let bare = Node::new(NodeData::Element {
        name: name.clone(),
        attrs: RefCell::new(attrs.borrow().clone()),
        template_contents: RefCell::new(None),
        mathml_annotation_xml_integration_point: false,
    });
    let bare_s = ser(&bare, TraversalScope::IncludeNode, scripting).ok()?;
    let is_void = name.ns == markup5ever::ns!(html) && VOID.contains(&&*name.local);
    let end = if is_void { String::new() } else { format!("</{}>", name.local) };
    let start = bare_s.strip_suffix(&end)?.to_string();
    st.count("elements_checked_inner_outer");
    st.observe("parent_names_checked", &format!("{}:{}", crate::drive::short_ns(&name.ns), name.local));
    if is_void && e.children.borrow().is_empty() {
        return None;
    }
    let want = format!("{start}{inner}{end}");
    if outer != want {
        let kind = if name.ns != markup5ever::ns!(html) { "foreign-parent" } else { "html-parent" };
        return Some((format!("inner-outer:{kind}"), format!("<{}:{}> scripting={scripting}: outer {} != start+inner+end {}", crate::drive::short_ns(&name.ns), name.local, show(&outer), show(&want))));
    }
    // composition: the inner serialization is the concatenation of the children's own serializations
    // (element children: their outer serialization; text: unescaped only when THIS element is an HTML
    // raw-text element, escaped otherwise; comments verbatim). An element's text is therefore escaped
    // according to its own parent, whatever encloses that parent.
    let html = name.ns == markup5ever::ns!(html);
    if is_void || (html && matches!(&*name.local, "template" | "pre" | "textarea" | "listing")) {
        return None;
    }
    let raw_here = html && (RAW.contains(&&*name.local) || (&*name.local == "noscript" && scripting));
    let mut composed = String::new();
    for c in e.children.borrow().iter() {
        match &c.data {
            NodeData::Element { .. } => composed.push_str(&ser(c, TraversalScope::IncludeNode, scripting).ok()?),
            NodeData::Text { contents } => {
                let t = contents.borrow();
                if raw_here {
                    composed.push_str(&t)
                } else {
                    composed.push_str(&escape5(&t))
                }
            },
            NodeData::Comment { contents } => composed.push_str(&format!("<!--{}-->", &**contents)),
            _ => return None,
        }
    }
    st.count("elements_checked_composition");
    if composed != inner {
        return Some(("composition".into(), format!("<{}:{}> scripting={scripting}: inner serialization {} is not the concatenation of its children's serializations {}", crate::drive::short_ns(&name.ns), name.local, show(&inner), show(&composed))));
    }
    None
}

fn walk_inner_outer(root: &Handle, st: &mut Stats, ctx: &str) {
    let mut stack = vec![root.clone()];
    while let Some(h) = stack.pop() {
        for c in h.children.borrow().iter() {
            stack.push(c.clone());
        }
        if matches!(h.data, NodeData::Element { .. }) {
            for scripting in [true, false] {
                if let Some((sig, d)) = check_inner_outer(&h, scripting, st) {
                    st.violation(&sig, &format!("{ctx}: {d}"), json!({"kind": "inner-outer", "context": ctx}));
                    return;
                }
            }
        }
    }
}

fn escape5(s: &str) -> String {
    let mut o = String::new();
    for c in s.chars() {
        match c {
            '&' => o.push_str("&amp;"),
            '<' => o.push_str("&lt;"),
            '>' => o.push_str("&gt;"),
            '\u{a0}' => o.push_str("&nbsp;"),
            c => o.push(c),
        }
    }
    o
}

const RAW: &[&str] = &["style", "script", "xmp", "iframe", "noembed", "noframes", "plaintext"];

/// Part C: exhaustive parent x namespace x text matrix
fn escaping_matrix(shard: usize, nshards: usize, st: &mut Stats) {
    let parents: Vec<&str> = RAW.iter().copied().chain(["noscript", "div", "title", "textarea", "pre", "p", "custom-x", "svg", "text", "mi"]).collect();
    let specials = ["&", "<", ">", "\"", "'", "\u{a0}", "\u{a1}", "\u{80}", "\u{c2}a", "é", "&amp;", "</style>", "</script>", "<!--", "]]>", "\u{feff}", "a"];
    let mut texts: Vec<String> = vec![];
    for a in specials {
        texts.push(a.to_string());
        for b in specials {
            texts.push(format!("{a}{b}"));
        }
        for pos in 0..34 {
            let mut f: String = "abcdefghijklmnopqrstuvwxyzabcdefghijklmnopqrstuvwxyz"[..pos].to_string();
            f.push_str(a);
            f.push_str("tail");
            texts.push(f);
        }
    }
    // every local name web_atoms knows, as an HTML parent, with a few texts: escaped everywhere except
    // under the seven raw-text names (and noscript with scripting); an end tag everywhere except for
    // the 18 void names (one wrong row in the serializer's name tables shows here)
    let mut idx = 0;
    let all_names: Vec<&str> = include_str!("/repo/web_atoms/local_names.txt").lines().map(|l| l.trim()).filter(|l| !l.is_empty() && l.chars().all(|c| c.is_ascii_lowercase() || c.is_ascii_digit() || c == '-') && l.chars().next().unwrap().is_ascii_lowercase()).collect();
    for p in &all_names {
        idx += 1;
        if idx % nshards != shard || VOID.contains(p) {
            continue;
        }
        for t in ["&", "<", ">", "a&amp;b", "\u{a0}", "x<y>z"] {
            for scripting in [true, false] {
                let e = elem(NS_HTML, p, vec![]);
                add(&e, text(t));
                let raw = RAW.contains(p) || (*p == "noscript" && scripting);
                let want = if raw { t.to_string() } else { escape5(t) };
                st.evaluations += 1;
                st.count("name_table_cells");
                let outer = ser(&e, TraversalScope::IncludeNode, scripting);
                let wrapped = format!("<{p}>{want}</{p}>");
                match outer {
                    Ok(o) if o == wrapped => {},
                    Ok(o) => st.violation("matrix:name-table", &format!("<{p}> text {}: serialization {} expected {}", show(t), show(&o), show(&wrapped)), json!({"kind": "matrix", "ns": NS_HTML, "parent": p, "text": t, "scripting": scripting})),
                    Err(m) => st.violation("matrix:panic", &format!("<{p}> text {}: serializer panicked: {m}", show(t)), json!({"kind": "matrix", "ns": NS_HTML, "parent": p, "text": t})),
                }
            }
        }
    }
    let mut idx = 0;
    for ns in [NS_HTML, NS_SVG, NS_MATHML] {
        for p in &parents {
            for t in &texts {
                idx += 1;
                if idx % nshards != shard {
                    continue;
                }
                for scripting in [true, false] {
                    let e = elem(ns, p, vec![]);
                    add(&e, text(t));
                    let raw = ns == NS_HTML && (RAW.contains(p) || (*p == "noscript" && scripting));
                    let want = if raw { t.clone() } else { escape5(t) };
                    st.evaluations += 1;
                    st.count("matrix_cells");
                    st.distinct.insert(hash_str(&format!("{ns}{p}{t}{scripting}")));
                    let name = qual(ns, p);
                    let inner = ser(&e, TraversalScope::ChildrenOnly(Some(name)), scripting);
                    let outer = ser(&e, TraversalScope::IncludeNode, scripting);
                    let wrapped = format!("<{p}>{want}</{p}>");
                    match (inner, outer) {
                        (Ok(i), Ok(o)) => {
                            if o != wrapped {
                                st.violation("matrix:outer", &format!("<{}:{p}> text {}: outer serialization {} expected {}", crate::drive::short_ns(ns), show(t), show(&o), show(&wrapped)), json!({"kind": "matrix", "ns": ns, "parent": p, "text": t, "scripting": scripting}));
                            } else if i != want {
                                let kind = if ns == NS_HTML { "html-parent" } else { "foreign-parent" };
                                st.violation(&format!("matrix:inner:{kind}"), &format!("<{}:{p}> text {}: inner serialization {} expected {}", crate::drive::short_ns(ns), show(t), show(&i), show(&want)), json!({"kind": "matrix", "ns": ns, "parent": p, "text": t, "scripting": scripting}));
                            }
                        },
                        _ => st.violation("matrix:panic", &format!("<{p}> text {}: serializer panicked", show(t)), json!({"kind": "matrix", "ns": ns, "parent": p, "text": t})),
                    }
                }
            }
        }
    }
}

pub fn run(args: &Args) -> (Meta, Stats) {
    if let Some(p) = &args.replay {
        let mut st = Stats::new();
        let v: Value = serde_json::from_str(&std::fs::read_to_string(p).unwrap_or_default()).unwrap_or(Value::Null);
        st.distinct.insert(1);
        st.distinct.insert(2);
        st.evaluations = 1;
        match v["kind"].as_str().unwrap_or("") {
            "roundtrip" => {
                let s = v["serialized"].as_str().unwrap_or("");
                if let Ok(t) = parse_fragment_div(s) {
                    let got: String = t.children.iter().map(dump_html).collect();
                    if got != v["tree"].as_str().unwrap_or("") {
                        st.violation("roundtrip:replay", &dump_diff(v["tree"].as_str().unwrap_or(""), &got), v.clone());
                    }
                }
            },
            _ => escaping_matrix(0, 1, &mut st),
        }
        return (super::meta(args, "replay of one recorded case", &[]), st);
    }
    let seed = args.seed;
    let deadline = args.deadline();
    let st = par_run(nthreads(), |shard, nshards, st| {
        let mut rng = Rng::new(mix(seed ^ 0xC07, shard as u64));
        escaping_matrix(shard, nshards, st);
        // hand-built raw-text-named elements in all three namespaces, with element children too
        for (k, ns) in [NS_HTML, NS_SVG, NS_MATHML].iter().enumerate() {
            for (j, p) in RAW.iter().chain(["noscript", "title", "div"].iter()).enumerate() {
                if (k * 16 + j) % nshards != shard {
                    continue;
                }
                let e = elem(ns, p, vec![("a".into(), "x\"&<>\u{a0}".into())]);
                add(&e, text("a<b&c>\u{a0}"));
                let inner = elem(NS_HTML, "span", vec![]);
                add(&inner, text("<&>"));
                add(&e, inner);
                add(&e, text("tail&"));
                walk_inner_outer(&e, st, "hand-built");
            }
        }
        // foreign elements whose local name is an HTML void / raw-text name, with children
        if shard == 0 {
            for ns in [NS_SVG, NS_MATHML] {
                for p in VOID.iter().chain(RAW.iter()) {
                    let e = elem(ns, p, vec![]);
                    add(&e, text("x<&"));
                    let g = elem(ns, "g", vec![]);
                    add(&g, text("y"));
                    add(&e, g);
                    let holder = elem(NS_HTML, "div", vec![]);
                    add(&holder, e);
                    walk_inner_outer(&holder, st, "hand-built foreign element with a void/raw-text local name");
                    st.count("foreign_void_named_elements");
                }
            }
            for doc in ["<svg><link>x<g>y</g></link><input>z</svg>", "<math><col>x</col><source>y<mi>z</mi></source></math>", "<svg><br2>x</br2><param>p<g/></param></svg>", "<div><svg><style>a<b</style><script>c&d</script></svg></div>"] {
                if let Ok(dom) = catch(|| html5ever::parse_document(RcDom::default(), ParseOpts::default()).one(doc)) {
                    walk_inner_outer(&dom.document, st, &format!("parsed {doc:?}"));
                    // and the serialization must re-parse to the same tree
                    if let Ok(s) = ser(&dom.document, TraversalScope::ChildrenOnly(None), true) {
                        if let Ok(d2) = catch(|| html5ever::parse_document(RcDom::default(), ParseOpts::default()).one(s.as_str())) {
                            let (a, b) = (dump_html(&from_rcdom(&dom.document)), dump_html(&from_rcdom(&d2.document)));
                            if a != b {
                                st.violation("roundtrip:foreign-void-name", &format!("{doc:?} serializes to {} which re-parses differently: {}", show(&s), dump_diff(&a, &b)), json!({"kind": "foreign", "input": doc}));
                            }
                        }
                    }
                }
            }
        }
        while !expired(deadline) {
            check_round_trip(&mut rng, st);
            // Part B on generated and parsed trees
            if rng.chance(1, 3) {
                let container = elem(NS_HTML, "div", vec![]);
                let mut budget = 10;
                gen_tree(&mut rng, &container, 0, &mut budget);
                walk_inner_outer(&container, st, "generated tree");
            }
            if rng.chance(1, 2) {
                let input = gen::html_doc(&mut rng, &[], 12);
                let scripting = rng.chance(1, 2);
                if let Ok(dom) = catch(|| {
                    let mut o = ParseOpts::default();
                    o.tree_builder.scripting_enabled = scripting;
                    html5ever::parse_document(RcDom::default(), o).one(input.as_str())
                }) {
                    walk_inner_outer(&dom.document, st, &format!("parsed {}", show(&input)));
                    st.count("parsed_trees_walked");
                }
            }
        }
        st.add("serializations_into_short_write_writer", CHOPPY_RUNS.with(|c| c.replace(0)));
        st.add("serializations_repeated_with_create_missing_parent", MISSING_PARENT_RUNS.with(|c| c.replace(0)));
    });
    let mut m = super::meta(
        args,
        "(A) random RcDom trees built by hand over a safe vocabulary (no void, raw-text, RCDATA, implied-end-tag, nesting-restricted, table, form, formatting, heading or pre/listing/textarea elements) with hostile attribute values and text (& < > \" ' ; # NBSP, characters whose UTF-8 form starts with 0xC2, entity look-alikes, </div>, <!--, ]]>, long strings, U+FEFF first; no CR/NUL; text nodes non-empty and non-adjacent) are serialized, re-parsed with parse_fragment(context div, discard_bom=false) and compared exactly. (B) for every element of generated, parsed and hand-built trees (raw-text names in the HTML, SVG and MathML namespaces), both scripting settings: outer == start tag + inner(ChildrenOnly(Some(name))) + end tag. (C) exhaustive matrix parent (7 raw-text names, noscript, ordinary names) x namespace (html, svg, mathml) x text (17 specials alone, in pairs, and at offsets 0..33 of a filler): inner and outer serialization must equal an independent 5-rule escaper, or the raw text under HTML raw-text parents. Distinct = distinct serializations / matrix cells.",
        &["pre/listing/textarea are excluded from the round-trip vocabulary because the HTML syntax itself drops a leading LF there", "void elements are only checked when childless (the parser never gives them children)"],
    );
    m.require = vec![("round_trips".into(), 2000), ("matrix_cells".into(), 50000), ("name_table_cells".into(), 10000), ("elements_checked_inner_outer".into(), 20000), ("parsed_trees_walked".into(), 500), ("serializations_into_short_write_writer".into(), 2000)];
    (m, st)
}
