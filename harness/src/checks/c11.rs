//! C11 — tendrils behave as independent owned strings under every operation (history vs model).

use super::common::*;
use super::tendril_ops::*;
use crate::prng::{mix, Rng};
use crate::report::{catch, nthreads, par_run, Meta, Stats};
use crate::{Args, Tier};
use serde_json::json;
use tendril::fmt::{Bytes, Latin1, ASCII, UTF8, WTF8};
use tendril::{Atomic, NonAtomic};

/// One history identified by (family, seed, nops); deterministic, so the replay file is just that.
pub fn run_one(family: usize, seed: u64, nops: usize, st: &mut Stats) -> Result<usize, (String, String, String)> {
    let mut rng = Rng::new(seed);
    let name;
    let r = catch(|| match family % 16 {
        // the pool histories of C12 (sibling views of one buffer pushed onto each other, truly adjacent or
        // adjacent only under a miscounted offset), here without the allocator audit: content vs model
        13 => ("views:UTF8/NonAtomic", super::c12::audited_history::<UTF8, NonAtomic>(&mut rng, nops, st, false).map_err(|e| (String::new(), e))),
        14 => ("views:WTF8/Atomic", super::c12::audited_history::<WTF8, Atomic>(&mut rng, nops, st, false).map_err(|e| (String::new(), e))),
        15 => ("views:Bytes/NonAtomic", super::c12::audited_history::<Bytes, NonAtomic>(&mut rng, nops, st, false).map_err(|e| (String::new(), e))),
        0 => ("Bytes/NonAtomic", run_history::<Bytes, NonAtomic>(&mut rng, nops, st)),
        1 => ("UTF8/NonAtomic", run_history::<UTF8, NonAtomic>(&mut rng, nops, st)),
        2 => ("ASCII/NonAtomic", run_history::<ASCII, NonAtomic>(&mut rng, nops, st)),
        3 => ("Latin1/NonAtomic", run_history::<Latin1, NonAtomic>(&mut rng, nops, st)),
        4 => ("WTF8/NonAtomic", run_history::<WTF8, NonAtomic>(&mut rng, nops, st)),
        5 => ("UTF8/Atomic", run_history::<UTF8, Atomic>(&mut rng, nops, st)),
        6 => ("Bytes/Atomic", run_history::<Bytes, Atomic>(&mut rng, nops, st)),
        7 => ("WTF8/Atomic", run_history::<WTF8, Atomic>(&mut rng, nops, st)),
        8 => ("chars:UTF8", run_char_history::<UTF8, NonAtomic>(&mut rng, nops, st)),
        9 => ("chars:ASCII", run_char_history::<ASCII, NonAtomic>(&mut rng, nops, st)),
        10 => ("chars:Latin1", run_char_history::<Latin1, Atomic>(&mut rng, nops, st)),
        11 => ("slice-ops/NonAtomic", run_slice_history::<NonAtomic>(&mut rng, nops, st)),
        _ => ("slice-ops/Atomic", run_slice_history::<Atomic>(&mut rng, nops, st)),
    });
    match r {
        Ok((n, Ok(k))) => {
            name = n;
            st.count(&format!("histories:{name}"));
            Ok(k)
        },
        Ok((n, Err((ops, what)))) => Err((n.to_string(), ops, what)),
        Err(m) => Err(("panic".into(), String::new(), m)),
    }
}

pub fn run(args: &Args) -> (Meta, Stats) {
    if let Some(p) = &args.replay {
        let mut st = Stats::new();
        let v: serde_json::Value = serde_json::from_str(&std::fs::read_to_string(p).unwrap_or_default()).unwrap_or_default();
        let fam = v["family"].as_u64().unwrap_or(0) as usize;
        let seed = v["history_seed"].as_str().and_then(|s| s.parse().ok()).unwrap_or(0);
        let nops = v["nops"].as_u64().unwrap_or(100) as usize;
        st.case(Some(1));
        st.distinct.insert(2);
        if v["kind"] == "huge" {
            super::huge::run_child(&mut st);
            return (super::meta(args, "replay of the 2 GiB-scale length scenarios", &[]), st);
        }
        if let Err((n, ops, what)) = run_one(fam, seed, nops, &mut st) {
            st.violation(&format!("{n}:mismatch"), &format!("{what} after {ops}"), v.clone());
        }
        return (super::meta(args, "replay of one recorded history", &[]), st);
    }
    let seed = args.seed;
    let deadline = args.deadline();
    let sanit = args.tier == Tier::Sanitizer;
    let nt = if sanit { 1 } else { nthreads() };
    let san_n = args.san_n(39);
    let mut st = par_run(nt, |shard, _n, st| {
        let mut k = 0u64;
        loop {
            if sanit {
                if k >= san_n {
                    break;
                }
            } else if expired(deadline) {
                break;
            }
            let hseed = mix(mix(seed ^ 0xC11, shard as u64), k);
            let family = (k % 16) as usize;
            let nops = if sanit { 60 } else { 20 + (hseed % 380) as usize };
            k += 1;
            st.case(Some(hseed));
            match run_one(family, hseed, nops, st) {
                Ok(n) => st.add("operations", n as u64),
                Err((name, ops, what)) => {
                    // shrink: find the smallest op count that still fails
                    let mut lo = 1;
                    let mut hi = nops;
                    while lo < hi {
                        let mid = (lo + hi) / 2;
                        if run_one(family, hseed, mid, &mut Stats::new()).is_err() {
                            hi = mid;
                        } else {
                            lo = mid + 1;
                        }
                    }
                    let sig = if name == "panic" { format!("panic:{}", crate::report::panic_signature(&what)) } else { format!("{name}:mismatch") };
                    st.violation(&sig, &format!("{name}: {what}; last operations: {ops}"), json!({"family": family, "history_seed": hseed.to_string(), "nops": hi}));
                },
            }
            if st.samples.len() < 2 && k % 97 == 0 {
                st.sample(json!({"family": family, "history_seed": hseed.to_string(), "nops": nops, "note": "a history is reproduced exactly from (family, seed, nops)"}));
            }
        }
    });
    if !sanit && !cfg!(miri) {
        // length arithmetic at the 2^31 / 2^32 limits, in a child process (see huge.rs)
        super::huge::run_child(&mut st);
    }
    let mut m = super::meta(
        args,
        "random operation histories (20-400 operations) over a pool of up to 10 tendrils per format (Bytes, UTF8, ASCII, Latin1, WTF8; NonAtomic and Atomic): construction incl. invalid byte strings, with_capacity, try_push_bytes (valid and invalid), push_tendril incl. the adjacent-shared merge and WTF-8 surrogate joining, try_pop_front/back and panicking forms, try_subtendril with in/out-of-bounds and mid-character cuts, clone, clear, reserve, drop, into_send round trip, into_bytes/try_reinterpret, copy-on-write pushes; character operations (try_push_char, pop_front_char, pop_front_char_run); slice operations (DerefMut, Extend/FromIterator, io::Write, read_to_tendril, extend_with_byte - also on heap-backed tendrils of at most 8 bytes reached through reserve, clear, with_capacity and SendTendril round trips -, format, superset/subset views, String conversions). After EVERY operation every live tendril is compared with its own Vec<u8> model, and every Ok/Err outcome with the model's prediction (validity predicates written independently of tendril::fmt). Lengths biased to 0/1/7/8/9/15/16/17/31/32/33. Each history is a distinct case (hash = its seed). In addition a child process runs six scenarios on 2 GiB tendrils (growth to exactly 2^31, sub-slices and pops at the top of the range, out-of-bounds requests with offsets/lengths up to u32::MAX, push_tendril to 2^32 and to just below it, reserve/push overflow): each must give exact content, or the documented overflow panic with the operands unchanged; a crash of that process is a violation.",
        &["validity oracles: str::from_utf8 for UTF-8, a hand-written generalized-UTF-8 decoder plus the no-lead+trail rule for WTF-8, < 0x80 for ASCII"],
    );
    if !sanit {
        m.require = vec![("operations".into(), 1_000_000), ("UTF8:repr_transitions".into(), 20), ("WTF8:adjacent_merge".into(), 50), ("UTF8:subtendril_error:ValidationFailed".into(), 100), ("UTF8:subtendril_error:OutOfBounds".into(), 100), ("Bytes:heap-backed-with-at-most-8-bytes".into(), 500), ("Bytes:op:extend_with_byte".into(), 1000)];
    }
    (m, st)
}
