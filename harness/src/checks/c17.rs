//! C17 — XML serializer output re-parses to the same namespaced tree (round trip).

use super::common::*;
use crate::gen;
use crate::prng::{hash_str, mix, Rng};
use crate::report::{catch, nthreads, par_run, Meta, Stats};
use crate::tree::{dump_xml, from_rcdom, TData, TNode};
use crate::Args;
use markup5ever_rcdom::{RcDom, SerializableHandle};
use serde_json::{json, Value};
use xml5ever::tendril::TendrilSink;

fn parse(input: &str) -> Result<RcDom, String> {
    catch(|| xml5ever::driver::parse_document(RcDom::default(), Default::default()).one(input))
}

fn serialize(dom: &RcDom) -> Result<String, String> {
    catch(|| {
        let mut out = Vec::new();
        let h: SerializableHandle = dom.document.clone().into();
        xml5ever::serialize::serialize(&mut out, &h, Default::default()).expect("serialize failed");
        // the same serialization into a writer that accepts only a few bytes per call must give
        // the same bytes (one in eight serializations, chosen by content)
        if out.len() % 8 == 3 {
            let mut w = ChoppyWriter::new(out.len() as u64 / 8 + out.iter().map(|b| *b as u64).sum::<u64>());
            xml5ever::serialize::serialize(&mut w, &h, Default::default()).expect("serialize into a short-writing writer failed");
            CHOPPY_RUNS.with(|c| c.set(c.get() + 1));
            if w.out != out {
                panic!("short-write writer: serializing into a writer that accepts a few bytes per write() call produced {} bytes, into a Vec {} bytes (first difference at byte {})", w.out.len(), out.len(), w.out.iter().zip(out.iter()).position(|(a, b)| a != b).unwrap_or(w.out.len().min(out.len())));
            }
        }
        String::from_utf8(out).expect("serializer wrote invalid UTF-8")
    })
}

thread_local! {
    static CHOPPY_RUNS: std::cell::Cell<u64> = const { std::cell::Cell::new(0) };
}

fn strip_doctype(mut t: TNode) -> TNode {
    t.children.retain(|c| !matches!(c.data, TData::Doctype { .. }));
    t
}

/// Find the first difference between two trees and classify it.
fn classify(a: &TNode, b: &TNode) -> Option<(String, String)> {
    match (&a.data, &b.data) {
        (TData::Element { prefix: p1, ns: n1, local: l1, attrs: a1, .. }, TData::Element { prefix: p2, ns: n2, local: l2, attrs: a2, .. }) => {
            if l1 != l2 || p1 != p2 {
                return Some(("structure:element-name".into(), format!("element {p1:?}:{l1} became {p2:?}:{l2}")));
            }
            if n1 != n2 {
                let kind = if p1.is_some() { "prefixed" } else if n1.is_empty() { "undeclared-default" } else { "default" };
                return Some((format!("namespace:element:{kind}"), format!("element {p1:?}:{l1} namespace {n1:?} became {n2:?}")));
            }
            if a1.len() != a2.len() {
                return Some(("attributes:count".into(), format!("element {l1}: {} attributes became {}", a1.len(), a2.len())));
            }
            for (x, y) in a1.iter().zip(a2.iter()) {
                if x.local != y.local || x.prefix != y.prefix {
                    return Some(("attributes:name".into(), format!("attribute {:?}:{} became {:?}:{}", x.prefix, x.local, y.prefix, y.local)));
                }
                if x.ns != y.ns {
                    return Some(("namespace:attribute".into(), format!("attribute {:?}:{} of <{l1}> namespace {:?} became {:?}", x.prefix, x.local, x.ns, y.ns)));
                }
                if x.value != y.value {
                    let k = if x.value.contains('\r') { "cr" } else { "other" };
                    return Some((format!("attribute-value:{k}"), format!("attribute {} value {:?} became {:?}", x.local, x.value, y.value)));
                }
            }
        },
        (TData::Text(x), TData::Text(y)) => {
            if x != y {
                let k = if x.contains('\r') { "cr" } else { "other" };
                return Some((format!("text:{k}"), format!("text {x:?} became {y:?}")));
            }
        },
        (TData::Comment(x), TData::Comment(y)) => {
            if x != y {
                return Some(("comment".into(), format!("comment {x:?} became {y:?}")));
            }
        },
        (TData::Pi { target: t1, data: d1 }, TData::Pi { target: t2, data: d2 }) => {
            if t1 != t2 || d1 != d2 {
                // data that starts with white space cannot be written in XML syntax at all
                let k = if t1 == t2 && d1.trim_start_matches([' ', '\t', '\n']) == d2 { "pi:leading-whitespace" } else { "pi" };
                return Some((k.into(), format!("PI {t1:?} {d1:?} became {t2:?} {d2:?}")));
            }
        },
        (x, y) => {
            if std::mem::discriminant(x) != std::mem::discriminant(y) {
                return Some(("structure:kind".into(), format!("{x:?} became {y:?}")));
            }
        },
    }
    if a.children.len() != b.children.len() {
        // text that vanished / merged?
        return Some(("structure:children".into(), format!("{:?}: {} children became {}", a.data, a.children.len(), b.children.len())));
    }
    for (x, y) in a.children.iter().zip(b.children.iter()) {
        if let Some(r) = classify(x, y) {
            return Some(r);
        }
    }
    None
}

fn ncname(s: &str) -> bool {
    let mut it = s.chars();
    matches!(it.next(), Some(c) if c.is_ascii_alphabetic() || c == '_' || c == 'é') && it.all(|c| c.is_ascii_alphanumeric() || matches!(c, '_' | '.' | '-' | 'é'))
}

/// Names that are not XML names cannot be expected to survive XML syntax; the property's scope is
/// "all namespace shapes, all text/attribute strings".
fn clean_names(t: &TNode) -> bool {
    let ok = match &t.data {
        TData::Element { prefix, local, attrs, .. } => {
            prefix.as_deref().map(ncname).unwrap_or(true) && ncname(local) && attrs.iter().all(|a| a.prefix.as_deref().map(ncname).unwrap_or(true) && ncname(&a.local))
        },
        TData::Pi { target, .. } => ncname(target),
        _ => true,
    };
    ok && t.children.iter().all(clean_names)
}

fn round_trip(input: &str) -> Option<Result<(), (String, String, String)>> {
    let d1 = parse(input).ok()?;
    let t1 = strip_doctype(from_rcdom(&d1.document));
    if !clean_names(&t1) {
        return None;
    }
    let ser = match serialize(&d1) {
        Ok(s) => s,
        Err(m) if m.contains("short-write writer") => return Some(Err(("serializer-short-writes".into(), m, String::new()))),
        Err(m) => return Some(Err(("serializer-panic".into(), m, String::new()))),
    };
    let d2 = parse(&ser).ok()?;
    let t2 = strip_doctype(from_rcdom(&d2.document));
    if t1 == t2 {
        return Some(Ok(()));
    }
    let (sig, d) = classify(&t1, &t2).unwrap_or(("structure".into(), dump_diff(&dump_xml(&t1), &dump_xml(&t2))));
    Some(Err((sig, d, ser)))
}

fn check(input: &str, st: &mut Stats, family: &str) {
    match round_trip(input) {
        None => st.count("skipped:parse-panicked-or-non-XML-names"),
        Some(Ok(())) => {
            st.case(Some(hash_str(input)));
            st.count(&format!("round_trips_ok:{family}"));
        },
        Some(Err((sig, d, _ser))) => {
            st.case(Some(hash_str(input)));
            let s0 = sig.clone();
            let min = minimize_str(input, &mut |s| matches!(round_trip(s), Some(Err((g, _, _))) if g == s0), 250);
            let (d2, ser2) = match round_trip(&min) {
                Some(Err((_, d, s))) => (d, s),
                _ => (d, String::new()),
            };
            st.violation(&sig, &format!("xml input={} serialises to {} and re-parses differently: {d2}", show(&min), show(&ser2)), json!({"input": min, "original": input, "serialized": ser2}));
        },
    }
}

fn targeted() -> Vec<&'static str> {
    vec![
        "<r xmlns:p=\"u\"><a p:x=\"1\"/></r>",
        "<r><p:a xmlns:p=\"u\"/><p:b xmlns:p=\"u\"/></r>",
        "<a>&#13;</a>",
        "<a b=\"&#13;\"/>",
        "<a xmlns=\"u\"><b xmlns=\"\"><c/></b></a>",
        "<a xmlns=\"u\"><b xmlns=\"v\"/><c/></a>",
        "<p:a xmlns:p=\"u\"><p:b xmlns:p=\"v\"><p:c/></p:b><p:d/></p:a>",
        "<a b=\"&lt;&amp;&quot;&apos;&gt;\">&lt;&amp;&gt;]]&gt;</a>",
        "<a><!-- c --><?pi d?><![CDATA[<&>]]></a>",
        "<a xml:lang=\"en\"/>",
        "<a b=\"&#10;&#9; x\"> &#10; </a>",
        "<r xmlns:p=\"u\" xmlns:q=\"u\"><p:a q:b=\"1\"/></r>",
        "<r xmlns:p=\"u\"><x xmlns:p=\"v\" p:a=\"1\"><p:y/></x></r>",
        "<r><a xmlns:p=\"u\" p:x=\"1\" p:y=\"2\"/></r>",
    ]
}

pub fn run(args: &Args) -> (Meta, Stats) {
    if let Some(p) = &args.replay {
        let mut st = Stats::new();
        let v: Value = serde_json::from_str(&std::fs::read_to_string(p).unwrap_or_default()).unwrap_or(Value::Null);
        check(v["input"].as_str().unwrap_or(""), &mut st, "replay");
        st.distinct.insert(1);
        st.distinct.insert(2);
        return (super::meta(args, "replay of one recorded case", &[]), st);
    }
    let seed = args.seed;
    let deadline = args.deadline();
    let st = par_run(nthreads(), |shard, nshards, st| {
        let mut rng = Rng::new(mix(seed ^ 0xC17, shard as u64));
        for (i, t) in targeted().iter().enumerate() {
            if i % nshards == shard {
                check(t, st, "targeted");
            }
        }
        while !expired(deadline) {
            let input = gen::xml_ns_doc(&mut rng);
            check(&input, st, "shapes");
            if st.samples.len() < 2 && rng.chance(1, 300) {
                st.sample(json!({"input": input}));
            }
            if rng.chance(1, 8) {
                let soup = gen::xml_doc(&mut rng, 10);
                check(&soup, st, "soup");
            }
            if rng.chance(1, 40) {
                // long text / attribute values / URIs with escapable characters on and around block sizes
                let big = crate::big::big_xml(&mut rng);
                check(&big, st, "scaled-up");
            }
        }
        st.add("serializations_into_short_write_writer", CHOPPY_RUNS.with(|c| c.replace(0)));
    });
    let mut m = super::meta(
        args,
        "T1 = xml5ever parse of a namespace-shape document (prefixes used only by attributes, same prefix on siblings, default-namespace un-declaration, nested shadowing, hostile text/attribute strings with & < > \" ' ]]> -- and CR/LF/TAB via character references) or of XML soup, or of a scaled-up document (text, attribute values, comments, PIs, CDATA and namespace URIs of up to 9000 bytes with escapable characters placed on and around power-of-two offsets up to 8192, wide tags, hundreds of siblings); bytes = xml5ever::serialize(T1) (one serialization in eight is repeated into a writer that accepts 1-100 bytes per write() call and returns Interrupted now and then; the bytes must be identical); T2 = parse(bytes); T1 and T2 are compared node by node (element/attribute local names, prefixes, namespace URIs, values, text, comments, PIs; doctype excluded). Every parsed input counts as a distinct non-trivial case (hash of the input).",
        &["trees come from parsing, as the property states; RcDom is the tree representation on both sides"],
    );
    m.require = vec![("round_trips_ok:shapes".into(), 2000), ("round_trips_ok:scaled-up".into(), 300), ("serializations_into_short_write_writer".into(), 500)];
    (m, st)
}
