//! C20 — RcDom materialises sink operations faithfully (tee sink: RcDom vs abstract DOM).

use super::common::*;
use super::parse_common::*;
use crate::drive::*;
use crate::gen;
use crate::msink::{Kind, MSink, H};
use crate::prng::{hash_str, mix, Rng};
use crate::report::{catch, nthreads, par_run, Meta, Stats};
use crate::tree::{dump_html, from_rcdom, TData, TNode};
use crate::xdrive::XmlOpts;
use crate::{Args, Tier};
use html5ever::interface::{ElementFlags, NodeOrText, QuirksMode, TreeSink};
use html5ever::tendril::StrTendril;
use html5ever::{Attribute, ExpandedName, QualName};
use markup5ever::serialize::{AttrRef, Serialize, Serializer, TraversalScope};
use markup5ever_rcdom::{Handle as RcHandle, NodeData, RcDom, SerializableHandle};
use serde_json::{json, Value};
use std::borrow::Cow;
use std::rc::Rc;

#[derive(Clone)]
pub struct TH(pub RcHandle, pub H);

pub struct Tee {
    pub rc: RcDom,
    pub m: MSink,
}

impl Tee {
    pub fn new() -> Tee {
        Tee { rc: RcDom::default(), m: MSink::new() }
    }
}

fn split(c: NodeOrText<TH>) -> (NodeOrText<RcHandle>, NodeOrText<H>) {
    match c {
        NodeOrText::AppendNode(TH(a, b)) => (NodeOrText::AppendNode(a), NodeOrText::AppendNode(b)),
        NodeOrText::AppendText(t) => (NodeOrText::AppendText(t.clone()), NodeOrText::AppendText(t)),
    }
}

impl TreeSink for Tee {
    type Handle = TH;
    type Output = Tee;
    type ElemName<'a> = ExpandedName<'a>;
    fn finish(self) -> Tee {
        self
    }
    fn parse_error(&self, msg: Cow<'static, str>) {
        self.rc.parse_error(msg.clone());
        self.m.parse_error(msg);
    }
    fn get_document(&self) -> TH {
        TH(self.rc.get_document(), self.m.get_document())
    }
    fn elem_name<'a>(&'a self, t: &'a TH) -> ExpandedName<'a> {
        let _ = self.m.elem_name(&t.1);
        self.rc.elem_name(&t.0)
    }
    fn create_element(&self, name: QualName, attrs: Vec<Attribute>, flags: ElementFlags) -> TH {
        let mut f2 = ElementFlags::default();
        f2.template = flags.template;
        f2.mathml_annotation_xml_integration_point = flags.mathml_annotation_xml_integration_point;
        f2.had_duplicate_attributes = flags.had_duplicate_attributes;
        TH(self.rc.create_element(name.clone(), attrs.clone(), flags), self.m.create_element(name, attrs, f2))
    }
    fn create_comment(&self, text: StrTendril) -> TH {
        TH(self.rc.create_comment(text.clone()), self.m.create_comment(text))
    }
    fn create_pi(&self, target: StrTendril, data: StrTendril) -> TH {
        TH(self.rc.create_pi(target.clone(), data.clone()), self.m.create_pi(target, data))
    }
    fn append(&self, parent: &TH, child: NodeOrText<TH>) {
        let (a, b) = split(child);
        self.rc.append(&parent.0, a);
        self.m.append(&parent.1, b);
    }
    fn append_based_on_parent_node(&self, element: &TH, prev: &TH, child: NodeOrText<TH>) {
        let (a, b) = split(child);
        self.rc.append_based_on_parent_node(&element.0, &prev.0, a);
        self.m.append_based_on_parent_node(&element.1, &prev.1, b);
    }
    fn append_doctype_to_document(&self, n: StrTendril, p: StrTendril, s: StrTendril) {
        self.rc.append_doctype_to_document(n.clone(), p.clone(), s.clone());
        self.m.append_doctype_to_document(n, p, s);
    }
    fn mark_script_already_started(&self, n: &TH) {
        self.rc.mark_script_already_started(&n.0);
        self.m.mark_script_already_started(&n.1);
    }
    fn pop(&self, n: &TH) {
        self.rc.pop(&n.0);
        self.m.pop(&n.1);
    }
    fn get_template_contents(&self, t: &TH) -> TH {
        TH(self.rc.get_template_contents(&t.0), self.m.get_template_contents(&t.1))
    }
    fn same_node(&self, x: &TH, y: &TH) -> bool {
        let a = self.rc.same_node(&x.0, &y.0);
        let b = self.m.same_node(&x.1, &y.1);
        debug_assert_eq!(a, b);
        a
    }
    fn set_quirks_mode(&self, mode: QuirksMode) {
        self.rc.set_quirks_mode(mode);
        self.m.set_quirks_mode(mode);
    }
    fn append_before_sibling(&self, sibling: &TH, new_node: NodeOrText<TH>) {
        let (a, b) = split(new_node);
        self.rc.append_before_sibling(&sibling.0, a);
        self.m.append_before_sibling(&sibling.1, b);
    }
    fn add_attrs_if_missing(&self, t: &TH, attrs: Vec<Attribute>) {
        self.rc.add_attrs_if_missing(&t.0, attrs.clone());
        self.m.add_attrs_if_missing(&t.1, attrs);
    }
    fn associate_with_form(&self, t: &TH, f: &TH, nodes: (&TH, Option<&TH>)) {
        self.rc.associate_with_form(&t.0, &f.0, (&nodes.0 .0, nodes.1.map(|n| &n.0)));
        self.m.associate_with_form(&t.1, &f.1, (&nodes.0 .1, nodes.1.map(|n| &n.1)));
    }
    fn remove_from_parent(&self, t: &TH) {
        self.rc.remove_from_parent(&t.0);
        self.m.remove_from_parent(&t.1);
    }
    fn reparent_children(&self, n: &TH, p: &TH) {
        self.rc.reparent_children(&n.0, &p.0);
        self.m.reparent_children(&n.1, &p.1);
    }
    fn is_mathml_annotation_xml_integration_point(&self, h: &TH) -> bool {
        let a = self.rc.is_mathml_annotation_xml_integration_point(&h.0);
        let _ = self.m.is_mathml_annotation_xml_integration_point(&h.1);
        a
    }
    fn set_current_line(&self, l: u64) {
        self.rc.set_current_line(l);
        self.m.set_current_line(l);
    }
    fn allow_declarative_shadow_roots(&self, _p: &TH) -> bool {
        false
    }
    fn maybe_clone_an_option_into_selectedcontent(&self, o: &TH) {
        self.rc.maybe_clone_an_option_into_selectedcontent(&o.0);
        self.m.maybe_clone_an_option_into_selectedcontent(&o.1);
    }
}

fn strip_dup(t: &mut TNode) {
    let mut stack = vec![t];
    while let Some(n) = stack.pop() {
        if let TData::Element { dup_attrs, .. } = &mut n.data {
            *dup_attrs = false;
        }
        if let Some(c) = n.contents.as_mut() {
            stack.push(c);
        }
        for c in n.children.iter_mut() {
            stack.push(c);
        }
    }
}

/// every node's parent link names exactly the node whose child list contains it
fn audit_parent_links(root: &RcHandle) -> Option<String> {
    let mut stack = vec![root.clone()];
    let mut n = 0;
    while let Some(h) = stack.pop() {
        n += 1;
        for c in h.children.borrow().iter() {
            let p = c.parent.take();
            let up = p.as_ref().and_then(|w| w.upgrade());
            c.parent.set(p);
            match up {
                Some(pp) if Rc::ptr_eq(&pp, &h) => {},
                Some(_) => return Some(format!("a child's parent link points to a different node than the one whose children contain it (child {:?})", short(c))),
                None => return Some(format!("a child has no parent link (child {:?})", short(c))),
            }
            stack.push(c.clone());
        }
        if let NodeData::Element { template_contents, .. } = &h.data {
            if let Some(tc) = template_contents.borrow().as_ref() {
                stack.push(tc.clone());
            }
        }
    }
    let _ = n;
    None
}

fn short(h: &RcHandle) -> String {
    match &h.data {
        NodeData::Element { name, .. } => format!("<{}>", name.local),
        NodeData::Text { contents } => format!("text {:?}", contents.borrow().chars().take(12).collect::<String>()),
        NodeData::Comment { .. } => "comment".into(),
        _ => "node".into(),
    }
}

/// Serializer that records what it is shown, to check "each node once in document order".
#[derive(Default)]
struct RecSer {
    events: Vec<String>,
}
impl Serializer for RecSer {
    fn start_elem<'a, I: Iterator<Item = AttrRef<'a>>>(&mut self, name: QualName, attrs: I) -> std::io::Result<()> {
        self.events.push(format!("<{}{}", name.local, attrs.map(|(n, v)| format!(" {}={v:?}", n.local)).collect::<String>()));
        Ok(())
    }
    fn end_elem(&mut self, name: QualName) -> std::io::Result<()> {
        self.events.push(format!("</{}", name.local));
        Ok(())
    }
    fn write_text(&mut self, text: &str) -> std::io::Result<()> {
        self.events.push(format!("t{text:?}"));
        Ok(())
    }
    fn write_comment(&mut self, text: &str) -> std::io::Result<()> {
        self.events.push(format!("c{text:?}"));
        Ok(())
    }
    fn write_doctype(&mut self, name: &str) -> std::io::Result<()> {
        self.events.push(format!("d{name:?}"));
        Ok(())
    }
    fn write_processing_instruction(&mut self, target: &str, data: &str) -> std::io::Result<()> {
        self.events.push(format!("p{target:?}{data:?}"));
        Ok(())
    }
}

fn expected_events(t: &TNode, out: &mut Vec<String>) {
    // iterative pre/post order over the model tree (template contents are not serialized by RcDom)
    enum It<'a> {
        Open(&'a TNode),
        Close(String),
    }
    let mut stack: Vec<It> = t.children.iter().rev().map(It::Open).collect();
    while let Some(it) = stack.pop() {
        match it {
            It::Close(s) => out.push(s),
            It::Open(n) => match &n.data {
                TData::Element { local, attrs, .. } => {
                    out.push(format!("<{local}{}", attrs.iter().map(|a| format!(" {}={:?}", a.local, a.value)).collect::<String>()));
                    stack.push(It::Close(format!("</{local}")));
                    for c in n.children.iter().rev() {
                        stack.push(It::Open(c));
                    }
                },
                TData::Text(x) => out.push(format!("t{x:?}")),
                TData::Comment(x) => out.push(format!("c{x:?}")),
                TData::Doctype { name, .. } => out.push(format!("d{name:?}")),
                TData::Pi { target, data } => out.push(format!("p{target:?}{data:?}")),
                _ => {},
            },
        }
    }
}

/// Compare the two halves of a tee after some operations. Returns (signature, detail).
fn compare(tee: &Tee, st: &mut Stats) -> Option<(String, String)> {
    let mut a = from_rcdom(&tee.rc.document);
    let mut b = tee.m.document_tree();
    strip_dup(&mut a);
    strip_dup(&mut b);
    st.add("nodes_compared", b.count_nodes() as u64);
    if a != b {
        let (da, db) = (dump_html(&a), dump_html(&b));
        let has_sc = db.contains("<selectedcontent>");
        return Some((if has_sc { "tree:selectedcontent".into() } else { "tree".into() }, format!("RcDom vs abstract DOM: {}", dump_diff(&da, &db))));
    }
    if let Some(e) = audit_parent_links(&tee.rc.document) {
        return Some(("parent-link".into(), e));
    }
    let mut ser = RecSer::default();
    let h: SerializableHandle = tee.rc.document.clone().into();
    if h.serialize(&mut ser, TraversalScope::ChildrenOnly(None)).is_ok() {
        let mut want = vec![];
        expected_events(&b, &mut want);
        st.count("serialize_order_audits");
        if ser.events != want {
            let i = ser.events.iter().zip(want.iter()).position(|(x, y)| x != y).unwrap_or(ser.events.len().min(want.len()));
            return Some(("serialize-order".into(), format!("serializer saw {:?} where document order has {:?} (event #{i})", ser.events.get(i), want.get(i))));
        }
    }
    None
}

fn check_html(input: &str, opts: &HtmlOpts, st: &mut Stats) {
    let r = catch(|| {
        let tok = make_html_parser(Tee::new(), opts);
        let q = html5ever::buffer_queue::BufferQueue::default();
        q.push_back(StrTendril::from_slice(input));
        while !matches!(tok.feed(&q), html5ever::TokenizerResult::Done) {}
        tok.end();
        tok.sink.sink
    });
    match r {
        Err(m) => {
            // a panic inside RcDom while the abstract DOM accepted the same calls
            st.violation(&format!("panic:{}", crate::report::panic_signature(&m)), &format!("input={} {}: {m}", show(input), opts.describe()), json!({"kind": "html", "input": input, "opts": super::c03::html_opts_json(opts)}));
        },
        Ok(tee) => {
            st.case(if tee.m.node_count() > 5 { Some(hash_str(&format!("{input}{}", opts.describe()))) } else { None });
            for k in ["reparent_children", "append_based_on_parent_node", "add_attrs_if_missing", "remove_from_parent", "maybe_clone_an_option_into_selectedcontent", "get_template_contents"] {
                if let Some(n) = tee.m.inner.borrow().calls.get(k) {
                    st.add(&format!("call:{k}"), *n);
                }
            }
            st.add("selectedcontent_mirrorings_that_copied_nodes", tee.m.inner.borrow().mirrorings_with_copies);
            if let Some((sig, d)) = compare(&tee, st) {
                st.violation(&format!("html:{sig}"), &format!("input={} {}: {d}", show(input), opts.describe()), json!({"kind": "html", "input": input, "opts": super::c03::html_opts_json(opts)}));
            }
        },
    }
}

fn check_xml(input: &str, st: &mut Stats) {
    let r = catch(|| crate::xdrive::run_xml_parse_with(Tee::new(), &[input.to_string()], &XmlOpts::default(), false, &mut |_| 0).sink);
    if let Ok(tee) = r {
        st.case(if tee.m.node_count() > 3 { Some(hash_str(input)) } else { None });
        st.count("xml_runs");
        if let Some((sig, d)) = compare(&tee, st) {
            st.violation(&format!("xml:{sig}"), &format!("xml input={}: {d}", show(input)), json!({"kind": "xml", "input": input}));
        }
    }
}

// ---------------------------------------------------------------------------------------------
// direct random sequences of valid operations

fn direct_sequence(seed: u64, nops: usize, st: &mut Stats) -> Option<(String, String, Vec<String>)> {
    let mut rng = Rng::new(seed);
    let tee = Tee::new();
    let doc = tee.get_document();
    let mut nodes: Vec<TH> = vec![];
    let mut log: Vec<String> = vec![];
    // one sequence in three uses the vocabulary of customizable <select>, and mirrors options into
    // selectedcontent (the other operation the property names)
    let select_flavour = rng.chance(1, 3);
    let names: &[&str] = if select_flavour { &["select", "option", "option", "optgroup", "selectedcontent", "div", "template", "b", "hr", "button"] } else { &["div", "p", "b", "table", "template", "span"] };
    let mk = |tee: &Tee, rng: &mut Rng| -> TH {
        let n = *rng.pick(names);
        let mut attrs = if rng.chance(1, 3) { vec![Attribute { name: qual("", "a"), value: "1".into() }] } else { vec![] };
        if n == "option" && rng.chance(2, 3) {
            attrs.push(Attribute { name: qual("", "selected"), value: "".into() });
        }
        if n == "select" && rng.chance(1, 8) {
            attrs.push(Attribute { name: qual("", "multiple"), value: "".into() });
        }
        html5ever::tree_builder::create_element(tee, qual(crate::tree::NS_HTML, n), attrs)
    };
    // a root element so that there is always a container
    let root = mk(&tee, &mut rng);
    tee.append(&doc, NodeOrText::AppendNode(root.clone()));
    nodes.push(root);
    let kind_of = |tee: &Tee, h: &TH| tee.m.inner.borrow().nodes[h.1.id].kind.clone();
    let parent_of = |tee: &Tee, h: &TH| tee.m.inner.borrow().nodes[h.1.id].parent;
    let is_anc = |tee: &Tee, anc: &TH, node: &TH| {
        // inclusive ancestor test on the abstract DOM
        let i = tee.m.inner.borrow();
        let mut cur = Some(node.1.id);
        while let Some(c) = cur {
            if c == anc.1.id {
                return true;
            }
            cur = match (&i.nodes[c].kind, i.nodes[c].parent) {
                (_, Some(p)) => Some(p),
                (Kind::Fragment { host }, None) => Some(*host),
                _ => None,
            };
        }
        false
    };
    for opno in 0..nops {
        let i = rng.below(nodes.len());
        let target = nodes[i].clone();
        let container = matches!(kind_of(&tee, &target), Kind::Element { .. });
        match rng.below(if select_flavour { 15 } else { 12 }) {
            0 | 1 | 2 if container => {
                let c = if rng.chance(1, 4) { TH(tee.rc.create_comment("c".into()), tee.m.create_comment("c".into())) } else { mk(&tee, &mut rng) };
                log.push(format!("#{opno} append(n{}, new n{})", target.1.id, c.1.id));
                tee.append(&target, NodeOrText::AppendNode(c.clone()));
                nodes.push(c);
                st.count("direct:append-node");
            },
            3 | 4 if container => {
                let t = *rng.pick(&["x", "yz", " "]);
                log.push(format!("#{opno} append(n{}, text {t:?})", target.1.id));
                tee.append(&target, NodeOrText::AppendText(t.into()));
                st.count("direct:append-text");
            },
            5 | 6 => {
                // append_before_sibling: sibling attached and not text; new node may have a parent (even the same one)
                if parent_of(&tee, &target).is_some() && parent_of(&tee, &target) != Some(0) {
                    if rng.chance(1, 3) {
                        let t = *rng.pick(&["x", "yz"]);
                        log.push(format!("#{opno} append_before_sibling(n{}, text {t:?})", target.1.id));
                        tee.append_before_sibling(&target, NodeOrText::AppendText(t.into()));
                        st.count("direct:before-sibling-text");
                    } else {
                        let j = rng.below(nodes.len());
                        let n = if rng.chance(1, 2) { mk(&tee, &mut rng) } else { nodes[j].clone() };
                        // the new node must not be the sibling or an inclusive ancestor of the sibling's parent
                        if n.1.id != target.1.id && !is_anc(&tee, &n, &target) {
                            let same_parent = parent_of(&tee, &n) == parent_of(&tee, &target);
                            log.push(format!("#{opno} append_before_sibling(n{}, n{}{})", target.1.id, n.1.id, if same_parent { " [same parent]" } else { "" }));
                            tee.append_before_sibling(&target, NodeOrText::AppendNode(n.clone()));
                            if !nodes.iter().any(|x| x.1.id == n.1.id) {
                                nodes.push(n);
                            }
                            st.count(if same_parent { "direct:before-sibling-node-same-parent" } else { "direct:before-sibling-node" });
                        }
                    }
                }
            },
            7 => {
                if target.1.id != nodes[0].1.id {
                    log.push(format!("#{opno} remove_from_parent(n{})", target.1.id));
                    tee.remove_from_parent(&target);
                    st.count("direct:remove");
                }
            },
            8 if container => {
                let j = rng.below(nodes.len());
                let np = nodes[j].clone();
                if matches!(kind_of(&tee, &np), Kind::Element { .. }) && !is_anc(&tee, &target, &np) {
                    log.push(format!("#{opno} reparent_children(n{}, n{})", target.1.id, np.1.id));
                    tee.reparent_children(&target, &np);
                    st.count("direct:reparent");
                }
            },
            9 if container => {
                // names that share a local name across namespaces (href / xlink:href, lang / xml:lang): "an attribute
                // with that name" means the qualified name, not the local name
                let mut attrs = vec![Attribute { name: qual("", *rng.pick(&["a", "b", "c"])), value: "2".into() }, Attribute { name: qual("", "d"), value: "3".into() }];
                if rng.chance(1, 2) {
                    const XLINK: &str = "http://www.w3.org/1999/xlink";
                    const XML: &str = "http://www.w3.org/XML/1998/namespace";
                    let pool: [(Option<&str>, &str, &str); 8] = [(None, "", "href"), (Some("xlink"), XLINK, "href"), (None, "", "lang"), (Some("xml"), XML, "lang"), (Some("xlink"), XLINK, "a"), (Some("xml"), XML, "d"), (None, "", "title"), (Some("xlink"), XLINK, "title")];
                    let first = rng.below(pool.len());
                    for (k, value) in [(first, "n1"), ((first + 1 + rng.below(pool.len() - 1)) % pool.len(), "n2")] {
                        let (p, ns, l) = pool[k];
                        attrs.push(Attribute { name: html5ever::QualName::new(p.map(html5ever::Prefix::from), html5ever::Namespace::from(ns), html5ever::LocalName::from(l)), value: value.into() });
                    }
                    st.count("direct:add-attrs-with-namespaced-names");
                }
                log.push(format!("#{opno} add_attrs_if_missing(n{})", target.1.id));
                tee.add_attrs_if_missing(&target, attrs);
                st.count("direct:add-attrs");
            },
            10 if container => {
                // re-append a detached node
                let j = rng.below(nodes.len());
                let n = nodes[j].clone();
                if parent_of(&tee, &n).is_none() && n.1.id != nodes[0].1.id && !is_anc(&tee, &n, &target) {
                    log.push(format!("#{opno} append(n{}, detached n{})", target.1.id, n.1.id));
                    tee.append(&target, NodeOrText::AppendNode(n));
                    st.count("direct:append-detached");
                }
            },
            11 | 12 if select_flavour => {
                // mirror some option (not necessarily the target) into its select's selectedcontent
                let opts: Vec<TH> = nodes.iter().filter(|n| tee.m.describe(n.1.id).starts_with("<option>")).cloned().collect();
                if !opts.is_empty() {
                    let o = opts[rng.below(opts.len())].clone();
                    log.push(format!("#{opno} maybe_clone_an_option_into_selectedcontent(n{})", o.1.id));
                    tee.maybe_clone_an_option_into_selectedcontent(&o);
                    st.count("direct:clone-option");
                }
            },
            _ => {
                if tee.m.describe(target.1.id).starts_with("<template>") {
                    let c = tee.get_template_contents(&target);
                    let e = mk(&tee, &mut rng);
                    log.push(format!("#{opno} append(contents of n{}, new n{})", target.1.id, e.1.id));
                    tee.append(&c, NodeOrText::AppendNode(e.clone()));
                    nodes.push(e);
                    st.count("direct:template-contents");
                }
            },
        }
        if opno % 8 == 7 || opno + 1 == nops {
            if let Some((sig, d)) = compare(&tee, st) {
                return Some((sig, d, log.iter().rev().take(10).rev().cloned().collect()));
            }
        }
    }
    st.add("selectedcontent_mirrorings_that_copied_nodes", tee.m.inner.borrow().mirrorings_with_copies);
    None
}

pub fn run(args: &Args) -> (Meta, Stats) {
    if let Some(p) = &args.replay {
        let mut st = Stats::new();
        let v: Value = serde_json::from_str(&std::fs::read_to_string(p).unwrap_or_default()).unwrap_or(Value::Null);
        st.distinct.insert(1);
        st.distinct.insert(2);
        match v["kind"].as_str().unwrap_or("") {
            "xml" => check_xml(v["input"].as_str().unwrap_or(""), &mut st),
            "direct" => {
                st.case(Some(3));
                if let Some((sig, d, ops)) = direct_sequence(v["seq_seed"].as_str().and_then(|s| s.parse().ok()).unwrap_or(0), v["nops"].as_u64().unwrap_or(50) as usize, &mut st) {
                    st.violation(&format!("direct:{sig}"), &format!("{d}; last operations: {}", ops.join(" ; ")), v.clone());
                }
            },
            _ => check_html(v["input"].as_str().unwrap_or(""), &super::c03::opts_from_json(&v["opts"]), &mut st),
        }
        return (super::meta(args, "replay of one recorded case", &[]), st);
    }
    let seed = args.seed;
    let contexts = gen::fragment_contexts();
    let deadline = args.deadline();
    let sanit = args.tier == Tier::Sanitizer;
    let san_n = args.san_n(30);
    let st = par_run(if sanit { 1 } else { nthreads() }, |shard, _n, st| {
        let mut rng = Rng::new(mix(seed ^ 0xC20, shard as u64));
        let mut k = 0u64;
        loop {
            if sanit {
                if k >= san_n {
                    break;
                }
            } else if expired(deadline) {
                break;
            }
            k += 1;
            match k % 6 {
                0 => {
                    let x = gen::xml_doc(&mut rng, 12);
                    check_xml(&x, st);
                },
                1 | 2 => {
                    let sseed = mix(mix(seed ^ 0xD20, shard as u64), k);
                    let nops = 10 + (sseed % 60) as usize;
                    st.case(Some(sseed));
                    st.count("direct_sequences");
                    match catch(|| direct_sequence(sseed, nops, st)) {
                        Ok(None) => {},
                        Ok(Some((sig, d, ops))) => {
                            // shrink the number of operations
                            let mut lo = 1;
                            let mut hi = nops;
                            while lo < hi {
                                let mid = (lo + hi) / 2;
                                if matches!(catch(|| direct_sequence(sseed, mid, &mut Stats::new())), Ok(Some(_)) | Err(_)) {
                                    hi = mid;
                                } else {
                                    lo = mid + 1;
                                }
                            }
                            // the culprit is the last operation of the shrunk sequence
                            let (d, ops) = match catch(|| direct_sequence(sseed, hi, &mut Stats::new())) {
                                Ok(Some((_, d2, o2))) => (d2, o2),
                                _ => (d, ops),
                            };
                            let last = ops.last().cloned().unwrap_or_default();
                            let opkind = last.split(['(', ' ']).nth(1).unwrap_or("").to_string();
                            let same = if last.contains("[same parent]") { ":same-parent" } else { "" };
                            st.violation(&format!("direct:{sig}:{opkind}{same}"), &format!("direct operation sequence: {d}; last operations: {}", ops.join(" ; ")), json!({"kind": "direct", "seq_seed": sseed.to_string(), "nops": hi}));
                        },
                        Err(m) => st.violation(&format!("direct:panic:{}", crate::report::panic_signature(&m)), &format!("direct operation sequence seed={sseed}: RcDom panicked on operations the abstract DOM accepted: {m}"), json!({"kind": "direct", "seq_seed": sseed.to_string(), "nops": nops})),
                    }
                },
                _ => {
                    let (mut input, opts) = random_html_case(&mut rng, &contexts, &[], false);
                    if rng.chance(1, 8) {
                        input = gen::select_doc(&mut rng);
                        st.count("select_grammar_inputs");
                    } else if rng.chance(1, 10) {
                        input.push_str(rng.pick_s(&["<select><button><selectedcontent></selectedcontent></button><option selected>x<b>y</b></option></select>", "<select><selectedcontent></selectedcontent><option selected>a</option><option>b</option></select>", "<select multiple><selectedcontent></selectedcontent><option selected>a</option></select>"]));
                    }
                    check_html(&input, &opts, st);
                    st.count("html_runs");
                    if st.samples.len() < 2 && rng.chance(1, 300) {
                        st.sample(json!({"input": input, "opts": opts.describe()}));
                    }
                },
            }
        }
    });
    let mut m = super::meta(
        args,
        "a tee sink forwards every TreeSink call to RcDom and to the abstract DOM; after each parse (HTML documents/fragments incl. adoption agency, foster parenting, duplicate <html>/<body>, a grammar of customizable-select documents with selected options, optgroup/div/datalist wrappers, nested selectedcontent and templates inside options; XML) and every 8 operations of direct random sequences of VALID operations (append of parentless nodes and text, append_before_sibling incl. nodes that already have a parent - also the same parent -, remove_from_parent, reparent_children, add_attrs_if_missing, template contents, and - in a third of the sequences, built from select/option/optgroup/selectedcontent/template elements - maybe_clone_an_option_into_selectedcontent) the two trees must be structurally equal; every RcDom parent link must name the node whose child list contains the child; a recording Serializer driven by SerializableHandle must see each node once in document order. Non-trivial = more than 5 nodes / any direct sequence; distinct by input or sequence seed.",
        &["the abstract DOM implements the documented sink semantics (text merging on append and before a sibling, add_attrs never overwrites, reparent moves in order, option -> first selectedcontent descendant in tree order with deep copies)", "RcDom does not store the duplicate-attribute flag; it is not compared"],
    );
    if !sanit {
        m.require = vec![("html_runs".into(), 2000), ("xml_runs".into(), 500), ("direct_sequences".into(), 2000), ("direct:before-sibling-node-same-parent".into(), 100), ("serialize_order_audits".into(), 2000), ("call:reparent_children".into(), 50), ("select_grammar_inputs".into(), 200), ("direct:clone-option".into(), 500), ("selectedcontent_mirrorings_that_copied_nodes".into(), 100)];
    }
    (m, st)
}
