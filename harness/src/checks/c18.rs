//! C18 — trace_handles reports every node the tree builder still needs (GC-simulating sink).

use super::common::*;
use super::parse_common::*;
use crate::drive::*;
use crate::gen;
use crate::prng::{hash_str, mix, Rng};
use crate::report::{catch, nthreads, par_run, Meta, Stats};
use crate::tree::{dump_html, dump_xml};
use crate::xdrive::{run_xml_parse_scripted, XmlOpts};
use crate::Args;
use serde_json::{json, Value};

fn check_html(input: &str, cuts: &[usize], opts: &HtmlOpts, script: Option<u64>, st: &mut Stats) {
    // reference: the same schedule (and the same script actions) without collection, so that only
    // the effect of collecting is observed
    let chunks = split_at_chars(input, cuts);
    let reference = match catch(|| run_html_parse_scripted(&chunks, opts, Gc::Off, false, &mut no_script, script)) {
        Ok(r) => dump_html(&r.sink.document_tree()),
        Err(_) => {
            st.count("reference_panicked");
            return;
        },
    };
    let rep = || json!({"kind": "html", "input": input, "cuts": cuts, "opts": super::c03::html_opts_json(opts), "script_seed": script.map(|s| s.to_string())});
    match catch(|| run_html_parse_scripted(&chunks, opts, Gc::EverySuspension, false, &mut no_script, script)) {
        Err(m) => {
            // the same schedule without collection completed: collecting changed the parse
            st.count("gc_run_panicked");
            st.violation(&format!("html:panic-under-gc:{}", crate::report::panic_signature(&m)), &format!("input={} {}: the run with collection panicked, the run without did not: {m}", show(input), opts.describe()), rep());
        },
        Ok(r) => {
            let (colls, pois, uses) = {
                let i = r.sink.inner.borrow();
                (i.collections, i.poisoned_total, i.handle_uses_checked)
            };
            st.add("collections", colls);
            st.add("nodes_collected", pois);
            st.add("handle_uses_checked_after_collections", uses);
            st.add("script_dom_mutations", r.script_actions as u64);
            st.case(if pois > 0 { Some(hash_str(&format!("{input}{cuts:?}{}", opts.describe()))) } else { None });
            if pois > 0 {
                st.count("runs_that_collected_something");
            }
            let viol: Vec<_> = r.sink.inner.borrow().violations.iter().filter(|v| v.0 == "use-after-collect").cloned().collect();
            if let Some((_, d)) = viol.first() {
                // signature: which kind of node was lost (tag name), keeps different omissions apart
                let what = d.split(':').nth(1).unwrap_or("").trim().split('#').next().unwrap_or("").to_string();
                st.violation(&format!("html:use-after-collect{}:{what}", if script.is_some() { ":scripted" } else { "" }), &format!("input={} cuts={:?} {}: {d}", show(input), &cuts[..cuts.len().min(6)], opts.describe()), rep());
                return;
            }
            let d = dump_html(&r.sink.document_tree());
            if d != reference {
                st.violation("html:tree-differs-under-gc", &format!("input={} {}: {}", show(input), opts.describe(), dump_diff(&reference, &d)), rep());
            }
            if st.samples.len() < 2 && pois > 2 {
                st.sample(json!({"input": input, "chunks": chunks.len(), "collections": colls, "nodes_collected": pois}));
            }
        },
    }
}

fn check_xml(input: &str, cuts: &[usize], script: Option<u64>, st: &mut Stats) {
    let o = XmlOpts::default();
    let chunks = split_at_chars(input, cuts);
    let reference = match catch(|| run_xml_parse_scripted(&chunks, &o, false, false, script)) {
        Ok(r) => dump_xml(&r.sink.document_tree()),
        Err(_) => return,
    };
    if let Ok(r) = catch(|| run_xml_parse_scripted(&chunks, &o, true, false, script)) {
        let (colls, pois) = {
            let i = r.sink.inner.borrow();
            (i.collections, i.poisoned_total)
        };
        st.add("collections", colls);
        st.add("nodes_collected", pois);
        st.count("xml_runs");
        st.case(if pois > 0 { Some(hash_str(&format!("x{input}{cuts:?}"))) } else { None });
        let rep = json!({"kind": "xml", "input": input, "cuts": cuts, "script_seed": script.map(|s| s.to_string())});
        let viol: Vec<_> = r.sink.inner.borrow().violations.iter().filter(|v| v.0 == "use-after-collect").cloned().collect();
        if let Some((_, d)) = viol.first() {
            st.violation(if script.is_some() { "xml:use-after-collect:scripted" } else { "xml:use-after-collect" }, &format!("xml input={} script={script:?}: {d}", show(input)), rep);
            return;
        }
        let d = dump_xml(&r.sink.document_tree());
        if d != reference {
            st.violation("xml:tree-differs-under-gc", &format!("xml input={}: {}", show(input), dump_diff(&reference, &d)), rep);
        }
    }
}

pub fn run(args: &Args) -> (Meta, Stats) {
    if let Some(p) = &args.replay {
        let mut st = Stats::new();
        let v: Value = serde_json::from_str(&std::fs::read_to_string(p).unwrap_or_default()).unwrap_or(Value::Null);
        let cuts: Vec<usize> = v["cuts"].as_array().map(|a| a.iter().filter_map(|x| x.as_u64()).map(|x| x as usize).collect()).unwrap_or_default();
        let script = v["script_seed"].as_str().and_then(|s| s.parse().ok());
        if v["kind"] == "xml" {
            check_xml(v["input"].as_str().unwrap_or(""), &cuts, script, &mut st);
        } else {
            check_html(v["input"].as_str().unwrap_or(""), &cuts, &super::c03::opts_from_json(&v["opts"]), script, &mut st);
        }
        return (super::meta(args, "replay of one recorded case", &[]), st);
    }
    let seed = args.seed;
    let contexts = gen::fragment_contexts();
    let deadline = args.deadline();
    let st = par_run(nthreads(), |shard, _n, st| {
        let mut rng = Rng::new(mix(seed ^ 0xC18, shard as u64));
        let mut k = 0u64;
        while !expired(deadline) {
            k += 1;
            if k % 6 == 0 {
                let input = if rng.chance(1, 2) { gen::xml_ns_doc(&mut rng) } else { gen::xml_doc(&mut rng, 14) };
                let n = input.chars().count();
                check_xml(&input, &gen::one_char_cuts(n), None, st);
                // the same with a page script that removes / moves attached elements at suspension points
                for _ in 0..3 {
                    let ss = rng.next_u64();
                    check_xml(&input, &gen::one_char_cuts(n), Some(ss), st);
                    st.count("scripted_runs");
                }
                continue;
            }
            let (mut input, opts) = random_html_case(&mut rng, &contexts, &[], false);
            if k % 5 == 0 {
                // nodes that stay referenced by the tree builder while detached from the document:
                // formatting elements opened before a frameset replaces body, then whitespace in
                // "after after frameset" (reconstruction looks the old handles up again)
                let parts = ["<b>", "<i>", "<a>", "<font>", "<frameset>", "</frameset>", "</html>", " ", "\n", "<noframes>", "</noframes>", "<form>", "<template>", "</template>", "<p>", "<table>", "<!-- c -->"];
                let cnt = rng.range(2, 9);
                input = (0..cnt).map(|_| rng.pick_s(&parts)).collect::<String>();
                st.count("detach_focused_inputs");
            }
            let n = input.chars().count();
            if n > 300 {
                continue;
            }
            // a collection after every character, plus one random schedule
            check_html(&input, &gen::one_char_cuts(n), &opts, None, st);
            if rng.chance(1, 3) {
                let cuts = gen::random_cuts(&mut rng, n);
                check_html(&input, &cuts, &opts, None, st);
            }
            // the same with a page script that removes / moves attached elements at suspension points
            for _ in 0..2 {
                let ss = rng.next_u64();
                check_html(&input, &gen::one_char_cuts(n), &opts, Some(ss), st);
                st.count("scripted_runs");
            }
            st.count(if opts.context.is_some() { "html_fragment_inputs" } else { "html_document_inputs" });
        }
    });
    let mut m = super::meta(
        args,
        "documents, fragments (~60 contexts) and XML inputs from the grammar/scenario/soup generators are parsed in 1-character chunks (and random schedules, with script pauses), both without DOM mutation and with a simulated page script that removes or moves attached elements at suspension points (deterministic in a seed; the reference run performs the same mutations without collecting); at every feed() return the harness calls trace_handles and the GC-simulating sink poisons every node not reachable from the traced handles over parent/child/template-contents edges; any later sink call that receives a poisoned handle is a violation, and the final tree must equal the tree of a run without collection. Non-trivial = the run actually collected at least one node; distinct by hash of input+schedule+options.",
        &["reachability uses DOM edges parent, children, template contents <-> host, as the property states ('everything connected to them in the DOM')"],
    );
    m.require = vec![("runs_that_collected_something".into(), 500), ("collections".into(), 100000), ("xml_runs".into(), 200), ("html_fragment_inputs".into(), 200), ("scripted_runs".into(), 2000), ("script_dom_mutations".into(), 5000)];
    (m, st)
}
