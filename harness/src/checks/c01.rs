//! C01 — HTML tokenization equals the WHATWG algorithm (differential against the reference model).

use super::common::*;
use crate::drive::*;
use crate::gen::{self, StartState};
use crate::model::reftok::run_reftok;
use crate::model::{PolicySink, RefTokOpts};
use crate::prng::{hash_str, mix, Rng};
use crate::report::{catch, nthreads, par_run, Meta, Stats};
use crate::tokrec::{coalesce, Answer, Policy, RTok, ALL_ANSWERS};
use crate::Args;
use serde_json::{json, Value};

#[derive(Clone, Debug)]
pub struct Case {
    pub input: String,
    pub start: StartState,
    pub last_tag: Option<String>,
    pub policy: Policy,
    pub discard_bom: bool,
}

impl Case {
    pub fn to_json(&self) -> Value {
        json!({"input": self.input, "start": start_state_name(self.start), "last_tag": self.last_tag, "policy": super::c03::policy_json(&self.policy), "discard_bom": self.discard_bom})
    }
    pub fn from_json(v: &Value) -> Case {
        Case {
            input: v["input"].as_str().unwrap_or("").to_string(),
            start: parse_start_state(v["start"].as_str().unwrap_or("Data")),
            last_tag: v["last_tag"].as_str().map(|s| s.to_string()),
            policy: super::c03::policy_from_json(&v["policy"]),
            discard_bom: v["discard_bom"].as_bool().unwrap_or(true),
        }
    }
}

pub fn model_tokens(c: &Case) -> (Vec<(RTok, u64)>, crate::model::reftok::Coverage) {
    let mut sink = PolicySink::new(c.policy.clone());
    let cov = run_reftok(&c.input, &RefTokOpts { start: c.start, last_start_tag: c.last_tag.clone(), discard_bom: c.discard_bom }, &mut sink);
    (sink.toks, cov)
}

pub fn impl_tokens(c: &Case, cuts: &[usize]) -> Result<Vec<(RTok, u64)>, String> {
    impl_tokens_with(c, cuts, false)
}

/// `exact_errors` only changes the wording and number of parse errors (dropped by coalesce)
pub fn impl_tokens_with(c: &Case, cuts: &[usize], exact_errors: bool) -> Result<Vec<(RTok, u64)>, String> {
    // PLAINTEXT is entered through Tokenizer::set_plaintext_state() for inputs of even length, through
    // TokenizerOpts::initial_state for the others (both are public ways to start there)
    let via_setter = c.start == StartState::Plaintext && c.input.len() % 2 == 0;
    let opts = HtmlTokOpts {
        exact_errors,
        discard_bom: c.discard_bom,
        profile: false,
        initial_state: if via_setter { None } else { Some(real_state(c.start)) },
        last_start_tag: c.last_tag.clone(),
        set_plaintext_first: via_setter,
    };
    let chunks = split_at_chars(&c.input, cuts);
    catch(|| run_html_tokenizer(&chunks, &opts, &c.policy, false)).map(|r| coalesce(&r.raw, false))
}

fn kind(t: Option<&(RTok, u64)>) -> &'static str {
    match t.map(|t| &t.0) {
        None => "none",
        Some(RTok::Doctype { .. }) => "doctype",
        Some(RTok::Start { .. }) => "start",
        Some(RTok::End { .. }) => "end",
        Some(RTok::Comment(_)) => "comment",
        Some(RTok::Chars(_)) => "chars",
        Some(RTok::Null) => "null",
        Some(RTok::Eof) => "eof",
        Some(RTok::Error(_)) => "error",
    }
}

/// Returns true when impl and model agree.
fn agree(c: &Case) -> Option<bool> {
    let (m, _) = model_tokens(c);
    let i = impl_tokens(c, &[]).ok()?;
    Some(first_diff(&i, &m, false).is_none())
}

pub fn check_case(c: &Case, st: &mut Stats, want_cov: bool) {
    let (model, cov) = match catch(|| model_tokens(c)) {
        Ok(x) => x,
        Err(m) => {
            st.inconclusive(&format!("reference tokenizer panicked on {}: {m}", show(&c.input)));
            return;
        },
    };
    if want_cov {
        for (s, k) in &cov {
            st.observe("model_transitions(state,class)", &format!("{s}|{k}"));
            st.observe("model_states", s);
        }
    }
    let imp = match impl_tokens(c, &[]) {
        Ok(i) => i,
        Err(m) => {
            // no tokens at all: the implementation panicked where the algorithm defines a result
            st.case(Some(hash_str(&format!("{c:?}"))));
            st.violation(&format!("tokens:impl-panic:{}", crate::report::panic_signature(&m)), &format!("input={} start={} policy={}: the tokenizer panicked: {m}", show(&c.input), start_state_name(c.start), c.policy.describe()), json!({"case": c.to_json()}));
            return;
        },
    };
    st.case(if model.len() > 2 { Some(hash_str(&format!("{c:?}"))) } else { None });
    st.add("tokens_compared", model.len() as u64);
    if let Some(d) = first_diff(&imp, &model, false) {
        // minimise while the disagreement persists
        let mut probe = c.clone();
        let min = minimize_str(
            &c.input,
            &mut |s| {
                probe.input = s.to_string();
                agree(&probe) == Some(false)
            },
            300,
        );
        let mut mc = c.clone();
        mc.input = min.clone();
        let (mm, _) = model_tokens(&mc);
        let mi = impl_tokens(&mc, &[]).unwrap_or_default();
        let idx = mi.iter().zip(mm.iter()).position(|(a, b)| a.0 != b.0).unwrap_or(mi.len().min(mm.len()));
        let sig = format!("tokens:impl-{}/spec-{}", kind(mi.get(idx)), kind(mm.get(idx)));
        st.violation(
            &sig,
            &format!(
                "minimised input={} start={} last={:?} policy={} bom={}: implementation vs WHATWG model: {} (original input {}: {d})",
                show(&min),
                start_state_name(c.start),
                c.last_tag,
                c.policy.describe(),
                c.discard_bom,
                first_diff(&mi, &mm, false).unwrap_or_default(),
                show(&c.input)
            ),
            json!({"case": mc.to_json(), "original": c.to_json(), "impl": toks_json(&mi), "model": toks_json(&mm)}),
        );
    }
}

fn enum_cases(double: bool) -> Vec<Case> {
    let mut v = Vec::new();
    for (start, last, prefix, _name) in gen::state_prefixes() {
        for c1 in gen::CLASS_CHARS {
            if double {
                for c2 in gen::CLASS_CHARS {
                    for suf in ["", ">"] {
                        v.push(Case { input: format!("{prefix}{c1}{c2}{suf}"), start, last_tag: last.map(|s| s.to_string()), policy: Policy::TreeBuilderLike, discard_bom: true });
                    }
                }
            } else {
                for suf in gen::SUFFIXES {
                    v.push(Case { input: format!("{prefix}{c1}{suf}"), start, last_tag: last.map(|s| s.to_string()), policy: Policy::TreeBuilderLike, discard_bom: true });
                }
            }
        }
    }
    v
}

pub fn run(args: &Args) -> (Meta, Stats) {
    if let Some(p) = &args.replay {
        let mut st = Stats::new();
        let v: Value = serde_json::from_str(&std::fs::read_to_string(p).unwrap_or_default()).unwrap_or(Value::Null);
        check_case(&Case::from_json(&v["case"]), &mut st, false);
        return (super::meta(args, "replay of one recorded case", &[]), st);
    }
    let seed = args.seed;
    let single = enum_cases(false);
    let double = enum_cases(true);
    let quick = args.quick();
    let deadline = args.deadline();
    // model validation vectors
    let vec_path = args.root.join("vectors/tokenizer_vectors.json");
    let vectors = crate::model::reftok::check_vectors(vec_path.to_str().unwrap_or(""));
    let mut st = par_run(nthreads(), |shard, nshards, st| {
        let mut rng = Rng::new(mix(seed ^ 0xC01, shard as u64));
        for (i, c) in single.iter().enumerate() {
            if i % nshards == shard {
                check_case(c, st, true);
                st.count("enumerated_single");
            }
        }
        // the same single transitions under other sink policies / foreign answers
        for (i, c) in single.iter().enumerate() {
            if i % nshards == shard && i % 3 == 0 {
                let mut c2 = c.clone();
                c2.policy = Policy::Const { start: Answer::Continue, end: Answer::Continue, foreign: true };
                check_case(&c2, st, false);
                st.count("enumerated_single_foreign");
            }
        }
        // double transitions: all of them in thorough, a seed-dependent third in quick
        for (i, c) in double.iter().enumerate() {
            if i % nshards == shard && (!quick || (i / nshards + seed as usize) % 3 == 0) {
                check_case(c, st, false);
                st.count("enumerated_double");
            }
        }
        while !expired(deadline) {
            if rng.chance(1, 120) {
                // scaled-up inputs (long runs around block sizes, wide tags, many references), whole and chunked
                let c = Case { input: crate::big::big_html(&mut rng), start: StartState::Data, last_tag: None, policy: Policy::TreeBuilderLike, discard_bom: true };
                check_case(&c, st, false);
                st.count("scaled_up_cases");
                let cuts = crate::big::big_cuts(&mut rng, c.input.chars().count());
                if let (Ok(m), Ok(i)) = (catch(|| model_tokens(&c)), impl_tokens(&c, &cuts)) {
                    if let Some(d) = first_diff(&i, &m.0, false) {
                        st.violation("tokens:chunked", &format!("scaled-up input={} cuts={:?}: chunked implementation run vs WHATWG model: {d}", show(&c.input), &cuts[..cuts.len().min(8)]), json!({"case": c.to_json(), "cuts": cuts}));
                    }
                }
                continue;
            }
            let input = if rng.chance(1, 6) { gen::simd_run(&mut rng) } else { gen::tok_soup(&mut rng, 9) };
            if input.chars().count() > 300 {
                continue;
            }
            let start = if rng.chance(1, 3) { *rng.pick(&gen::START_STATES) } else { StartState::Data };
            let last_tag = if rng.chance(1, 2) { Some(rng.pick(&["title", "script", "style", "xmp", "textarea", "x", "plaintext"]).to_string()) } else { None };
            let policy = match rng.below(8) {
                0 | 1 => Policy::Hashed { salt: rng.next_u64(), foreign_salt: rng.next_u64() },
                2 => Policy::Const { start: *rng.pick(&ALL_ANSWERS), end: *rng.pick(&[Answer::Continue, Answer::Script, Answer::Rcdata]), foreign: rng.chance(1, 2) },
                _ => Policy::TreeBuilderLike,
            };
            st.observe("start_states_used", start_state_name(start));
            st.observe("policies_used", match &policy {
                Policy::TreeBuilderLike => "tree-builder-like",
                Policy::Const { .. } => "constant",
                Policy::Hashed { .. } => "hashed",
            });
            let c = Case { input, start, last_tag, policy, discard_bom: !rng.chance(1, 6) };
            check_case(&c, st, rng.chance(1, 50));
            st.count("soup_cases");
            // the same tokens must come out under a random feed schedule (C03 covers schedules
            // systematically; here the chunked run is compared with the model directly)
            if rng.chance(1, 3) {
                let n = c.input.chars().count();
                let cuts = gen::random_cuts(&mut rng, n);
                if let (Ok(m), Ok(i)) = (catch(|| model_tokens(&c)), impl_tokens(&c, &cuts)) {
                    st.count("chunked_runs_against_model");
                    if let Some(d) = first_diff(&i, &m.0, false) {
                        st.violation("tokens:chunked", &format!("input={} cuts={cuts:?} start={} policy={}: chunked implementation run vs WHATWG model: {d}", show(&c.input), start_state_name(c.start), c.policy.describe()), json!({"case": c.to_json(), "cuts": cuts}));
                    }
                }
            }
            if st.samples.len() < 2 && rng.chance(1, 500) {
                let (m, _) = model_tokens(&c);
                st.sample(json!({"case": c.to_json(), "tokens": toks_json(&m)}));
            }
        }
    });
    match vectors {
        Ok(n) => st.add("model_validation_vectors_passed", n as u64),
        Err(e) => st.inconclusive(&format!("reference tokenizer fails its validation vectors: {e}")),
    }
    let mut m = super::meta(
        args,
        "implementation tokens (coalesced characters, NUL distinct, parse errors dropped) are compared with an independent WHATWG reference tokenizer run with the same start state, last start tag, BOM setting and sink policy; inputs: every (state prefix x next-character class x suffix) single transition from all 7 content-model start states, the same under a foreign (CDATA-allowed) sink, character-class pairs (all in thorough, a third in quick), scaled-up inputs (runs of up to 9000 bytes with special characters on and around power-of-two offsets, tags with up to 140 attributes and duplicates at a distance, hundreds of references), random markup soup incl. SIMD-offset text runs under tree-builder-like, constant and hashed sink policies. Non-trivial = more than EOF + one token; distinct by hash of the whole case.",
        &[
            "the reference tokenizer is hand-written from the WHATWG spec (no spec copy or second parser exists offline); it passes the committed validation vectors, whose count is reported",
            "start states are the seven content-model states; mid-token start states are not claimed",
            "named character references use an entity table exported from Python's html.entities, independent of web_atoms",
        ],
    );
    m.require = vec![
        ("enumerated_single".into(), single.len() as u64),
        ("soup_cases".into(), 20000),
        ("scaled_up_cases".into(), 100),
        ("model_validation_vectors_passed".into(), 300),
        ("model_states".into(), 78),
    ];
    (m, st)
}
