//! C14 — every character reference resolves to its WHATWG value (exhaustive differential).

use super::c01::{impl_tokens, model_tokens, Case};
use super::common::*;
use crate::gen::StartState;
use crate::model::entities::ENTITIES;
use crate::prng::hash_str;
use crate::report::{catch, nthreads, par_run, Meta, Stats};
use crate::tokrec::{Policy, RTok};
use crate::xdrive::{run_xml_tokenizer, xcoalesce, XTok, XmlOpts};
use crate::Args;
use serde_json::{json, Value};
use std::collections::{HashMap, HashSet};

const C1: [(u32, u32); 27] = [
    (0x80, 0x20AC), (0x82, 0x201A), (0x83, 0x0192), (0x84, 0x201E), (0x85, 0x2026), (0x86, 0x2020), (0x87, 0x2021), (0x88, 0x02C6), (0x89, 0x2030),
    (0x8A, 0x0160), (0x8B, 0x2039), (0x8C, 0x0152), (0x8E, 0x017D), (0x91, 0x2018), (0x92, 0x2019), (0x93, 0x201C), (0x94, 0x201D), (0x95, 0x2022),
    (0x96, 0x2013), (0x97, 0x2014), (0x98, 0x02DC), (0x99, 0x2122), (0x9A, 0x0161), (0x9B, 0x203A), (0x9C, 0x0153), (0x9E, 0x017E), (0x9F, 0x0178),
];

/// WHATWG numeric character reference end state. `None` value = overflow.
pub fn numeric_value(n: Option<u64>) -> char {
    match n {
        None => '\u{fffd}',
        Some(0) => '\u{fffd}',
        Some(n) if n > 0x10FFFF => '\u{fffd}',
        Some(n) if (0xD800..=0xDFFF).contains(&n) => '\u{fffd}',
        Some(n) => {
            if let Some((_, m)) = C1.iter().find(|(k, _)| *k as u64 == n) {
                char::from_u32(*m).unwrap()
            } else {
                char::from_u32(n as u32).unwrap()
            }
        },
    }
}

struct Table {
    map: HashMap<&'static str, &'static str>,
    maxlen: usize,
}

fn table() -> Table {
    let mut map = HashMap::new();
    let mut maxlen = 0;
    for (k, v) in ENTITIES {
        map.insert(*k, *v);
        maxlen = maxlen.max(k.len());
    }
    Table { map, maxlen }
}

/// Independent resolver: text after '&' -> (replacement text for "&"+consumed, number of chars consumed after '&').
/// Returns None when this is not a character reference (the '&' stays literal, nothing consumed).
fn resolve(after: &str, in_attr: bool, t: &Table) -> Option<(String, usize)> {
    let chars: Vec<char> = after.chars().collect();
    if chars.first() == Some(&'#') {
        let (hex, mut i) = if matches!(chars.get(1), Some('x') | Some('X')) { (true, 2) } else { (false, 1) };
        let start = i;
        let mut val: Option<u64> = Some(0);
        while let Some(c) = chars.get(i) {
            let d = if hex { c.to_digit(16) } else { c.to_digit(10) };
            match d {
                Some(d) => {
                    val = val.and_then(|v| v.checked_mul(if hex { 16 } else { 10 })).and_then(|v| v.checked_add(d as u64));
                    if let Some(v) = val {
                        if v > 0x10FFFF {
                            val = None;
                        }
                    }
                    i += 1;
                },
                None => break,
            }
        }
        if i == start {
            return None;
        }
        if chars.get(i) == Some(&';') {
            i += 1;
        }
        return Some((numeric_value(val).to_string(), i));
    }
    // named: longest prefix of `after` that is a table key
    let mut best: Option<usize> = None;
    let mut s = String::new();
    for (i, c) in chars.iter().enumerate() {
        if i >= t.maxlen {
            break;
        }
        if !(c.is_ascii_alphanumeric() || *c == ';') {
            break;
        }
        s.push(*c);
        if t.map.contains_key(s.as_str()) {
            best = Some(i + 1);
        }
        if *c == ';' {
            break;
        }
    }
    let len = best?;
    let name: String = chars[..len].iter().collect();
    if in_attr && !name.ends_with(';') {
        if let Some(next) = chars.get(len) {
            if *next == '=' || next.is_ascii_alphanumeric() {
                return None;
            }
        }
    }
    Some((t.map[name.as_str()].to_string(), len))
}

fn normalise_newlines(s: &str) -> String {
    s.replace("\r\n", "\n").replace('\r', "\n")
}

#[derive(Clone, Copy, Debug, PartialEq, Eq)]
enum Ctx {
    Data,
    Rcdata,
    /// RCDATA, directly after an end-tag opener that turns out not to be the appropriate end tag
    /// ("x</t" + reference under last start tag "title"): the reference still has to be resolved
    RcdataAfterBogusEndTag,
    AttrDq,
    AttrSq,
    AttrUnq,
}
const CTXS: [Ctx; 5] = [Ctx::Data, Ctx::Rcdata, Ctx::AttrDq, Ctx::AttrSq, Ctx::AttrUnq];
const CTXS_EXTRA: [Ctx; 1] = [Ctx::RcdataAfterBogusEndTag];

fn build(ctx: Ctx, body: &str) -> Case {
    let (input, start, last) = match ctx {
        Ctx::Data => (format!("x{body}"), StartState::Data, None),
        Ctx::Rcdata => (format!("x{body}"), StartState::Rcdata, Some("title".to_string())),
        Ctx::RcdataAfterBogusEndTag => (format!("x</t{body}"), StartState::Rcdata, Some("title".to_string())),
        Ctx::AttrDq => (format!("<a b=\"x{body}\">"), StartState::Data, None),
        Ctx::AttrSq => (format!("<a b='x{body}'>"), StartState::Data, None),
        Ctx::AttrUnq => (format!("<a b=x{body}>"), StartState::Data, None),
    };
    Case { input, start, last_tag: last, policy: Policy::Const { start: crate::tokrec::Answer::Continue, end: crate::tokrec::Answer::Continue, foreign: false }, discard_bom: false }
}

/// Expected tokens from the direct resolver, when the body is "safe" for that context.
fn direct_expectation(ctx: Ctx, body: &str, t: &Table) -> Option<Vec<RTok>> {
    // body = "&" + after
    let after = &body[1..];
    let unsafe_chars: &[char] = match ctx {
        Ctx::Data | Ctx::Rcdata | Ctx::RcdataAfterBogusEndTag => &['<', '&', '\0'],
        Ctx::AttrDq => &['"', '&', '\0'],
        Ctx::AttrSq => &['\'', '&', '\0'],
        Ctx::AttrUnq => &['&', '\0', ' ', '\t', '\n', '\r', '\x0C', '>', '"', '\'', '<', '=', '`'],
    };
    if after.contains(unsafe_chars) {
        return None;
    }
    let in_attr = !matches!(ctx, Ctx::Data | Ctx::Rcdata | Ctx::RcdataAfterBogusEndTag);
    let text = match resolve(after, in_attr, t) {
        None => normalise_newlines(&format!("x{body}")),
        Some((rep, used)) => {
            // only source text is newline-normalised; a character produced by a reference
            // (e.g. &#13;) is kept as is
            let rest: String = after.chars().skip(used).collect();
            format!("x{rep}{}", normalise_newlines(&rest))
        },
    };
    Some(match ctx {
        Ctx::Data | Ctx::Rcdata => vec![RTok::Chars(text), RTok::Eof],
        Ctx::RcdataAfterBogusEndTag => vec![RTok::Chars(format!("x</t{}", &text[1..])), RTok::Eof],
        _ => vec![RTok::Start { name: "a".into(), attrs: vec![("b".into(), text)], self_closing: false, dup: false }, RTok::Eof],
    })
}

fn check_body(ctx: Ctx, body: &str, t: &Table, st: &mut Stats) {
    let c = build(ctx, body);
    let imp = match impl_tokens(&c, &[]) {
        Ok(i) => i,
        Err(m) => {
            // a reference that makes the tokenizer panic does not "yield the code point the spec prescribes"
            st.evaluations += 1;
            st.violation(
                &format!("charref:panic:{}", crate::report::panic_signature(&m)),
                &format!("{ctx:?} body={}: the tokenizer panicked: {m}", show(body)),
                json!({"ctx": format!("{ctx:?}"), "body": body, "case": c.to_json()}),
            );
            return;
        },
    };
    let imp_t: Vec<RTok> = imp.iter().map(|x| x.0.clone()).collect();
    st.evaluations += 1;
    st.count("cells");
    let rep = || json!({"ctx": format!("{ctx:?}"), "body": body, "case": c.to_json()});
    // a quarter of the cells (by content) also under exact_errors: the resolution must not depend on it
    if hash_str(body) % 4 == 0 {
        st.count("cells_repeated_with_exact_errors");
        match super::c01::impl_tokens_with(&c, &[], true) {
            Ok(e) => {
                let e_t: Vec<RTok> = e.iter().map(|x| x.0.clone()).collect();
                if e_t != imp_t {
                    st.violation(
                        &format!("charref:{ctx:?}:exact_errors"),
                        &format!("{ctx:?} body={}: with exact_errors the tokens are {:?}, without {:?}", show(body), e_t.iter().map(|t| t.short()).collect::<Vec<_>>(), imp_t.iter().map(|t| t.short()).collect::<Vec<_>>()),
                        rep(),
                    );
                    return;
                }
            },
            Err(m) => {
                st.violation(&format!("charref:panic:exact_errors:{}", crate::report::panic_signature(&m)), &format!("{ctx:?} body={} with exact_errors: the tokenizer panicked: {m}", show(body)), rep());
                return;
            },
        }
    }
    // oracle 1: the direct resolver over the independent table
    if let Some(exp) = direct_expectation(ctx, body, t) {
        st.count("cells_checked_by_direct_resolver");
        if exp != imp_t {
            st.violation(
                &format!("charref:{ctx:?}:direct"),
                &format!("{ctx:?} body={}: implementation {:?}, WHATWG value {:?}", show(body), imp_t.iter().map(|t| t.short()).collect::<Vec<_>>(), exp.iter().map(|t| t.short()).collect::<Vec<_>>()),
                rep(),
            );
            return;
        }
    }
    // oracle 2: the reference tokenizer (covers markup-significant followers too)
    let (m, _) = model_tokens(&c);
    if let Some(d) = first_diff(&imp, &m, false) {
        st.violation(&format!("charref:{ctx:?}:model"), &format!("{ctx:?} body={}: implementation vs reference tokenizer: {d}", show(body)), rep());
    }
}

// the non-ASCII followers are letters and digits only in Unicode's sense (superscript two, vulgar
// fraction, Arabic-Indic digit, fullwidth digit and letter, Roman numeral): the attribute exception
// is about ASCII alphanumerics and '=' only
const FOLLOWERS: [&str; 29] = ["", ";", "=", "0", "z", "Z", " ", "\n", "\r", "<", "&", "\"", "'", "é", "#", "\u{b2}", "\u{bd}", "\u{663}", "\u{ff11}", "\u{ff21}", "\u{2167}", "9",
    // characters above U+00FF whose low byte is an ASCII digit, hex letter, ';' or '=' (a truncating cast
    // would take them for that character)
    "\u{131}", "\u{141}", "\u{161}", "\u{13b}", "\u{13d}", "\u{1f631}", "\u{130}"];
const FOLLOWERS_QUICK: [&str; 7] = ["", ";", "=", "z", "0", " ", "<"];

fn name_variants(name: &str, t: &Table) -> Vec<String> {
    let mut v = vec![name.to_string()];
    let bare = name.trim_end_matches(';');
    // without its semicolon (legacy or not)
    if name.ends_with(';') {
        v.push(bare.to_string());
    }
    // truncated by one
    if bare.len() > 1 {
        v.push(bare[..bare.len() - 1].to_string());
    }
    // extended by one alphanumeric
    v.push(format!("{bare}x"));
    v.push(format!("{bare}1;"));
    // every proper prefix that is itself a name
    for i in 1..bare.len() {
        if t.map.contains_key(&bare[..i]) {
            v.push(bare[..i].to_string());
        }
    }
    v
}

fn check_table_against_web_atoms(st: &mut Stats) {
    use markup5ever::data::NAMED_ENTITIES;
    let mut prefixes: HashSet<String> = HashSet::new();
    for (k, v) in ENTITIES {
        st.evaluations += 1;
        let cps: Vec<u32> = v.chars().map(|c| c as u32).collect();
        let want = (cps[0], cps.get(1).copied().unwrap_or(0));
        match NAMED_ENTITIES.get(*k) {
            Some(got) if *got == want => st.count("table_entries_equal"),
            other => st.violation("table:entry", &format!("entity {k:?}: web_atoms has {other:?}, WHATWG table has {want:?}"), json!({"entity": k})),
        }
        for i in 0..k.len() {
            prefixes.insert(k[..i].to_string());
        }
    }
    let mut full = 0;
    for (k, v) in NAMED_ENTITIES.entries() {
        if *v == (0, 0) {
            if !prefixes.contains(*k) {
                st.violation("table:stray-prefix", &format!("web_atoms has prefix entry {k:?} that is a prefix of no entity"), json!({"entity": k}));
            }
        } else {
            full += 1;
        }
    }
    for p in &prefixes {
        if NAMED_ENTITIES.get(p.as_str()).is_none() {
            st.violation("table:missing-prefix", &format!("web_atoms lacks the prefix entry {p:?}"), json!({"entity": p}));
        }
    }
    st.add("web_atoms_full_entries", full);
    if full != ENTITIES.len() as u64 {
        st.violation("table:count", &format!("web_atoms has {full} entities, WHATWG table has {}", ENTITIES.len()), json!({}));
    }
}

fn check_xml(body: &str, expect: &str, st: &mut Stats) {
    let input = format!("<a>{body}</a>");
    if let Ok(r) = catch(|| run_xml_tokenizer(&[input.clone()], &XmlOpts::default(), false)) {
        st.evaluations += 1;
        st.count("xml_cells");
        let toks = xcoalesce(&r.raw, false);
        let text: String = toks.iter().filter_map(|t| if let XTok::Chars(c) = t { Some(c.clone()) } else { None }).collect();
        if text != expect {
            st.violation("charref:xml", &format!("xml body={}: text {:?}, expected {:?}", show(body), text, expect), json!({"xml": input}));
        }
    }
}

pub fn run(args: &Args) -> (Meta, Stats) {
    if let Some(p) = &args.replay {
        let mut st = Stats::new();
        let v: Value = serde_json::from_str(&std::fs::read_to_string(p).unwrap_or_default()).unwrap_or(Value::Null);
        let t = table();
        if let Some(x) = v["xml"].as_str() {
            let _ = x;
            st.inconclusive("xml replays: rerun the check");
        } else {
            let ctx = *CTXS.iter().find(|c| format!("{c:?}") == v["ctx"].as_str().unwrap_or("Data")).unwrap_or(&Ctx::Data);
            check_body(ctx, v["body"].as_str().unwrap_or("&"), &t, &mut st);
            st.distinct.insert(1);
            st.distinct.insert(2);
        }
        return (super::meta(args, "replay of one recorded case", &[]), st);
    }
    let quick = args.quick();
    let seed = args.seed;
    let names: Vec<&'static str> = ENTITIES.iter().map(|e| e.0).collect();
    let mut st = par_run(nthreads(), |shard, nshards, st| {
        let t = table();
        // named references
        for (i, name) in names.iter().enumerate() {
            if i % nshards != shard {
                continue;
            }
            st.count("names");
            let followers: &[&str] = if quick && false { &FOLLOWERS_QUICK } else { &FOLLOWERS };
            for variant in name_variants(name, &t) {
                for f in followers {
                    let body = format!("&{variant}{f}");
                    for ctx in CTXS {
                        check_body(ctx, &body, &t, st);
                    }
                    if f.is_empty() || *f == ";" {
                        for ctx in CTXS_EXTRA {
                            check_body(ctx, &body, &t, st);
                        }
                    }
                    st.distinct.insert(hash_str(&body));
                }
            }
            if name.ends_with(';') {
                check_xml(&format!("&{name}"), t.map[name], st);
            }
            if st.samples.len() < 2 && i % 577 == 0 {
                st.sample(json!({"name": name, "variants": name_variants(name, &t), "followers": followers, "contexts": CTXS.iter().map(|c| format!("{c:?}")).collect::<Vec<_>>()}));
            }
        }
        // numeric references: every value (thorough) or boundaries + stride (quick)
        let stride = 1; let _ = seed;
        let mut v = shard as u32 * 1; // interleave shards
        let interesting = |n: u32| n < 0x400 || (0xD7F0..=0xE010).contains(&n) || (0xFDC0..=0xFE00).contains(&n) || (n & 0xFFFF) >= 0xFFF0 || n >= 0x10FFF0;
        while v <= 0x110000 {
            if v % (nshards as u32) == shard as u32 && (stride == 1 || v % stride == 0 || interesting(v)) {
                st.count("numeric_values");
                let forms = [format!("&#{v}"), format!("&#x{v:x}"), format!("&#X{v:X}")];
                for (k, form) in forms.iter().enumerate() {
                    // (the last four: characters above U+00FF whose low byte is an ASCII digit or hex letter)
                    const COLLIDING: [&str; 4] = ["\u{131}", "\u{141}", "\u{161}", "\u{1f631}"];
                    let rotating = [";", "", COLLIDING[(v as usize + k) % 4]];
                    let terms: &[&str] = if quick && !interesting(v) { &rotating } else { &[";", "", "z", " ", "<", "\u{131}", "\u{141}", "\u{161}", "\u{1f631}", "\u{130}", "\n", ";\n", "\r", ";\r", ";\r\n", "\r\n", "\t", "\x0c", "&", "=", "#", ";&#10;", ";\u{feff}"] };
                    for term in terms {
                        let body = format!("{form}{term}");
                        let ctx = if quick { CTXS[(v as usize + k) % 5] } else { CTXS[(v as usize + k) % 5] };
                        check_body(ctx, &body, &t, st);
                        if !quick || interesting(v) {
                            for c in CTXS {
                                if c != ctx {
                                    check_body(c, &body, &t, st);
                                }
                            }
                        }
                        st.distinct.insert(hash_str(&body));
                    }
                }
                if v % 4099 == 0 || interesting(v) && v % 16 == 0 {
                    check_xml(&format!("&#{v};"), &numeric_value(Some(v as u64)).to_string(), st);
                    check_xml(&format!("&#x{v:x};"), &numeric_value(Some(v as u64)).to_string(), st);
                }
            }
            v += 1;
        }
        if shard == 0 {
            // leading zeros, overflow lengths, non-references
            let mut bodies: Vec<String> = vec![];
            for digits in 1..=24 {
                bodies.push(format!("&#{};", "9".repeat(digits)));
                bodies.push(format!("&#x{};", "f".repeat(digits)));
                bodies.push(format!("&#{}65;", "0".repeat(digits)));
                bodies.push(format!("&#x{}41", "0".repeat(digits)));
                bodies.push(format!("&#1{};", "0".repeat(digits)));
                bodies.push(format!("&#x1{}", "0".repeat(digits)));
            }
            // values that are small again modulo 2^8 / 2^16 / 2^21 / 2^31 / 2^32 / 2^63 / 2^64 (an accumulator that
            // wraps, or a sticky overflow flag that is recomputed, would resolve them to an ordinary character)
            for shift in [8u32, 16, 21, 24, 31, 32, 33, 40, 63, 64, 65, 96] {
                for mult in [1u128, 2, 3, 0xffff] {
                    for k in [0u128, 1, 0x3c, 0x41, 0x80, 0x9f, 0xd800, 0xfffe, 0x10ffff, 0x110000] {
                        let v: u128 = mult.wrapping_mul(1u128 << shift).wrapping_add(k);
                        bodies.push(format!("&#{v};"));
                        bodies.push(format!("&#x{v:x};"));
                        bodies.push(format!("&#X{v:X}"));
                    }
                }
            }
            // digit by digit: one more digit after an overflow, after the maximum, after a wrap
            for head in ["1114111", "1114112", "4294967295", "4294967296", "429496729", "18446744073709551615", "18446744073709551616"] {
                for d in 0..10 {
                    bodies.push(format!("&#{head}{d};"));
                }
            }
            for head in ["10ffff", "110000", "ffffffff", "100000000", "10000000", "ffffffffffffffff", "10000000000000000"] {
                for d in ["0", "1", "4", "8", "a", "f"] {
                    bodies.push(format!("&#x{head}{d};"));
                }
            }
            for b in ["&", "&;", "&#", "&#x", "&#X", "&#;", "&#x;", "&1", "& ", "&=", "&#z", "&#xg", "&#x;", "&##", "&&amp;", "&amp;&amp", "&#65;&#66", "&é", "&\u{10ffff};", "&foo;", "&x1;", "&am;", "&Aacut;", "&foo", "&zzzzzzzzzzzzzzzzzzzzzzzzzzzzzzzzzzzzzz;", "&a;", "&1;", "&am;p;", "&notanentity;x"] {
                bodies.push(b.to_string());
            }
            for b in &bodies {
                for f in ["", "z", " "] {
                    for ctx in CTXS.iter().chain(CTXS_EXTRA.iter()) {
                        check_body(*ctx, &format!("{b}{f}"), &t, st);
                    }
                    st.distinct.insert(hash_str(&format!("{b}{f}")));
                }
                st.count("special_bodies");
            }
            check_table_against_web_atoms(st);
        }
    });
    let numeric_complete = !quick;
    st.add("exhaustive_numeric", numeric_complete as u64);
    let mut m = super::meta(
        args,
        "cells = '&' + (each of the 2231 WHATWG names, exact / without semicolon / truncated by one / extended by one alphanumeric / every proper prefix that is itself a name) + follower class (EOF ; = digit lower upper space LF CR < & \" ' non-ASCII #) in data, RCDATA and the three attribute-value contexts; numeric: every value 0..=0x110000 in decimal, x and X with ';', EOF and a letter follower (every value in both tiers; thorough adds all five contexts and more terminators per value), leading zeros, 1..24-digit overflows, non-references. Each cell is judged by (1) a direct resolver over an entity table exported from Python's html.entities (longest match, attribute exception, numeric rules with a hard-coded windows-1252 C1 table) and (2) the reference tokenizer; web_atoms' generated table is also compared entry by entry, including the proper-prefix entries. XML tokenizer: '&name;' and numeric forms only. Distinct = distinct reference bodies.",
        &["the entity table comes from Python's html.entities.html5 (generated file model/entities.rs), independent of web_atoms/entities.rs", "XML5's no-semicolon rules are not WHATWG's and are not claimed"],
    );
    m.exhaustive = true;
    m.require = vec![("names".into(), 2231), ("table_entries_equal".into(), 2231), ("xml_cells".into(), 2000), ("cells_checked_by_direct_resolver".into(), 100000)];
    (m, st)
}
