//! C10 — byte-stream front ends decode exactly like a whole-input lossy decode (differential).

use super::common::*;
use crate::prng::{hash_bytes, mix, Rng};
use crate::report::{catch, nthreads, par_run, Meta, Stats};
use crate::tree::{dump_html, dump_xml, from_rcdom};
use crate::{Args, Tier};
use markup5ever_rcdom::RcDom;
use serde_json::{json, Value};
use std::borrow::Cow;
use tendril::fmt::{Bytes, UTF8};
use tendril::stream::{LossyDecoder, TendrilSink, Utf8LossyDecoder};
use tendril::Tendril;

#[derive(Default)]
struct Rec {
    out: String,
    errors: u32,
    pieces: u32,
    empty_pieces: u32,
}

impl TendrilSink<UTF8> for Rec {
    type Output = Rec;
    fn process(&mut self, t: Tendril<UTF8>) {
        self.pieces += 1;
        if t.is_empty() {
            self.empty_pieces += 1;
        }
        self.out.push_str(&t);
    }
    fn error(&mut self, _d: Cow<'static, str>) {
        self.errors += 1;
    }
    fn finish(self) -> Rec {
        self
    }
}

fn split_bytes(b: &[u8], cuts: &[usize]) -> Vec<Vec<u8>> {
    let mut out = vec![];
    let mut prev = 0;
    for &c in cuts {
        let c = c.min(b.len()).max(prev);
        out.push(b[prev..c].to_vec());
        prev = c;
    }
    out.push(b[prev..].to_vec());
    out
}

fn hex(b: &[u8]) -> String {
    b.iter().map(|x| format!("{x:02x}")).collect::<Vec<_>>().join(" ")
}

/// number of U+FFFD that a lossy decode inserts (maximal-subpart rule), counted independently:
/// replacement characters in the output minus genuine EF BF BD sequences of the input.
fn expected_replacements(input: &[u8], lossy: &str) -> u32 {
    let total = lossy.chars().filter(|&c| c == '\u{fffd}').count() as u32;
    let genuine = input.windows(3).filter(|w| w == &[0xEF, 0xBF, 0xBD]).count() as u32;
    total - genuine
}

fn check_utf8(input: &[u8], cuts: &[usize], st: &mut Stats) -> bool {
    let want = String::from_utf8_lossy(input);
    tendril::verif::reset(8 * (input.len() as u64 + cuts.len() as u64) + 64);
    let r = catch(|| {
        let mut d = Utf8LossyDecoder::new(Rec::default());
        for c in split_bytes(input, cuts) {
            d.process(Tendril::<Bytes>::from_slice(&c));
        }
        d.finish()
    });
    st.max("max_decoder_steps_per_run", tendril::verif::steps());
    tendril::verif::reset(u64::MAX);
    st.evaluations += 1;
    match r {
        Err(m) => {
            st.violation(&format!("utf8:panic:{}", crate::report::panic_signature(&m)), &format!("bytes [{}] cuts={cuts:?}: panic {m}", hex(input)), json!({"kind": "utf8", "bytes": hex(input), "cuts": cuts}));
            false
        },
        Ok(rec) => {
            if rec.out != *want {
                st.violation("utf8:text", &format!("bytes [{}] cuts={cuts:?}: decoder gave {:?}, from_utf8_lossy gives {:?}", hex(input), rec.out, want), json!({"kind": "utf8", "bytes": hex(input), "cuts": cuts}));
                return false;
            }
            let exp = expected_replacements(input, &want);
            if rec.errors != exp {
                st.violation("utf8:error-count", &format!("bytes [{}] cuts={cuts:?}: {} error reports for {} replacements", hex(input), rec.errors, exp), json!({"kind": "utf8", "bytes": hex(input), "cuts": cuts}));
                return false;
            }
            if exp > 0 {
                st.count("utf8_runs_with_replacements");
            }
            true
        },
    }
}

const REPS: [u8; 25] = [0x00, 0x41, 0x7F, 0x80, 0x8F, 0x90, 0x9F, 0xA0, 0xBF, 0xC0, 0xC1, 0xC2, 0xDF, 0xE0, 0xE1, 0xEC, 0xED, 0xEE, 0xEF, 0xF0, 0xF1, 0xF3, 0xF4, 0xF5, 0xFF];

fn all_cuts(n: usize) -> Vec<Vec<usize>> {
    if n <= 1 {
        return vec![vec![]];
    }
    (0..(1u32 << (n - 1))).map(|m| (0..n - 1).filter(|b| m & (1 << b) != 0).map(|b| b + 1).collect()).collect()
}

fn exhaustive_utf8(shard: usize, nshards: usize, maxlen: usize, st: &mut Stats) {
    let mut idx = 0usize;
    for len in 0..=maxlen {
        let total = 25usize.pow(len as u32);
        let cuts = all_cuts(len);
        for code in 0..total {
            idx += 1;
            if idx % nshards != shard {
                continue;
            }
            let mut bytes = Vec::with_capacity(len);
            let mut c = code;
            for _ in 0..len {
                bytes.push(REPS[c % 25]);
                c /= 25;
            }
            st.distinct.insert(hash_bytes(&bytes));
            st.count("exhaustive_strings");
            for cu in &cuts {
                if !check_utf8(&bytes, cu, st) {
                    break;
                }
            }
        }
    }
}

fn random_bytes(rng: &mut Rng, maxlen: usize) -> Vec<u8> {
    let n = rng.below(maxlen + 1);
    let mut v = Vec::with_capacity(n);
    while v.len() < n {
        match rng.below(6) {
            0 => v.push(*rng.pick(&REPS)),
            1 => v.extend("é日本\u{10ffff}\u{fffd}a".chars().nth(rng.below(6)).unwrap().to_string().as_bytes()),
            2 => v.extend(b"<p>x"),
            3 => v.push((rng.next_u64() & 0xff) as u8),
            4 => {
                // truncated multi-byte sequence
                let s = "日\u{10ffff}é".chars().nth(rng.below(3)).unwrap().to_string();
                let b = s.as_bytes();
                v.extend(&b[..rng.range(1, b.len())]);
            },
            _ => v.push(b'a' + rng.below(26) as u8),
        }
    }
    v
}

fn random_cuts_b(rng: &mut Rng, n: usize) -> Vec<usize> {
    match rng.below(4) {
        0 => (1..n).collect(),
        1 => vec![],
        _ => {
            let k = rng.range(1, 6);
            let mut v: Vec<usize> = (0..k).map(|_| rng.below(n + 1)).collect();
            v.sort();
            v
        },
    }
}

// -------- encoding_rs ---------------------------------------------------------------------

fn encodings() -> Vec<&'static encoding_rs::Encoding> {
    use encoding_rs::*;
    vec![
        BIG5, EUC_JP, EUC_KR, GBK, GB18030, IBM866, ISO_2022_JP, ISO_8859_2, ISO_8859_3, ISO_8859_4, ISO_8859_5, ISO_8859_6, ISO_8859_7, ISO_8859_8, ISO_8859_8_I, ISO_8859_10, ISO_8859_13,
        ISO_8859_14, ISO_8859_15, ISO_8859_16, KOI8_R, KOI8_U, MACINTOSH, REPLACEMENT, SHIFT_JIS, UTF_16BE, UTF_16LE, UTF_8, WINDOWS_874, WINDOWS_1250, WINDOWS_1251, WINDOWS_1252, WINDOWS_1253,
        WINDOWS_1254, WINDOWS_1255, WINDOWS_1256, WINDOWS_1257, WINDOWS_1258, X_MAC_CYRILLIC, X_USER_DEFINED,
    ]
}

fn enc_bytes(rng: &mut Rng, enc: &'static encoding_rs::Encoding, maxlen: usize) -> Vec<u8> {
    let n = rng.below(maxlen + 1);
    let mut v: Vec<u8> = Vec::with_capacity(n + 8);
    if rng.chance(1, 8) {
        v.extend(*rng.pick(&[&[0xEFu8, 0xBB, 0xBF][..], &[0xFF, 0xFE][..], &[0xFE, 0xFF][..], &[0xEF, 0xBB][..], &[0xFF][..]]));
    }
    let name = enc.name();
    while v.len() < n {
        match rng.below(7) {
            0 => v.push((rng.next_u64() & 0xff) as u8),
            1 => v.push(0x81 + rng.below(0x7e) as u8), // lead-byte range of the multi-byte encodings
            2 => v.push(0x40 + rng.below(0x40) as u8),
            3 if name == "ISO-2022-JP" => v.extend(*rng.pick(&[&b"\x1b$B"[..], &b"\x1b(B"[..], &b"\x1b(J"[..], &b"\x1b(I"[..], &b"\x1b$@"[..], &b"\x1b"[..], &b"\x1b$"[..], &b"\x0e"[..]])),
            3 if name.starts_with("UTF-16") => v.extend(*rng.pick(&[&[0x00u8, 0xD8][..], &[0xD8, 0x00][..], &[0x00, 0xDC][..], &[0xDC, 0x00][..], &[0x41, 0x00][..], &[0x00, 0x41][..], &[0xFF, 0xFF][..]])),
            3 if name == "gb18030" => v.extend(&[0x81 + rng.below(4) as u8, 0x30 + rng.below(10) as u8, 0x81 + rng.below(0x7e) as u8, 0x30 + rng.below(10) as u8]),
            4 => v.extend(b"ab<"),
            _ => v.push(0x20 + rng.below(0x5f) as u8),
        }
    }
    v
}

/// The other constructors of LossyDecoder: a caller-made encoding_rs decoder (here: without BOM
/// handling, against decode_without_bom_handling) and `utf8()`; `inner_sink()` is read after every
/// chunk: what has been delivered so far must be a prefix of the final text (nothing is retracted),
/// and `inner_sink_mut()` / `error()` reach the same sink.
fn check_encoding_ctor_variants(enc: &'static encoding_rs::Encoding, input: &[u8], cuts: &[usize], st: &mut Stats) {
    // which decoder the caller hands over: 0 = LossyDecoder::utf8 (UTF-8 only), 1 = without BOM handling,
    // 2 = BOM sniffing (new_decoder), 3 = BOM removal; the reference is the matching one-shot decode
    let variant = if enc == encoding_rs::UTF_8 { (input.len() + cuts.len()) % 4 } else { 1 + (input.len() + cuts.len()) % 3 };
    let utf8 = variant == 0;
    let (want, had_errors) = match variant {
        0 => (String::from_utf8_lossy(input).into_owned(), false),
        1 => {
            let (w, e) = enc.decode_without_bom_handling(input);
            (w.into_owned(), e)
        },
        2 => {
            let (w, _, e) = enc.decode(input);
            (w.into_owned(), e)
        },
        _ => {
            let (w, e) = enc.decode_with_bom_removal(input);
            (w.into_owned(), e)
        },
    };
    st.count(["ctor:utf8()", "ctor:decoder-without-bom-handling", "ctor:decoder-with-bom-sniffing", "ctor:decoder-with-bom-removal"][variant]);
    let r = catch(|| {
        let mut d: LossyDecoder<Rec> = match variant {
            0 => LossyDecoder::utf8(Rec::default()),
            1 => LossyDecoder::new_from_encoding_rs_decoder(enc.new_decoder_without_bom_handling(), Rec::default()),
            2 => LossyDecoder::new_from_encoding_rs_decoder(enc.new_decoder(), Rec::default()),
            _ => LossyDecoder::new_from_encoding_rs_decoder(enc.new_decoder_with_bom_removal(), Rec::default()),
        };
        let mut not_prefix = None;
        for (k, c) in split_bytes(input, cuts).iter().enumerate() {
            d.process(Tendril::<Bytes>::from_slice(c));
            if !want.starts_with(d.inner_sink().out.as_str()) && not_prefix.is_none() {
                not_prefix = Some(k);
            }
        }
        // the decoder forwards error() to the sink it wraps
        let before = d.inner_sink().errors;
        d.error("probe".into());
        let forwarded = d.inner_sink().errors == before + 1;
        d.inner_sink_mut().errors -= 1;
        (d.finish(), not_prefix, forwarded)
    });
    st.count("constructor_variant_runs");
    let rep = || json!({"kind": "enc-ctor", "encoding": enc.name(), "bytes": hex(input), "cuts": cuts});
    match r {
        Err(m) => st.violation(&format!("enc-ctor:panic:{}", crate::report::panic_signature(&m)), &format!("{} bytes [{}] cuts={:?}: panic {m}", enc.name(), hex(&input[..input.len().min(40)]), &cuts[..cuts.len().min(8)]), rep()),
        Ok((rec, not_prefix, forwarded)) => {
            if rec.out != want {
                st.violation("enc-ctor:text", &format!("{} (caller-made decoder, see the ctor:* counters) bytes [{}] cuts={:?}: chunked output differs from the matching one-shot decode (lengths {} vs {})", enc.name(), hex(&input[..input.len().min(40)]), &cuts[..cuts.len().min(8)], rec.out.len(), want.len()), rep());
            } else if let Some(k) = not_prefix {
                st.violation("enc-ctor:not-a-prefix", &format!("{} bytes [{}] cuts={:?}: after chunk #{k} the text delivered so far is not a prefix of the final text", enc.name(), hex(&input[..input.len().min(40)]), &cuts[..cuts.len().min(8)]), rep());
            } else if !forwarded {
                st.violation("enc-ctor:error-not-forwarded", &format!("{}: LossyDecoder::error() did not reach the inner sink", enc.name()), rep());
            } else if !utf8 && (rec.errors > 0) != had_errors {
                st.violation("enc-ctor:error-flag", &format!("{} bytes [{}]: {} error reports, one-shot decode had_errors={had_errors}", enc.name(), hex(&input[..input.len().min(40)]), rec.errors), rep());
            }
        },
    }
}

fn check_encoding(enc: &'static encoding_rs::Encoding, input: &[u8], cuts: &[usize], st: &mut Stats) {
    let (want, _used, had_errors) = enc.decode(input);
    let want: String = if enc == encoding_rs::UTF_8 {
        // new_encoding_rs routes UTF-8 to Utf8LossyDecoder, which does no BOM removal
        String::from_utf8_lossy(input).into_owned()
    } else {
        want.into_owned()
    };
    // logical step budget (tick hook in the decoder loops): a decoder that stops making progress
    // is reported deterministically instead of hanging the check
    tendril::verif::reset(8 * (input.len() as u64 + cuts.len() as u64) + 64);
    let r = catch(|| {
        let mut d: LossyDecoder<Rec> = LossyDecoder::new_encoding_rs(enc, Rec::default());
        for c in split_bytes(input, cuts) {
            d.process(Tendril::<Bytes>::from_slice(&c));
        }
        d.finish()
    });
    st.max("max_decoder_steps_per_run", tendril::verif::steps());
    tendril::verif::reset(u64::MAX);
    st.evaluations += 1;
    let rep = || json!({"kind": "enc", "encoding": enc.name(), "bytes": hex(input), "cuts": cuts});
    match r {
        Err(m) if m.contains("decoder step budget exceeded") => st.violation("enc:no-bounded-progress", &format!("{} bytes [{}] cuts={:?}: the decoder loop exceeded 8*(bytes+chunks)+64 steps (it does not terminate)", enc.name(), hex(&input[..input.len().min(40)]), &cuts[..cuts.len().min(8)]), rep()),
        Err(m) => st.violation(&format!("enc:panic:{}", crate::report::panic_signature(&m)), &format!("{} bytes [{}] cuts={cuts:?}: panic {m}", enc.name(), hex(&input[..input.len().min(40)])), rep()),
        Ok(rec) => {
            if rec.out != want {
                let pos = rec.out.chars().zip(want.chars()).position(|(a, b)| a != b).unwrap_or(rec.out.chars().count().min(want.chars().count()));
                st.violation(
                    "enc:text",
                    &format!("{} bytes [{}] cuts={:?}: chunked LossyDecoder output differs from the one-shot decode at char {pos} (lengths {} vs {})", enc.name(), hex(&input[..input.len().min(40)]), &cuts[..cuts.len().min(8)], rec.out.len(), want.len()),
                    rep(),
                );
            } else if enc != encoding_rs::UTF_8 && (rec.errors > 0) != had_errors {
                st.violation("enc:error-flag", &format!("{} bytes [{}]: {} error reports, one-shot decode had_errors={had_errors}", enc.name(), hex(&input[..input.len().min(40)]), rec.errors), rep());
            }
            st.observe("encodings_exercised", enc.name());
            if want.len() > 8192 {
                st.count("enc_runs_with_output_over_8192_bytes");
            }
            if had_errors {
                st.count("enc_runs_with_malformed_input");
            }
        },
    }
}

// -------- the other entry points of TendrilSink: one, from_iter, read_from, from_file ----------

/// A reader that hands out the data in pieces of the scheduled sizes and fails with
/// `Interrupted` now and then (which `read_from` has to retry).
struct Trickle<'a> {
    data: &'a [u8],
    pos: usize,
    sizes: Vec<usize>,
    k: usize,
    interrupts: u32,
}

impl std::io::Read for Trickle<'_> {
    fn read(&mut self, buf: &mut [u8]) -> std::io::Result<usize> {
        let want = self.sizes[self.k % self.sizes.len()];
        self.k += 1;
        if want == 0 {
            self.interrupts += 1;
            return Err(std::io::Error::new(std::io::ErrorKind::Interrupted, "again"));
        }
        let n = want.min(buf.len()).min(self.data.len() - self.pos);
        buf[..n].copy_from_slice(&self.data[self.pos..self.pos + n]);
        self.pos += n;
        Ok(n)
    }
}

fn read_sizes(rng: &mut Rng) -> Vec<usize> {
    match rng.below(6) {
        0 => vec![usize::MAX],
        1 => vec![1],
        2 => vec![4095, 1, 4096, 2],
        3 => vec![4096, 0, 3],
        _ => (0..rng.range(1, 6)).map(|_| *rng.pick(&[0usize, 1, 2, 3, 5, 100, 1000, 4095, 4096, 4097, 9000])).chain([7usize]).collect(),
    }
}

/// text with multi-byte characters and ill-formed pieces, long enough to straddle read_from's
/// 4096-byte blocks
fn long_bytes(rng: &mut Rng) -> Vec<u8> {
    let n = match rng.below(4) {
        0 => rng.below(200),
        1 => 4096 - 3 + rng.below(7),
        2 => 8192 - 3 + rng.below(7),
        _ => rng.below(13000),
    };
    let mut v = Vec::with_capacity(n + 8);
    while v.len() < n {
        match rng.below(8) {
            0 => v.extend("日本語".as_bytes()),
            1 => v.extend("\u{10ffff}".as_bytes()),
            2 => v.extend("é".as_bytes()),
            3 => v.push(*rng.pick(&REPS)),
            4 => v.extend(b"<b>t</b>\n"),
            _ => v.extend(std::iter::repeat(b'a' + rng.below(26) as u8).take(rng.range(1, 40))),
        }
    }
    v
}

fn check_entry_points(input: &[u8], rng: &mut Rng, st: &mut Stats) {
    let want = String::from_utf8_lossy(input).into_owned();
    let exp = expected_replacements(input, &want);
    let rep = |how: &str, sizes: &[usize]| json!({"kind": "entry", "how": how, "bytes": hex(input), "read_sizes": sizes.iter().map(|x| (*x).min(1 << 20)).collect::<Vec<_>>()});
    let judge = |how: &str, sizes: &[usize], r: Result<Rec, String>, st: &mut Stats| match r {
        Err(m) => st.violation(&format!("entry:{how}:panic-or-error"), &format!("{how} over {} bytes (read sizes {:?}): {m}", input.len(), &sizes[..sizes.len().min(8)]), rep(how, sizes)),
        Ok(rec) => {
            if rec.out != want {
                let at = rec.out.bytes().zip(want.bytes()).position(|(a, b)| a != b).unwrap_or(rec.out.len().min(want.len()));
                st.violation(&format!("entry:{how}:text"), &format!("{how} over {} bytes [{}...] (read sizes {:?}): delivered {} bytes of text, the lossy decode of the whole input has {}; first difference at byte {at}", input.len(), hex(&input[..input.len().min(16)]), &sizes[..sizes.len().min(8)], rec.out.len(), want.len()), rep(how, sizes));
            } else if rec.errors != exp {
                st.violation(&format!("entry:{how}:error-count"), &format!("{how} over {} bytes: {} error reports for {exp} replacements", input.len(), rec.errors), rep(how, sizes));
            }
        },
    };
    // one()
    let r = catch(|| Utf8LossyDecoder::new(Rec::default()).one(Tendril::<Bytes>::from_slice(input)));
    judge("one", &[], r, st);
    // from_iter()
    let cuts = random_cuts_b(rng, input.len().min(64));
    let chunks = split_bytes(input, &cuts);
    let r = catch(|| Utf8LossyDecoder::new(Rec::default()).from_iter(chunks.iter().map(|c| Tendril::<Bytes>::from_slice(c))));
    judge("from_iter", &cuts, r, st);
    // read_from() with a trickling, interrupting reader
    let sizes = read_sizes(rng);
    let r = catch(|| {
        let mut t = Trickle { data: input, pos: 0, sizes: sizes.clone(), k: 0, interrupts: 0 };
        let r = Utf8LossyDecoder::new(Rec::default()).read_from(&mut t);
        (r, t.interrupts)
    });
    match r {
        Ok((Ok(rec), intr)) => {
            if intr > 0 {
                st.count("read_from_runs_with_interrupted_reads");
            }
            if rec.pieces > 1 {
                st.count("read_from_runs_with_several_reads");
            }
            judge("read_from", &sizes, Ok(rec), st)
        },
        Ok((Err(e), _)) => judge("read_from", &sizes, Err(format!("I/O error {e}")), st),
        Err(m) => judge("read_from", &sizes, Err(m), st),
    }
    st.count("entry_point_runs");
    // read_from() over a reader that breaks: the error must come back (no panic, no hang, no Ok)
    if rng.chance(1, 10) {
        struct Broken<'a>(Trickle<'a>, usize);
        impl std::io::Read for Broken<'_> {
            fn read(&mut self, buf: &mut [u8]) -> std::io::Result<usize> {
                if self.0.pos >= self.1 {
                    return Err(std::io::Error::new(std::io::ErrorKind::Other, "broken pipe"));
                }
                let room = self.1 - self.0.pos;
                let n = buf.len().min(room);
                self.0.read(&mut buf[..n])
            }
        }
        let at = rng.below(input.len() + 1);
        let r = catch(|| {
            let mut b = Broken(Trickle { data: input, pos: 0, sizes: vec![3, 4096, 1], k: 0, interrupts: 0 }, at);
            Utf8LossyDecoder::new(Rec::default()).read_from(&mut b).map(|_| ())
        });
        st.count("read_from_runs_with_io_error");
        match r {
            Ok(Err(_)) => {},
            Ok(Ok(())) => st.violation("entry:read_from:io-error-swallowed", &format!("read_from over a reader that fails after {at} of {} bytes returned Ok", input.len()), rep("read_from-io-error", &[at])),
            Err(m) => st.violation("entry:read_from:panic-or-error", &format!("read_from over a reader that fails after {at} bytes: {m}"), rep("read_from-io-error", &[at])),
        }
    }
    // from_file() (a real file, so reads are as long as the buffer)
    if !cfg!(miri) && rng.chance(1, 8) {
        let path = std::env::temp_dir().join(format!("vharness-c10-{}-{:x}", std::process::id(), rng.next_u64()));
        if std::fs::write(&path, input).is_ok() {
            let r = catch(|| Utf8LossyDecoder::new(Rec::default()).from_file(&path));
            let _ = std::fs::remove_file(&path);
            match r {
                Ok(Ok(rec)) => judge("from_file", &[], Ok(rec), st),
                Ok(Err(e)) => st.inconclusive(&format!("from_file: I/O error {e}")),
                Err(m) => judge("from_file", &[], Err(m), st),
            }
            st.count("from_file_runs");
        }
    }
    // the parser behind from_utf8().read_from()
    if rng.chance(1, 6) {
        let sizes = read_sizes(rng);
        let r = catch(|| {
            let mut t = Trickle { data: input, pos: 0, sizes: sizes.clone(), k: 0, interrupts: 0 };
            let a = html5ever::parse_document(RcDom::default(), Default::default()).from_utf8().read_from(&mut t).map(|d| dump_html(&from_rcdom(&d.document)));
            let b = dump_html(&from_rcdom(&html5ever::parse_document(RcDom::default(), Default::default()).one(want.as_str()).document));
            (a, b)
        });
        st.count("parser_read_from_runs");
        if let Ok((Ok(a), b)) = r {
            if a != b {
                st.violation("entry:parser-read_from:tree", &format!("parse_document().from_utf8().read_from() over {} bytes (read sizes {:?}) differs from parsing the lossy string: {}", input.len(), &sizes[..sizes.len().min(8)], dump_diff(&b, &a)), rep("parser-read_from", &sizes));
            }
        }
    }
}

// -------- trees through from_utf8() ----------------------------------------------------------

fn check_tree(input: &[u8], cuts: &[usize], st: &mut Stats) {
    let lossy = String::from_utf8_lossy(input).into_owned();
    let chunks = split_bytes(input, cuts);
    let r = catch(|| {
        let mut p = html5ever::parse_document(RcDom::default(), Default::default()).from_utf8();
        for c in &chunks {
            p.process(Tendril::<Bytes>::from_slice(c));
        }
        let a = dump_html(&from_rcdom(&p.finish().document));
        let b = dump_html(&from_rcdom(&html5ever::parse_document(RcDom::default(), Default::default()).one(lossy.as_str()).document));
        let mut xp = xml5ever::driver::parse_document(RcDom::default(), Default::default()).from_utf8();
        for c in &chunks {
            xp.process(Tendril::<Bytes>::from_slice(c));
        }
        let xa = dump_xml(&from_rcdom(&xp.finish().document));
        let xb = dump_xml(&from_rcdom(&xml5ever::driver::parse_document(RcDom::default(), Default::default()).one(lossy.as_str()).document));
        (a, b, xa, xb)
    });
    st.evaluations += 1;
    st.count("tree_runs");
    if let Err(m) = &r {
        // the one-piece parse of the lossy string and the chunked byte front end run in the same closure; either
        // panicking means the front end did not deliver what a whole-input decode delivers
        st.violation("tree:panic", &format!("bytes [{}] cuts={cuts:?}: parsing through from_utf8() (or the one-piece reference parse) panicked: {m}", hex(&input[..input.len().min(60)])), json!({"kind": "tree", "bytes": hex(input), "cuts": cuts}));
    }
    if let Ok((a, b, xa, xb)) = r {
        if a != b {
            st.violation("tree:html", &format!("bytes [{}] cuts={cuts:?}: from_utf8() tree differs from the tree of the lossy string: {}", hex(&input[..input.len().min(40)]), dump_diff(&b, &a)), json!({"kind": "tree", "bytes": hex(input), "cuts": cuts}));
        } else if xa != xb {
            st.violation("tree:xml", &format!("bytes [{}] cuts={cuts:?}: xml from_utf8() tree differs: {}", hex(&input[..input.len().min(40)]), dump_diff(&xb, &xa)), json!({"kind": "tree", "bytes": hex(input), "cuts": cuts}));
        }
    }
}

fn unhex(s: &str) -> Vec<u8> {
    s.split_whitespace().filter_map(|x| u8::from_str_radix(x, 16).ok()).collect()
}

pub fn run(args: &Args) -> (Meta, Stats) {
    if let Some(p) = &args.replay {
        let mut st = Stats::new();
        let v: Value = serde_json::from_str(&std::fs::read_to_string(p).unwrap_or_default()).unwrap_or(Value::Null);
        let bytes = unhex(v["bytes"].as_str().unwrap_or(""));
        let cuts: Vec<usize> = v["cuts"].as_array().map(|a| a.iter().filter_map(|x| x.as_u64()).map(|x| x as usize).collect()).unwrap_or_default();
        match v["kind"].as_str().unwrap_or("") {
            "enc" => {
                if let Some(e) = encoding_rs::Encoding::for_label(v["encoding"].as_str().unwrap_or("").as_bytes()) {
                    check_encoding(e, &bytes, &cuts, &mut st);
                }
            },
            "tree" => check_tree(&bytes, &cuts, &mut st),
            "enc-ctor" => {
                if let Some(e) = encoding_rs::Encoding::for_label(v["encoding"].as_str().unwrap_or("").as_bytes()) {
                    check_encoding_ctor_variants(e, &bytes, &cuts, &mut st);
                }
            },
            "entry" => {
                // the read schedule is redrawn; all entry points are exercised over the recorded bytes
                let mut rng = Rng::new(1);
                for _ in 0..50 {
                    check_entry_points(&bytes, &mut rng, &mut st);
                }
            },
            _ => {
                check_utf8(&bytes, &cuts, &mut st);
            },
        }
        st.distinct.insert(1);
        st.distinct.insert(2);
        return (super::meta(args, "replay of one recorded case", &[]), st);
    }
    let seed = args.seed;
    let sanit = args.tier == Tier::Sanitizer;
    let maxlen = if sanit { 2 } else if args.quick() { 4 } else { 5 };
    let deadline = args.deadline();
    let encs = encodings();
    let san_n = args.san_n(60);
    let st = par_run(if sanit { 1 } else { nthreads() }, |shard, nshards, st| {
        let mut rng = Rng::new(mix(seed ^ 0xC10, shard as u64));
        exhaustive_utf8(shard, nshards, maxlen, st);
        let mut k = 0u64;
        loop {
            if sanit {
                if k >= san_n {
                    break;
                }
            } else if expired(deadline) {
                break;
            }
            k += 1;
            if k % 16 == 5 {
                let b = if sanit { random_bytes(&mut rng, 64) } else { long_bytes(&mut rng) };
                st.distinct.insert(hash_bytes(&b));
                check_entry_points(&b, &mut rng, st);
                continue;
            }
            match k % 4 {
                0 => {
                    let b = random_bytes(&mut rng, 64);
                    let cuts = random_cuts_b(&mut rng, b.len());
                    st.distinct.insert(hash_bytes(&b));
                    check_utf8(&b, &cuts, st);
                    st.count("random_utf8_runs");
                    if st.samples.len() < 2 && k % 4000 == 0 {
                        st.sample(json!({"bytes": hex(&b), "cuts": cuts, "lossy": String::from_utf8_lossy(&b)}));
                    }
                },
                1 | 2 => {
                    let enc = *rng.pick(&encs);
                    let big = !sanit && rng.chance(1, 40);
                    let b = enc_bytes(&mut rng, enc, if big { 20000 } else { 48 });
                    let cuts = if big && rng.chance(1, 2) { vec![] } else { random_cuts_b(&mut rng, b.len().min(4000)) };
                    st.distinct.insert(hash_bytes(&b));
                    check_encoding(enc, &b, &cuts, st);
                    st.count("encoding_runs");
                    if k % 8 == 1 && b.len() < 4000 {
                        check_encoding_ctor_variants(enc, &b, &cuts, st);
                    }
                },
                _ => {
                    // byte soup, or (one run in three) real markup with one to three meta elements (the driver loops on
                    // encoding indicators and script pauses inside process()/finish()), ill-formed bytes sprinkled in,
                    // fed in one piece as often as in chunks
                    let b = if rng.chance(1, 3) {
                        let mut s = String::new();
                        for _ in 0..rng.range(1, 4) {
                            s.push_str(&crate::gen::random_meta(&mut rng));
                            if rng.chance(1, 2) {
                                s.push_str(&crate::gen::tok_soup(&mut rng, 4));
                            }
                        }
                        let mut v = s.into_bytes();
                        for _ in 0..rng.below(3) {
                            let at = rng.below(v.len() + 1);
                            v.insert(at, *rng.pick(&REPS));
                        }
                        st.count("tree_runs_over_markup_with_meta_elements");
                        v
                    } else {
                        random_bytes(&mut rng, 48)
                    };
                    let cuts = if rng.chance(1, 3) { vec![] } else { random_cuts_b(&mut rng, b.len()) };
                    st.distinct.insert(hash_bytes(&b));
                    check_tree(&b, &cuts, st);
                },
            }
        }
    });
    let mut m = super::meta(
        args,
        &format!("(1) exhaustive: every byte string of length 0..={maxlen} over 25 UTF-8 byte-class representatives (every lead class, every continuation sub-range boundary, invalid leads) under EVERY chunking (2^(n-1) schedules) through Utf8LossyDecoder: concatenated output == String::from_utf8_lossy, error reports == replacements inserted (counted independently). (2) random byte strings up to 64 bytes with truncated sequences x random chunkings incl. 1-byte and empty chunks. (3) LossyDecoder over all 40 encoding_rs encodings: chunked output == one-shot Encoding::decode of the concatenation (BOM-sniffing decoder on both sides), inputs biased to lead/trail ranges, ISO-2022-JP escapes, UTF-16 surrogate halves, BOMs, truncation at EOF, outputs > 8192 bytes; the other constructors (new_from_encoding_rs_decoder with a decoder without BOM handling, utf8()) with inner_sink() read after every chunk (text delivered so far is a prefix of the final text) and error() forwarding. (4) parse_document(..).from_utf8() over chunks (HTML and XML) gives the tree of parsing the lossy string. (5) the other TendrilSink entry points over inputs of up to 13000 bytes (sizes around the 4096-byte read block): one(), from_iter(), read_from() with a reader that returns short reads of scheduled sizes (1, 2, 3, 4095, 4096, ...) and Interrupted errors, from_file() on a real temporary file, and the HTML parser behind from_utf8().read_from(). Distinct = distinct byte strings."),
        &["String::from_utf8_lossy and encoding_rs's one-shot decode are the trusted references", "the class quotient is exhaustive; general byte strings are sampled"],
    );
    m.exhaustive = true;
    if !sanit {
        m.require = vec![("exhaustive_strings".into(), 400_000), ("encoding_runs".into(), 20_000), ("encodings_exercised".into(), 40), ("tree_runs".into(), 2000), ("enc_runs_with_output_over_8192_bytes".into(), 20), ("entry_point_runs".into(), 500), ("constructor_variant_runs".into(), 2000), ("read_from_runs_with_several_reads".into(), 100), ("read_from_runs_with_interrupted_reads".into(), 50)];
    }
    (m, st)
}
