//! C08 — diagnostic and housekeeping options never change what is parsed (metamorphic, option flips).

use super::common::*;
use super::parse_common::*;
use crate::drive::*;
use crate::gen::{self, StartState};
use crate::prng::{hash_str, mix, Rng};
use crate::report::{catch, nthreads, par_run, Meta, Stats};
use crate::tokrec::{coalesce, Policy, RTok};
use crate::tree::{dump_html, dump_xml, from_rcdom, TData, TNode};
use html5ever::tendril::StrTendril;
use markup5ever_rcdom::RcDom;
use crate::xdrive::{run_xml_parse, run_xml_tokenizer, xcoalesce, XmlOpts};
use crate::Args;
use serde_json::{json, Value};

fn tok_run(input: &str, cuts: &[usize], o: &HtmlTokOpts, policy: &Policy) -> Result<Vec<(RTok, u64)>, String> {
    let chunks = split_at_chars(input, cuts);
    catch(|| run_html_tokenizer(&chunks, o, policy, false)).map(|r| coalesce(&r.raw, false))
}

fn tree_run(input: &str, cuts: &[usize], o: &HtmlOpts) -> Result<(TNode, String), String> {
    let chunks = split_at_chars(input, cuts);
    catch(|| run_html_parse(&chunks, o, Gc::Off, false, &mut no_script)).map(|r| (r.sink.document_tree(), format!("{:?}", r.sink.quirks())))
}

fn strip_doctype(t: &TNode) -> TNode {
    let mut t = t.clone();
    t.children.retain(|c| !matches!(c.data, TData::Doctype { .. }));
    t
}

fn skip_first_char(s: &str) -> String {
    s.chars().skip(1).collect()
}

/// cut positions shifted for an input whose first character was removed
fn shift_cuts(cuts: &[usize]) -> Vec<usize> {
    cuts.iter().map(|&c| c.saturating_sub(1)).collect()
}

fn check_tok(input: &str, cuts: &[usize], start: StartState, last: Option<&str>, policy: &Policy, st: &mut Stats) {
    let base = HtmlTokOpts { initial_state: if start == StartState::Data { None } else { Some(real_state(start)) }, last_start_tag: last.map(|s| s.to_string()), ..Default::default() };
    let rep = |flip: &str| json!({"kind": "tok", "input": input, "cuts": cuts, "start": start_state_name(start), "last_tag": last, "policy": super::c03::policy_json(policy), "flip": flip});
    let Ok(reference) = tok_run(input, cuts, &base, policy) else {
        st.count("reference_panicked");
        return;
    };
    st.case(if reference.len() > 2 { Some(hash_str(&format!("t{input}{cuts:?}{start:?}{policy:?}"))) } else { None });
    for flip in ["exact_errors", "profile", "exact_errors+profile"] {
        let mut o = base.clone();
        o.exact_errors = flip.contains("exact_errors");
        o.profile = flip.contains("profile");
        st.count(&format!("tok_flip:{flip}"));
        match tok_run(input, cuts, &o, policy) {
            Err(m) => st.violation(&format!("tok:{flip}:panic"), &format!("input={} {flip}: {m}", show(input)), rep(flip)),
            Ok(t) => {
                if let Some(d) = first_diff(&reference, &t, true) {
                    st.violation(&format!("tok:{flip}"), &format!("input={} cuts={cuts:?} start={start:?}: default vs {flip}: {d}", show(input)), rep(flip));
                }
            },
        }
    }
    // discard_bom
    let mut off = base.clone();
    off.discard_bom = false;
    st.count("tok_flip:discard_bom");
    if input.starts_with('\u{feff}') {
        st.count("bom_first_inputs");
        let rest = skip_first_char(input);
        if let Ok(t) = tok_run(&rest, &shift_cuts(cuts), &off, policy) {
            if let Some(d) = first_diff_ignoring_lines_if(&reference, &t, false) {
                st.violation("tok:discard_bom:first", &format!("input={} cuts={cuts:?}: discard_bom=true vs same input without its first U+FEFF: {d}", show(input)), rep("discard_bom"));
            }
        }
    } else if let Ok(t) = tok_run(input, cuts, &off, policy) {
        if let Some(d) = first_diff(&reference, &t, true) {
            st.violation("tok:discard_bom:not-first", &format!("input={} cuts={cuts:?}: discard_bom true vs false on input not starting with U+FEFF: {d}", show(input)), rep("discard_bom"));
        }
    }
}

fn first_diff_ignoring_lines_if(a: &[(RTok, u64)], b: &[(RTok, u64)], _x: bool) -> Option<String> {
    first_diff(a, b, true)
}

fn check_tree(input: &str, cuts: &[usize], base: &HtmlOpts, st: &mut Stats) {
    let rep = |flip: &str| json!({"kind": "tree", "input": input, "cuts": cuts, "opts": super::c03::html_opts_json(base), "flip": flip});
    let Ok((rt, rq)) = tree_run(input, cuts, base) else {
        st.count("reference_panicked");
        return;
    };
    let rdump = dump_html(&rt);
    st.case(if rt.count_nodes() > 4 { Some(hash_str(&format!("{input}{cuts:?}{}", base.describe()))) } else { None });
    if st.samples.len() < 2 && rt.count_nodes() > 6 {
        st.sample(json!({"input": input, "cuts": cuts, "opts": base.describe(), "flips": ["tok exact_errors", "tb exact_errors", "profile", "discard_bom", "drop_doctype"]}));
    }
    for flip in ["tok_exact", "tb_exact", "both_exact", "profile"] {
        let mut o = base.clone();
        match flip {
            "tok_exact" => o.tok.exact_errors = true,
            "tb_exact" => o.tb_exact_errors = true,
            "both_exact" => {
                o.tok.exact_errors = true;
                o.tb_exact_errors = true;
            },
            _ => o.tok.profile = true,
        }
        st.count(&format!("tree_flip:{flip}"));
        match tree_run(input, cuts, &o) {
            Err(m) => st.violation(&format!("tree:{flip}:panic"), &format!("input={} {flip}: {m}", show(input)), rep(flip)),
            Ok((t, q)) => {
                let d = dump_html(&t);
                if d != rdump {
                    st.violation(&format!("tree:{flip}"), &format!("input={} cuts={:?} {}: default vs {flip}: {}", show(input), &cuts[..cuts.len().min(6)], base.describe(), dump_diff(&rdump, &d)), rep(flip));
                } else if q != rq {
                    st.violation(&format!("tree:{flip}:quirks"), &format!("input={}: quirks {rq} vs {q}", show(input)), rep(flip));
                }
            },
        }
    }
    // drop_doctype
    {
        let mut o = base.clone();
        o.drop_doctype = true;
        st.count("tree_flip:drop_doctype");
        if let Ok((t, q)) = tree_run(input, cuts, &o) {
            let had_doctype = rt.children.iter().any(|c| matches!(c.data, TData::Doctype { .. }));
            if had_doctype {
                st.count("drop_doctype_with_doctype_present");
            }
            let expect = dump_html(&strip_doctype(&rt));
            let d = dump_html(&t);
            if d != expect {
                st.violation("tree:drop_doctype", &format!("input={} {}: {}", show(input), base.describe(), dump_diff(&expect, &d)), rep("drop_doctype"));
            } else if q != rq {
                st.violation("tree:drop_doctype:quirks", &format!("input={}: quirks {rq} vs {q}", show(input)), rep("drop_doctype"));
            }
        }
    }
    // discard_bom
    {
        let mut off = base.clone();
        off.tok.discard_bom = false;
        let mut on = base.clone();
        on.tok.discard_bom = true;
        st.count("tree_flip:discard_bom");
        if input.starts_with('\u{feff}') {
            st.count("bom_first_inputs");
            let rest = skip_first_char(input);
            if let (Ok((a, _)), Ok((b, _))) = (tree_run(input, cuts, &on), tree_run(&rest, &shift_cuts(cuts), &off)) {
                let (da, db) = (dump_html(&a), dump_html(&b));
                if da != db {
                    st.violation("tree:discard_bom:first", &format!("input={} cuts={:?}: {}", show(input), &cuts[..cuts.len().min(6)], dump_diff(&da, &db)), rep("discard_bom"));
                }
            }
        } else if let (Ok((a, _)), Ok((b, _))) = (tree_run(input, cuts, &on), tree_run(input, cuts, &off)) {
            let (da, db) = (dump_html(&a), dump_html(&b));
            if da != db {
                st.violation("tree:discard_bom:not-first", &format!("input={} cuts={:?}: {}", show(input), &cuts[..cuts.len().min(6)], dump_diff(&da, &db)), rep("discard_bom"));
            }
        }
    }
}

fn check_xml(input: &str, cuts: &[usize], st: &mut Stats) {
    let chunks = split_at_chars(input, cuts);
    let base = XmlOpts::default();
    let rep = |flip: &str| json!({"kind": "xml", "input": input, "cuts": cuts, "flip": flip});
    let Ok(rt) = catch(|| run_xml_tokenizer(&chunks, &base, false)) else { return };
    let rtoks = xcoalesce(&rt.raw, false);
    let Ok(rtree) = catch(|| run_xml_parse(&chunks, &base, false, false)) else { return };
    let rdump = dump_xml(&rtree.sink.document_tree());
    st.case(if rtoks.len() > 2 { Some(hash_str(&format!("x{input}{cuts:?}"))) } else { None });
    st.count("xml_cases");
    for flip in ["exact_errors", "profile"] {
        let mut o = base;
        if flip == "exact_errors" {
            o.exact_errors = true;
        } else {
            o.profile = true;
        }
        st.count(&format!("xml_flip:{flip}"));
        match catch(|| run_xml_tokenizer(&chunks, &o, false)) {
            Err(m) => st.violation(&format!("xml:{flip}:panic"), &format!("xml input={}: {m}", show(input)), rep(flip)),
            Ok(t) => {
                let toks = xcoalesce(&t.raw, false);
                if toks != rtoks {
                    let i = toks.iter().zip(rtoks.iter()).position(|(a, b)| a != b).unwrap_or(toks.len().min(rtoks.len()));
                    st.violation(
                        &format!("xml:tok:{flip}"),
                        &format!("xml input={} cuts={:?}: default vs {flip}: token #{i}: {:?} vs {:?}", show(input), &cuts[..cuts.len().min(6)], rtoks.get(i), toks.get(i)),
                        rep(flip),
                    );
                    continue;
                }
            },
        }
        if let Ok(t) = catch(|| run_xml_parse(&chunks, &o, false, false)) {
            let d = dump_xml(&t.sink.document_tree());
            if d != rdump {
                st.violation(&format!("xml:tree:{flip}"), &format!("xml input={}: default vs {flip}: {}", show(input), dump_diff(&rdump, &d)), rep(flip));
            }
        }
    }
    // discard_bom
    let mut off = base;
    off.discard_bom = false;
    st.count("xml_flip:discard_bom");
    if input.starts_with('\u{feff}') {
        st.count("bom_first_inputs");
        let rest = skip_first_char(input);
        let rchunks = split_at_chars(&rest, &shift_cuts(cuts));
        if let Ok(t) = catch(|| run_xml_parse(&rchunks, &off, false, false)) {
            let d = dump_xml(&t.sink.document_tree());
            if d != rdump {
                st.violation("xml:discard_bom:first", &format!("xml input={}: {}", show(input), dump_diff(&rdump, &d)), rep("discard_bom"));
            }
        }
    } else if let Ok(t) = catch(|| run_xml_parse(&chunks, &off, false, false)) {
        let d = dump_xml(&t.sink.document_tree());
        if d != rdump {
            st.violation("xml:discard_bom:not-first", &format!("xml input={}: {}", show(input), dump_diff(&rdump, &d)), rep("discard_bom"));
        }
    }
}

// ---------------------------------------------------------------------------------------------
// the same option flips through the public driver API (parse_document / parse_fragment with a
// ParseOpts, fed with process()/finish()), which builds its own TokenizerOpts from the caller's

fn driver_html(input: &str, cuts: &[usize], o: &html5ever::ParseOpts, ctx: Option<&(String, String, Vec<(String, String)>)>) -> Result<String, String> {
    use html5ever::tendril::TendrilSink;
    let chunks = split_at_chars(input, cuts);
    catch(|| {
        let dom = match ctx {
            None => {
                let mut p = html5ever::parse_document(RcDom::default(), o.clone());
                for c in &chunks {
                    p.process(StrTendril::from_slice(c));
                }
                p.finish()
            },
            Some((ns, local, attrs)) => {
                let name = html5ever::QualName::new(None, html5ever::Namespace::from(ns.as_str()), html5ever::LocalName::from(local.as_str()));
                let attrs = attrs.iter().map(|(k, v)| html5ever::Attribute { name: html5ever::QualName::new(None, html5ever::ns!(), html5ever::LocalName::from(k.as_str())), value: StrTendril::from_slice(v) }).collect();
                // by input length, one fragment case in three goes through parse_fragment_for_element with a form element
                // pointer (a form outside the fragment) and a context that does not allow scripting
                // (the choice ignores a leading BOM: the discard_bom law compares X with U+FEFF + X and both must take the same entry point)
                let sel = input.trim_start_matches('\u{feff}').len();
                let mut p = if sel % 3 == 1 {
                    let sink = RcDom::default();
                    let ctx_elem = html5ever::tree_builder::create_element(&sink, name, attrs);
                    let form = html5ever::tree_builder::create_element(&sink, html5ever::QualName::new(None, html5ever::ns!(html), html5ever::local_name!("form")), vec![]);
                    html5ever::driver::parse_fragment_for_element(sink, o.clone(), ctx_elem, sel % 2 == 0, Some(form))
                } else {
                    html5ever::parse_fragment(RcDom::default(), o.clone(), name, attrs, true)
                };
                for c in &chunks {
                    p.process(StrTendril::from_slice(c));
                }
                p.finish()
            },
        };
        dump_html(&strip_doctype(&from_rcdom(&dom.document)))
    })
}

fn driver_xml(input: &str, cuts: &[usize], o: &xml5ever::driver::XmlParseOpts) -> Result<String, String> {
    use xml5ever::tendril::TendrilSink;
    let chunks = split_at_chars(input, cuts);
    catch(|| {
        let mut p = xml5ever::driver::parse_document(RcDom::default(), o.clone());
        for c in &chunks {
            p.process(StrTendril::from_slice(c));
        }
        dump_xml(&from_rcdom(&p.finish().document))
    })
}

fn check_driver(input: &str, cuts: &[usize], ctx: Option<&(String, String, Vec<(String, String)>)>, scripting: bool, st: &mut Stats) {
    let mut base = html5ever::ParseOpts::default();
    base.tree_builder.scripting_enabled = scripting;
    let rep = |flip: &str| json!({"kind": "driver", "input": input, "cuts": cuts, "flip": flip, "scripting": scripting, "context": ctx.map(|c| json!({"ns": c.0, "local": c.1, "attrs": c.2.iter().map(|a| json!([a.0, a.1])).collect::<Vec<_>>()}))});
    let Ok(reference) = driver_html(input, cuts, &base, ctx) else { return };
    st.count(if ctx.is_some() { "driver_fragment_cases" } else { "driver_document_cases" });
    let where_ = if ctx.is_some() { "parse_fragment" } else { "parse_document" };
    for flip in ["tok.exact_errors", "tok.profile", "tb.exact_errors", "drop_doctype"] {
        let mut o = base.clone();
        match flip {
            "tok.exact_errors" => o.tokenizer.exact_errors = true,
            "tok.profile" => o.tokenizer.profile = true,
            "tb.exact_errors" => o.tree_builder.exact_errors = true,
            _ => o.tree_builder.drop_doctype = true,
        }
        match driver_html(input, cuts, &o, ctx) {
            Err(m) => st.violation(&format!("driver:{flip}:panic"), &format!("{where_} input={} cuts={:?} with {flip}: {m}", show(input), &cuts[..cuts.len().min(6)]), rep(flip)),
            Ok(d) if d != reference => st.violation(&format!("driver:{flip}"), &format!("{where_} input={} cuts={:?}: default vs {flip} (doctype left out): {}", show(input), &cuts[..cuts.len().min(6)], dump_diff(&reference, &d)), rep(flip)),
            Ok(_) => {},
        }
    }
    // discard_bom = false on X must equal discard_bom = true on U+FEFF + X (the one dropped character)
    let mut off = base.clone();
    off.tokenizer.discard_bom = false;
    let with_bom = format!("\u{feff}{input}");
    let shifted: Vec<usize> = std::iter::once(if cuts.first() == Some(&0) { 0 } else { 1 }).chain(cuts.iter().map(|c| c + 1)).collect();
    if let (Ok(a), Ok(b)) = (driver_html(input, cuts, &off, ctx), driver_html(&with_bom, &shifted, &base, ctx)) {
        if input.starts_with('\u{feff}') {
            st.count("driver_bom_first_inputs");
        }
        if a != b {
            st.violation("driver:discard_bom", &format!("{where_} input={}: with discard_bom=false the tree differs from parsing U+FEFF + input with discard_bom=true: {}", show(input), dump_diff(&b, &a)), rep("discard_bom"));
        }
    }
}

fn check_driver_xml(input: &str, cuts: &[usize], st: &mut Stats) {
    let base = xml5ever::driver::XmlParseOpts::default();
    let rep = |flip: &str| json!({"kind": "driver-xml", "input": input, "cuts": cuts, "flip": flip});
    let Ok(reference) = driver_xml(input, cuts, &base) else { return };
    st.count("driver_xml_cases");
    for flip in ["tok.exact_errors", "tok.profile"] {
        let mut o = base.clone();
        if flip == "tok.exact_errors" {
            o.tokenizer.exact_errors = true;
        } else {
            o.tokenizer.profile = true;
        }
        match driver_xml(input, cuts, &o) {
            Err(m) => st.violation(&format!("driver-xml:{flip}:panic"), &format!("xml input={} with {flip}: {m}", show(input)), rep(flip)),
            Ok(d) if d != reference => st.violation(&format!("driver-xml:{flip}"), &format!("xml input={} cuts={:?}: default vs {flip}: {}", show(input), &cuts[..cuts.len().min(6)], dump_diff(&reference, &d)), rep(flip)),
            Ok(_) => {},
        }
    }
    let mut off = base.clone();
    off.tokenizer.discard_bom = false;
    let with_bom = format!("\u{feff}{input}");
    let shifted: Vec<usize> = std::iter::once(1).chain(cuts.iter().map(|c| c + 1)).collect();
    if let (Ok(a), Ok(b)) = (driver_xml(input, cuts, &off), driver_xml(&with_bom, &shifted, &base)) {
        if a != b {
            st.violation("driver-xml:discard_bom", &format!("xml input={}: with discard_bom=false the tree differs from parsing U+FEFF + input with discard_bom=true: {}", show(input), dump_diff(&b, &a)), rep("discard_bom"));
        }
    }
}

pub fn run(args: &Args) -> (Meta, Stats) {
    if let Some(p) = &args.replay {
        let mut st = Stats::new();
        let v: Value = serde_json::from_str(&std::fs::read_to_string(p).unwrap_or_default()).unwrap_or(Value::Null);
        let cuts: Vec<usize> = v["cuts"].as_array().map(|a| a.iter().filter_map(|x| x.as_u64()).map(|x| x as usize).collect()).unwrap_or_default();
        let input = v["input"].as_str().unwrap_or("");
        match v["kind"].as_str().unwrap_or("") {
            "tok" => check_tok(input, &cuts, parse_start_state(v["start"].as_str().unwrap_or("Data")), v["last_tag"].as_str(), &super::c03::policy_from_json(&v["policy"]), &mut st),
            "tree" => check_tree(input, &cuts, &super::c03::opts_from_json(&v["opts"]), &mut st),
            "driver" => {
                let ctx = v["context"].as_object().map(|c| (c["ns"].as_str().unwrap_or("").to_string(), c["local"].as_str().unwrap_or("").to_string(), c["attrs"].as_array().map(|a| a.iter().map(|p| (p[0].as_str().unwrap_or("").to_string(), p[1].as_str().unwrap_or("").to_string())).collect()).unwrap_or_default()));
                check_driver(input, &cuts, ctx.as_ref(), v["scripting"].as_bool().unwrap_or(true), &mut st)
            },
            "driver-xml" => check_driver_xml(input, &cuts, &mut st),
            _ => check_xml(input, &cuts, &mut st),
        }
        return (super::meta(args, "replay of one recorded case", &[]), st);
    }
    let seed = args.seed;
    let contexts = gen::fragment_contexts();
    let deadline = args.deadline();
    let enumerated: Vec<(StartState, Option<&'static str>, String)> = {
        let mut v = vec![];
        for (start, last, prefix, _) in gen::state_prefixes() {
            for c1 in gen::CLASS_CHARS {
                for suf in ["", ">", "x>", "\"'>", "-->"] {
                    v.push((start, last, format!("{prefix}{c1}{suf}")));
                }
            }
        }
        v
    };
    let st = par_run(nthreads(), |shard, nshards, st| {
        let mut rng = Rng::new(mix(seed ^ 0xC08, shard as u64));
        for (i, (start, last, input)) in enumerated.iter().enumerate() {
            if i % nshards != shard {
                continue;
            }
            check_tok(input, &[], *start, *last, &Policy::TreeBuilderLike, st);
            let n = input.chars().count();
            check_tok(input, &[n / 2], *start, *last, &Policy::TreeBuilderLike, st);
            st.count("enumerated_cases");
        }
        let mut k = 0u64;
        while !expired(deadline) {
            k += 1;
            match k % 8 {
                0 | 1 => {
                    // tokenizer: soup and SIMD-offset runs
                    let mut input = if rng.chance(1, 3) { gen::simd_run(&mut rng) } else { gen::tok_soup(&mut rng, 8) };
                    if rng.chance(1, 10) {
                        input.insert(0, '\u{feff}');
                    } else if rng.chance(1, 12) {
                        // not a BOM: characters that only look like U+FEFF after a truncating cast or a byte swap
                        input.insert(0, *rng.pick(&['\u{1feff}', '\u{2feff}', '\u{10feff}', '\u{fffe}', '\u{fe}', '\u{ff}', '\u{feff0}', '\u{fefe}']));
                    }
                    let n = input.chars().count();
                    let cuts = random_schedule(&mut rng, n);
                    let start = if rng.chance(1, 4) { *rng.pick(&gen::START_STATES) } else { StartState::Data };
                    let policy = if rng.chance(1, 5) { Policy::Hashed { salt: rng.next_u64(), foreign_salt: rng.next_u64() } } else { Policy::TreeBuilderLike };
                    check_tok(&input, &cuts, start, Some("title"), &policy, st);
                    st.count("tok_cases");
                },
                2 | 3 => {
                    let mut input = if rng.chance(1, 3) { gen::xml_ns_doc(&mut rng) } else { gen::xml_doc(&mut rng, 12) };
                    if rng.chance(1, 10) {
                        input.insert(0, '\u{feff}');
                    }
                    let n = input.chars().count();
                    let cuts = random_schedule(&mut rng, n);
                    check_xml(&input, &cuts, st);
                    if rng.chance(1, 3) {
                        check_driver_xml(&input, &cuts, st);
                    }
                },
                _ => {
                    let (mut input, opts) = random_html_case(&mut rng, &contexts, &[], false);
                    if rng.chance(1, 40) {
                        // scaled-up input: error messages, text runs and token renderings beyond any internal cap
                        input = crate::big::big_html(&mut rng);
                        st.count("scaled_up_tree_cases");
                    }
                    if rng.chance(1, 10) {
                        input.insert(0, '\u{feff}');
                    } else if rng.chance(1, 12) {
                        input.insert(0, *rng.pick(&['\u{1feff}', '\u{2feff}', '\u{10feff}', '\u{fffe}', '\u{fe}', '\u{ff}']));
                    }
                    if rng.chance(1, 6) {
                        input.insert_str(0, rng.pick_s(gen::QUIRKS_DOCTYPES));
                    }
                    let n = input.chars().count();
                    let cuts = random_schedule(&mut rng, n);
                    check_tree(&input, &cuts, &opts, st);
                    st.count("tree_cases");
                    if rng.chance(1, 3) {
                        // the same flips through parse_document / parse_fragment and a ParseOpts; metas that
                        // declare an encoding suspend feed(), which the driver has to ride out
                        if rng.chance(1, 3) {
                            let at = rng.below(input.chars().count() + 1);
                            let mut chars: Vec<char> = input.chars().collect();
                            let m: Vec<char> = rng.pick_s(&["<meta charset=utf-8>", "<meta http-equiv=content-type content='text/html; charset=x'>", "<meta charset=a><meta charset=b>"]).chars().collect();
                            for (i, c) in m.into_iter().enumerate() {
                                chars.insert(at + i, c);
                            }
                            input = chars.into_iter().collect();
                        }
                        let n = input.chars().count();
                        let cuts = random_schedule(&mut rng, n);
                        check_driver(&input, &cuts, opts.context.as_ref(), opts.scripting, st);
                    }
                },
            }
        }
    });
    let mut m = super::meta(
        args,
        "two executions of the real code on the same input and feed schedule that differ in exactly one option: exact_errors / profile (HTML tokenizer, tree builder, XML) must leave tokens (minus parse errors, with lines), tree and quirks mode unchanged; discard_bom may only remove a U+FEFF that is the first character of the stream; drop_doctype may only remove the doctype node. Inputs: all enumerated tokenizer single transitions, markup soup, SIMD-offset text runs (exact_errors forces the scalar path, so this is SIMD vs scalar), grammar documents in ~60 contexts, XML soup and namespace shapes. Non-trivial = more than EOF+1 token / beyond skeleton; distinct by hash of input+schedule+options.",
        &["profile=true makes the library print to stdout; the harness points fd 1 at /dev/null and reports through a saved descriptor"],
    );
    m.require = vec![("enumerated_cases".into(), enumerated.len() as u64), ("tree_cases".into(), 500), ("xml_cases".into(), 500), ("bom_first_inputs".into(), 50), ("drop_doctype_with_doctype_present".into(), 30), ("driver_document_cases".into(), 300), ("driver_fragment_cases".into(), 100), ("driver_xml_cases".into(), 200)];
    (m, st)
}
