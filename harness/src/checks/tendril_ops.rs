//! Operation histories over a pool of tendrils, checked against a pool of plain `Vec<u8>`.
//! Shared by C11 (functional equivalence) and C12 (sanitizers / allocation accounting).

use crate::prng::Rng;
use crate::report::{catch, Stats};
use tendril::fmt::{Bytes, Format, Latin1, ASCII, UTF8, WTF8};
use tendril::{Atomicity, SubtendrilError, Tendril};

/// Independent description of a tendril format.
pub trait Fm: Format + 'static {
    const NAME: &'static str;
    /// is the whole byte string valid content?
    fn valid(b: &[u8]) -> bool;
    /// random valid content of roughly `len` bytes
    fn gen(rng: &mut Rng, len: usize) -> Vec<u8>;
    /// model of appending rhs to lhs (WTF-8 joins a surrogate pair)
    fn append(lhs: &mut Vec<u8>, rhs: &[u8]) {
        lhs.extend_from_slice(rhs);
    }
    /// decoded first character and its byte length, for formats with characters
    fn first_char(_b: &[u8]) -> Option<Option<(char, usize)>> {
        None
    }
    fn encode(_c: char) -> Option<Option<Vec<u8>>> {
        None
    }
}

const LENS: [usize; 16] = [0, 1, 2, 3, 7, 8, 9, 15, 16, 17, 31, 32, 33, 64, 100, 300];

impl Fm for Bytes {
    const NAME: &'static str = "Bytes";
    fn valid(_: &[u8]) -> bool {
        true
    }
    fn gen(rng: &mut Rng, len: usize) -> Vec<u8> {
        (0..len).map(|_| (rng.next_u64() & 0xff) as u8).collect()
    }
}

impl Fm for ASCII {
    const NAME: &'static str = "ASCII";
    fn valid(b: &[u8]) -> bool {
        b.iter().all(|&x| x < 0x80)
    }
    fn gen(rng: &mut Rng, len: usize) -> Vec<u8> {
        (0..len).map(|_| (rng.next_u64() & 0x7f) as u8).collect()
    }
    fn first_char(b: &[u8]) -> Option<Option<(char, usize)>> {
        Some(b.first().map(|&x| (x as char, 1)))
    }
    fn encode(c: char) -> Option<Option<Vec<u8>>> {
        Some(if (c as u32) < 0x80 { Some(vec![c as u8]) } else { None })
    }
}

impl Fm for Latin1 {
    const NAME: &'static str = "Latin1";
    fn valid(_: &[u8]) -> bool {
        true
    }
    fn gen(rng: &mut Rng, len: usize) -> Vec<u8> {
        (0..len).map(|_| (rng.next_u64() & 0xff) as u8).collect()
    }
    fn first_char(b: &[u8]) -> Option<Option<(char, usize)>> {
        Some(b.first().map(|&x| (x as char, 1)))
    }
    fn encode(c: char) -> Option<Option<Vec<u8>>> {
        Some(if (c as u32) < 0x100 { Some(vec![c as u32 as u8]) } else { None })
    }
}

const UCHARS: [char; 12] = ['a', 'Z', '0', ' ', '\n', 'é', '\u{a0}', '\u{7ff}', '\u{800}', '日', '\u{ffff}', '\u{10ffff}'];

impl Fm for UTF8 {
    const NAME: &'static str = "UTF8";
    fn valid(b: &[u8]) -> bool {
        std::str::from_utf8(b).is_ok()
    }
    fn gen(rng: &mut Rng, len: usize) -> Vec<u8> {
        let mut s = String::new();
        while s.len() < len {
            s.push(*rng.pick(&UCHARS));
        }
        while s.len() > len && !s.is_empty() {
            s.pop();
        }
        s.into_bytes()
    }
    fn first_char(b: &[u8]) -> Option<Option<(char, usize)>> {
        let s = std::str::from_utf8(b).ok()?;
        Some(s.chars().next().map(|c| (c, c.len_utf8())))
    }
    fn encode(c: char) -> Option<Option<Vec<u8>>> {
        Some(Some(c.to_string().into_bytes()))
    }
}

/// generalized UTF-8 decode (surrogate code points allowed); returns code points or None
fn gutf8(b: &[u8]) -> Option<Vec<(u32, usize)>> {
    let mut out = vec![];
    let mut i = 0;
    while i < b.len() {
        let x = b[i];
        let (n, min, init) = if x < 0x80 {
            (1, 0, x as u32)
        } else if (0xC2..=0xDF).contains(&x) {
            (2, 0x80, (x & 0x1f) as u32)
        } else if (0xE0..=0xEF).contains(&x) {
            (3, 0x800, (x & 0x0f) as u32)
        } else if (0xF0..=0xF4).contains(&x) {
            (4, 0x10000, (x & 0x07) as u32)
        } else {
            return None;
        };
        if i + n > b.len() {
            return None;
        }
        let mut cp = init;
        for k in 1..n {
            let y = b[i + k];
            if y & 0xC0 != 0x80 {
                return None;
            }
            cp = (cp << 6) | (y & 0x3f) as u32;
        }
        if cp < min || cp > 0x10FFFF {
            return None;
        }
        out.push((cp, n));
        i += n;
    }
    Some(out)
}

pub fn enc_cp(cp: u32) -> Vec<u8> {
    if cp < 0x80 {
        vec![cp as u8]
    } else if cp < 0x800 {
        vec![0xC0 | (cp >> 6) as u8, 0x80 | (cp & 0x3f) as u8]
    } else if cp < 0x10000 {
        vec![0xE0 | (cp >> 12) as u8, 0x80 | ((cp >> 6) & 0x3f) as u8, 0x80 | (cp & 0x3f) as u8]
    } else {
        vec![0xF0 | (cp >> 18) as u8, 0x80 | ((cp >> 12) & 0x3f) as u8, 0x80 | ((cp >> 6) & 0x3f) as u8, 0x80 | (cp & 0x3f) as u8]
    }
}

impl Fm for WTF8 {
    const NAME: &'static str = "WTF8";
    fn valid(b: &[u8]) -> bool {
        match gutf8(b) {
            None => false,
            Some(cps) => !cps.windows(2).any(|w| (0xD800..0xDC00).contains(&w[0].0) && (0xDC00..0xE000).contains(&w[1].0)),
        }
    }
    fn gen(rng: &mut Rng, len: usize) -> Vec<u8> {
        let mut out: Vec<u8> = vec![];
        let mut last_lead = false;
        while out.len() < len {
            let cp = match rng.below(8) {
                0 => 0xD800 + rng.below(0x400) as u32,
                1 if !last_lead => 0xDC00 + rng.below(0x400) as u32,
                2 => 0x10000 + rng.below(0x1000) as u32,
                3 => 0xE9,
                _ => 0x20 + rng.below(0x5f) as u32,
            };
            last_lead = (0xD800..0xDC00).contains(&cp);
            out.extend(enc_cp(cp));
        }
        // trim to a code point boundary <= len
        while out.len() > len {
            let cps = gutf8(&out).unwrap();
            let last = cps.last().unwrap().1;
            out.truncate(out.len() - last);
        }
        out
    }
    fn append(lhs: &mut Vec<u8>, rhs: &[u8]) {
        if let (Some(l), Some(r)) = (gutf8(lhs), gutf8(rhs)) {
            if let (Some(&(hi, 3)), Some(&(lo, 3))) = (l.last(), r.first()) {
                if (0xD800..0xDC00).contains(&hi) && (0xDC00..0xE000).contains(&lo) {
                    let n = 0x10000 + ((hi - 0xD800) << 10) + (lo - 0xDC00);
                    let keep = lhs.len() - 3;
                    lhs.truncate(keep);
                    lhs.extend(enc_cp(n));
                    lhs.extend_from_slice(&rhs[3..]);
                    return;
                }
            }
        }
        lhs.extend_from_slice(rhs);
    }
}

pub fn bytes_of<F: Format, A: Atomicity>(t: &Tendril<F, A>) -> &[u8] {
    t.as_bytes()
}

pub fn repr_of<F: Format, A: Atomicity>(t: &Tendril<F, A>) -> &'static str {
    let d = format!("{:?}", t.as_bytes());
    if d.contains("(inline") {
        "inline"
    } else if d.contains("(shared") {
        "shared"
    } else {
        "owned"
    }
}

pub struct Pool<F: Fm, A: Atomicity> {
    pub items: Vec<(Tendril<F, A>, Vec<u8>)>,
}

/// Outcome of one history: Ok(number of ops) or Err((op description, what differed)).
pub type HistResult = Result<usize, (String, String)>;

fn cut_points(rng: &mut Rng, len: usize) -> (u32, u32) {
    // offsets/lengths biased to the ends, the middle and just out of bounds
    let pick = |rng: &mut Rng| -> u32 {
        match rng.below(8) {
            0 => 0,
            1 => len as u32,
            2 => len as u32 + 1 + rng.below(3) as u32,
            3 => u32::MAX - rng.below(2) as u32,
            _ => rng.below(len + 1) as u32,
        }
    };
    (pick(rng), pick(rng))
}

/// Does a cut of valid content `whole` at byte index `k` fall on a boundary (prefix and suffix both valid)?
fn boundary<F: Fm>(whole: &[u8], k: usize) -> bool {
    F::valid(&whole[..k]) && F::valid(&whole[k..])
}

/// Run one random history; every tendril is compared with its model after every operation.
pub fn run_history<F: Fm, A: Atomicity>(rng: &mut Rng, nops: usize, st: &mut Stats) -> HistResult {
    let mut pool: Pool<F, A> = Pool { items: vec![] };
    let mut log: Vec<String> = vec![];
    macro_rules! fail {
        ($($a:tt)*) => {{
            let what = format!($($a)*);
            let tail: Vec<String> = log.iter().rev().take(12).rev().cloned().collect();
            return Err((tail.join(" ; "), what));
        }};
    }
    for opno in 0..nops {
        let n = pool.items.len();
        let op = if n == 0 { 0 } else { rng.below(24) };
        let i = if n > 0 { rng.below(n) } else { 0 };
        let before = if n > 0 { repr_of(&pool.items[i].0) } else { "none" };
        let opname: &'static str;
        match op {
            0 | 1 => {
                // construct
                let len = *rng.pick(&LENS);
                let content = F::gen(rng, len);
                let t = match rng.below(3) {
                    0 => {
                        opname = "with_capacity+push";
                        let mut t: Tendril<F, A> = Tendril::with_capacity(*rng.pick(&LENS) as u32);
                        if t.try_push_bytes(&content).is_err() {
                            fail!("try_push_bytes rejected valid content {content:?}");
                        }
                        t
                    },
                    _ => {
                        opname = "try_from_byte_slice";
                        match Tendril::<F, A>::try_from_byte_slice(&content) {
                            Ok(t) => t,
                            Err(()) => fail!("try_from_byte_slice rejected valid content {content:?}"),
                        }
                    },
                };
                log.push(format!("#{opno} new[{}] len={}", pool.items.len(), content.len()));
                pool.items.push((t, content));
            },
            2 => {
                opname = "try_from_byte_slice(invalid?)";
                // arbitrary bytes: accepted iff the independent validator says so
                let len = rng.below(12);
                let raw: Vec<u8> = (0..len).map(|_| *rng.pick(&[0x41u8, 0x80, 0xC3, 0xA9, 0xED, 0xA0, 0xB0, 0xF0, 0x9F, 0xFF, 0x00, 0xE2, 0x82, 0xAC])).collect();
                let want = F::valid(&raw);
                log.push(format!("#{opno} try_from_byte_slice({raw:?})"));
                match Tendril::<F, A>::try_from_byte_slice(&raw) {
                    Ok(t) => {
                        if !want {
                            fail!("try_from_byte_slice accepted invalid {raw:?}");
                        }
                        pool.items.push((t, raw));
                    },
                    Err(()) => {
                        if want {
                            fail!("try_from_byte_slice rejected valid {raw:?}");
                        }
                        st.count(&format!("{}:rejected_invalid_construct", F::NAME));
                    },
                }
            },
            3 | 4 => {
                opname = "try_push_bytes";
                let len = *rng.pick(&LENS[..12]);
                let add = if rng.chance(1, 6) { vec![0xFFu8, 0x80] } else { F::gen(rng, len) };
                let ok = F::valid(&add);
                log.push(format!("#{opno} push_bytes[{i}] +{}", add.len()));
                let r = pool.items[i].0.try_push_bytes(&add);
                if r.is_ok() != ok {
                    fail!("try_push_bytes({add:?}) returned {r:?}, model says valid={ok}");
                }
                if ok {
                    let m = &mut pool.items[i].1;
                    F::append(m, &add);
                }
            },
            5 | 6 => {
                opname = "push_tendril";
                let j = rng.below(n);
                let other = pool.items[j].0.clone();
                let ob = pool.items[j].1.clone();
                log.push(format!("#{opno} push_tendril[{i}] <- [{j}]"));
                pool.items[i].0.push_tendril(&other);
                F::append(&mut pool.items[i].1, &ob);
            },
            7 => {
                opname = "adjacent subtendrils + push_tendril";
                // two adjacent slices of the same shared buffer, then merge
                let whole = pool.items[i].1.clone();
                let len = whole.len();
                if len >= 2 {
                    let k = rng.range(1, len - 1);
                    if boundary::<F>(&whole, k) {
                        let a = pool.items[i].0.try_subtendril(0, k as u32);
                        let b = pool.items[i].0.try_subtendril(k as u32, (len - k) as u32);
                        log.push(format!("#{opno} split+merge[{i}] at {k}"));
                        match (a, b) {
                            (Ok(mut a), Ok(b)) => {
                                a.push_tendril(&b);
                                let mut m = whole[..k].to_vec();
                                F::append(&mut m, &whole[k..]);
                                pool.items.push((a, m));
                                pool.items.push((b, whole[k..].to_vec()));
                                st.count(&format!("{}:adjacent_merge", F::NAME));
                            },
                            (a, b) => fail!("subtendril at boundary {k} failed: {:?} {:?}", a.err(), b.err()),
                        }
                    }
                }
            },
            8 | 9 => {
                opname = "try_pop_front";
                let (k, _) = cut_points(rng, pool.items[i].1.len());
                let len = pool.items[i].1.len();
                let want: Result<(), SubtendrilError> = if k == 0 {
                    Ok(())
                } else if k as usize > len {
                    Err(SubtendrilError::OutOfBounds)
                } else if !F::valid(&pool.items[i].1[k as usize..]) {
                    Err(SubtendrilError::ValidationFailed)
                } else {
                    Ok(())
                };
                log.push(format!("#{opno} pop_front[{i}] {k}"));
                // the panicking form must panic exactly when the checked form fails
                let panicking = rng.chance(1, 4) && !cfg!(miri);
                let got = if panicking {
                    let t = &mut pool.items[i].0;
                    match catch(|| t.pop_front(k)) {
                        Ok(()) => Ok(()),
                        Err(_) => Err(SubtendrilError::OutOfBounds),
                    }
                } else {
                    pool.items[i].0.try_pop_front(k)
                };
                if got.is_ok() != want.is_ok() || (!panicking && got != want) {
                    fail!("pop_front({k}) on len {len}: got {got:?}, model {want:?}");
                }
                if want.is_ok() {
                    pool.items[i].1.drain(..k as usize);
                } else {
                    st.count(&format!("{}:pop_error:{:?}", F::NAME, want.as_ref().err().unwrap()));
                }
            },
            10 | 11 => {
                opname = "try_pop_back";
                let (k, _) = cut_points(rng, pool.items[i].1.len());
                let len = pool.items[i].1.len();
                let want: Result<(), SubtendrilError> = if k == 0 {
                    Ok(())
                } else if k as usize > len {
                    Err(SubtendrilError::OutOfBounds)
                } else if !F::valid(&pool.items[i].1[..len - k as usize]) {
                    Err(SubtendrilError::ValidationFailed)
                } else {
                    Ok(())
                };
                log.push(format!("#{opno} pop_back[{i}] {k}"));
                let got = pool.items[i].0.try_pop_back(k);
                if got != want {
                    fail!("try_pop_back({k}) on len {len}: got {got:?}, model {want:?}");
                }
                if want.is_ok() {
                    pool.items[i].1.truncate(len - k as usize);
                } else {
                    st.count(&format!("{}:pop_error:{:?}", F::NAME, want.as_ref().err().unwrap()));
                }
            },
            12 | 13 | 14 => {
                opname = "try_subtendril";
                let len = pool.items[i].1.len();
                let (off, l) = cut_points(rng, len);
                let want: Result<(), SubtendrilError> = if off as usize > len || l as usize > len - off as usize {
                    Err(SubtendrilError::OutOfBounds)
                } else {
                    let s = &pool.items[i].1[off as usize..off as usize + l as usize];
                    // sub-sequence of valid content: valid iff both cuts are on boundaries
                    if F::valid(s) && F::valid(&pool.items[i].1[..off as usize]) && F::valid(&pool.items[i].1[off as usize + l as usize..]) {
                        Ok(())
                    } else if F::valid(s) {
                        // content happens to be valid on its own although a neighbour was cut: the
                        // implementation only looks at the slice itself
                        Ok(())
                    } else {
                        Err(SubtendrilError::ValidationFailed)
                    }
                };
                log.push(format!("#{opno} subtendril[{i}] {off},{l}"));
                let got = pool.items[i].0.try_subtendril(off, l);
                match (&got, &want) {
                    (Ok(t), Ok(())) => {
                        let m = pool.items[i].1[off as usize..off as usize + l as usize].to_vec();
                        if bytes_of(t) != &m[..] {
                            fail!("subtendril({off},{l}) content {:?} != model {:?}", bytes_of(t), m);
                        }
                        pool.items.push((got.unwrap(), m));
                    },
                    (Err(e), Err(w)) if e == w => st.count(&format!("{}:subtendril_error:{:?}", F::NAME, e)),
                    _ => fail!("try_subtendril({off},{l}) on len {len}: got {:?}, model {want:?}", got.as_ref().map(|_| ())),
                }
            },
            15 | 16 => {
                opname = "clone";
                log.push(format!("#{opno} clone[{i}]"));
                let c = pool.items[i].0.clone();
                let m = pool.items[i].1.clone();
                pool.items.push((c, m));
            },
            17 => {
                opname = "clear";
                log.push(format!("#{opno} clear[{i}]"));
                pool.items[i].0.clear();
                pool.items[i].1.clear();
            },
            18 => {
                opname = "reserve";
                let k = *rng.pick(&LENS) as u32;
                log.push(format!("#{opno} reserve[{i}] {k}"));
                pool.items[i].0.reserve(k);
            },
            19 | 20 => {
                opname = "drop";
                log.push(format!("#{opno} drop[{i}]"));
                pool.items.swap_remove(i);
            },
            21 => {
                opname = "into_send round trip";
                log.push(format!("#{opno} send[{i}]"));
                let (t, m) = pool.items.swap_remove(i);
                let s = t.into_send();
                let back: Tendril<F, A> = s.into();
                pool.items.push((back, m));
            },
            22 => {
                opname = "into_bytes/try_reinterpret round trip";
                log.push(format!("#{opno} reinterpret[{i}]"));
                let (t, m) = pool.items.swap_remove(i);
                let b = t.into_bytes();
                if &b[..] != &m[..] {
                    fail!("into_bytes content differs");
                }
                match b.try_reinterpret::<F>() {
                    Ok(t) => pool.items.push((t, m)),
                    Err(_) => fail!("try_reinterpret back to {} failed for valid content", F::NAME),
                }
            },
            _ => {
                opname = "make-owned mutation via push on a shared clone";
                log.push(format!("#{opno} cow[{i}]"));
                let mut c = pool.items[i].0.clone();
                let mut m = pool.items[i].1.clone();
                let add = F::gen(rng, 3);
                if c.try_push_bytes(&add).is_err() {
                    fail!("push on clone failed");
                }
                F::append(&mut m, &add);
                pool.items.push((c, m));
            },
        }
        let after = if i < pool.items.len() { repr_of(&pool.items[i].0) } else { "gone" };
        st.count(&format!("{}:op:{opname}", F::NAME));
        st.observe(&format!("{}:repr_transitions", F::NAME), &format!("{opname}: {before} -> {after}"));
        // the core of the property: every live tendril equals its model after every operation
        for (k, (t, m)) in pool.items.iter().enumerate() {
            if bytes_of(t) != &m[..] {
                fail!("after op #{opno} tendril[{k}] holds {:?} but the model holds {:?}", bytes_of(t), m);
            }
            if t.len32() as usize != m.len() {
                fail!("len32 {} != model {}", t.len32(), m.len());
            }
            if !F::valid(bytes_of(t)) {
                fail!("tendril[{k}] holds content invalid for {}: {:?}", F::NAME, bytes_of(t));
            }
        }
        if pool.items.len() > 10 {
            let k = rng.below(pool.items.len());
            pool.items.swap_remove(k);
        }
    }
    Ok(nops)
}

/// Character-level operations for formats with characters (UTF8, ASCII, Latin1).
pub fn run_char_history<F, A>(rng: &mut Rng, nops: usize, st: &mut Stats) -> HistResult
where
    F: Fm + for<'a> tendril::fmt::CharFormat<'a>,
    A: Atomicity,
{
    let mut t: Tendril<F, A> = Tendril::new();
    let mut m: Vec<u8> = vec![];
    let mut others: Vec<(Tendril<F, A>, Vec<u8>)> = vec![];
    for opno in 0..nops {
        match rng.below(6) {
            0 | 1 => {
                let c = *rng.pick(&UCHARS);
                let want = F::encode(c).unwrap();
                let r = t.try_push_char(c);
                match (r, want) {
                    (Ok(()), Some(b)) => m.extend(b),
                    (Err(()), None) => st.count(&format!("{}:push_char_rejected", F::NAME)),
                    (r, w) => return Err((format!("#{opno} try_push_char({c:?})"), format!("got {r:?}, model {:?}", w.is_some()))),
                }
                st.count(&format!("{}:op:try_push_char", F::NAME));
            },
            2 => {
                let want = F::first_char(&m).unwrap();
                let got = t.pop_front_char();
                if got != want.map(|x| x.0) {
                    return Err((format!("#{opno} pop_front_char"), format!("got {got:?}, model {want:?}")));
                }
                if let Some((_, n)) = want {
                    m.drain(..n);
                }
                st.count(&format!("{}:op:pop_front_char", F::NAME));
            },
            3 => {
                // run of characters with the same class
                let classify = |c: char| (c as u32) % 3;
                let got = t.pop_front_char_run(classify);
                // model
                let mut k = 0;
                let mut cls = None;
                let mut rest = &m[..];
                while let Some(Some((c, n))) = F::first_char(rest) {
                    match cls {
                        None => cls = Some(classify(c)),
                        Some(x) if x != classify(c) => break,
                        _ => {},
                    }
                    k += n;
                    rest = &rest[n..];
                }
                match (got, cls) {
                    (None, None) => {},
                    (Some((run, c)), Some(w)) => {
                        if c != w || bytes_of(&run) != &m[..k] {
                            return Err((format!("#{opno} pop_front_char_run"), format!("got {:?} class {c}, model {:?} class {w}", bytes_of(&run), &m[..k])));
                        }
                        others.push((run, m[..k].to_vec()));
                        m.drain(..k);
                    },
                    (g, w) => return Err((format!("#{opno} pop_front_char_run"), format!("got {:?}, model {w:?}", g.map(|x| x.1)))),
                }
                st.count(&format!("{}:op:pop_front_char_run", F::NAME));
            },
            4 => {
                others.push((t.clone(), m.clone()));
                st.count(&format!("{}:op:clone", F::NAME));
            },
            _ => {
                let add = { let __n = *rng.pick(&LENS[..10]); F::gen(rng, __n) };
                if t.try_push_bytes(&add).is_err() {
                    return Err((format!("#{opno} push"), "rejected valid".into()));
                }
                m.extend(add);
            },
        }
        if bytes_of(&t) != &m[..] {
            return Err((format!("#{opno}"), format!("tendril {:?} != model {:?}", bytes_of(&t), m)));
        }
        for (o, om) in &others {
            if bytes_of(o) != &om[..] {
                return Err((format!("#{opno}"), format!("earlier tendril changed: {:?} != {:?}", bytes_of(o), om)));
            }
        }
        if others.len() > 6 {
            others.remove(0);
        }
    }
    Ok(nops)
}

/// Bytes/UTF8-only operations: DerefMut mutation, Extend/FromIterator, io::Write, read_to_tendril, format!.
pub fn run_slice_history<A: Atomicity>(rng: &mut Rng, nops: usize, st: &mut Stats) -> HistResult {
    use std::io::Write;
    use tendril::ReadExt;
    let mut b: Tendril<Bytes, A> = Tendril::new();
    let mut bm: Vec<u8> = vec![];
    let mut s: Tendril<UTF8, A> = Tendril::new();
    let mut sm = String::new();
    let mut keep: Vec<(Tendril<Bytes, A>, Vec<u8>)> = vec![];
    let mut skeep: Vec<(Tendril<UTF8, A>, String)> = vec![];
    for opno in 0..nops {
        match rng.below(13) {
            11 => {
                // Bytes -> UTF8 conversion by lossy decoding, in two pieces: every tendril handed out
                // must hold valid UTF-8 and the pieces must add up to the lossy decode of the model
                let data: Vec<u8> = if rng.chance(1, 2) { bm.clone() } else { let __n = *rng.pick(&LENS[..12]); let mut v = UTF8::gen(rng, __n); if rng.chance(1, 2) && !v.is_empty() { let k = rng.below(v.len()); v[k] = *rng.pick(&[0x80u8, 0xbf, 0xc0, 0xe0, 0xed, 0xf0, 0xf4, 0xff]); } v };
                let cut = rng.below(data.len() + 1);
                let mut out = String::new();
                let mut invalid_piece = false;
                let first: Tendril<Bytes, A> = Tendril::from_slice(&data[..cut]);
                let second: Tendril<Bytes, A> = Tendril::from_slice(&data[cut..]);
                let mut pending = first.decode_utf8_lossy(|t| {
                    invalid_piece |= std::str::from_utf8(t.as_bytes()).is_err();
                    out.push_str(&t);
                });
                let mut rest = Some(second);
                if let Some(inc) = pending.as_mut() {
                    match inc.try_complete(rest.take().unwrap(), |t: Tendril<UTF8, A>| {
                        invalid_piece |= std::str::from_utf8(t.as_bytes()).is_err();
                        out.push_str(&t);
                    }) {
                        Ok(r) => {
                            rest = Some(r);
                            pending = None;
                        },
                        Err(()) => {}, // the second piece was consumed into the still incomplete sequence
                    }
                }
                if let Some(r) = rest {
                    if pending.is_none() {
                        pending = r.decode_utf8_lossy(|t| {
                            invalid_piece |= std::str::from_utf8(t.as_bytes()).is_err();
                            out.push_str(&t);
                        });
                    }
                }
                if pending.is_some() {
                    out.push('\u{fffd}');
                }
                if invalid_piece {
                    return Err((format!("#{opno} decode_utf8_lossy {:?} cut {cut}", data), "a UTF-8 tendril handed out by decode_utf8_lossy/try_complete holds invalid UTF-8".into()));
                }
                if out != String::from_utf8_lossy(&data) {
                    return Err((format!("#{opno} decode_utf8_lossy {:?} cut {cut}", data), format!("pieces add up to {:?}, the lossy decode of the bytes is {:?}", out, String::from_utf8_lossy(&data))));
                }
                st.count("Bytes:op:decode_utf8_lossy/try_complete");
            },
            0 => {
                let add = { let __n = *rng.pick(&LENS[..10]); Bytes::gen(rng, __n) };
                b.write_all(&add).unwrap();
                bm.extend(&add);
                st.count("Bytes:op:io::Write");
            },
            1 => {
                let add = { let __n = *rng.pick(&LENS); Bytes::gen(rng, __n) };
                if rng.chance(1, 2) {
                    let mut rd: &[u8] = &add;
                    let n = rd.read_to_tendril(&mut b).unwrap();
                    if n != add.len() {
                        return Err((format!("#{opno} read_to_tendril"), format!("returned {n} for {} bytes", add.len())));
                    }
                    bm.extend(&add);
                } else {
                    // a reader with short reads, Interrupted errors and possibly a hard error: the
                    // tendril must end up with exactly the bytes delivered before the error
                    struct Scripted<'a> {
                        data: &'a [u8],
                        pos: usize,
                        step: usize,
                        fail_at: Option<usize>,
                        k: usize,
                    }
                    impl std::io::Read for Scripted<'_> {
                        fn read(&mut self, buf: &mut [u8]) -> std::io::Result<usize> {
                            self.k += 1;
                            if self.k % 3 == 0 {
                                return Err(std::io::Error::new(std::io::ErrorKind::Interrupted, "again"));
                            }
                            if let Some(f) = self.fail_at {
                                if self.pos >= f {
                                    return Err(std::io::Error::new(std::io::ErrorKind::Other, "broken"));
                                }
                            }
                            let mut n = self.step.min(buf.len()).min(self.data.len() - self.pos);
                            if let Some(f) = self.fail_at {
                                n = n.min(f - self.pos);
                            }
                            buf[..n].copy_from_slice(&self.data[self.pos..self.pos + n]);
                            self.pos += n;
                            Ok(n)
                        }
                    }
                    let fail_at = if rng.chance(1, 2) { Some(rng.below(add.len() + 1)) } else { None };
                    let mut rd = Scripted { data: &add, pos: 0, step: *rng.pick(&[1usize, 2, 7, 31, 32, 33, 1000]), fail_at, k: 0 };
                    let r = rd.read_to_tendril(&mut b);
                    let delivered = rd.pos;
                    bm.extend(&add[..delivered]);
                    match (r, fail_at) {
                        (Ok(n), None) if n == add.len() => {},
                        (Err(_), Some(_)) => st.count("Bytes:op:read_to_tendril:io-error"),
                        (r, f) => return Err((format!("#{opno} read_to_tendril"), format!("returned {r:?} (delivered {delivered} of {} bytes, failing at {f:?})", add.len()))),
                    }
                }
                st.count("Bytes:op:read_to_tendril");
            },
            2 => {
                keep.push((b.clone(), bm.clone()));
                if !bm.is_empty() {
                    let k = rng.below(bm.len());
                    let v = (rng.next_u64() & 0xff) as u8;
                    b[k] = v; // DerefMut: must copy on write
                    bm[k] = v;
                }
                st.count("Bytes:op:deref_mut");
            },
            3 => {
                let add = { let __n = rng.below(20); Bytes::gen(rng, __n) };
                b.extend(add.iter());
                bm.extend(&add);
                let c: Tendril<Bytes, A> = add.iter().collect();
                if &c[..] != &add[..] {
                    return Err((format!("#{opno} from_iter"), "content differs".into()));
                }
                st.count("Bytes:op:extend/from_iter");
            },
            4 => {
                let k = if rng.chance(1, 2) { rng.below(5) } else { rng.below(40) } as u32;
                let v = (rng.next_u64() & 0xff) as u8;
                b.extend_with_byte(k, v);
                bm.extend(std::iter::repeat(v).take(k as usize));
                st.count("Bytes:op:extend_with_byte");
            },
            5 => {
                let add = String::from_utf8({ let __n = *rng.pick(&LENS[..10]); UTF8::gen(rng, __n) }).unwrap();
                s.push_slice(&add);
                sm.push_str(&add);
                st.count("UTF8:op:push_slice");
            },
            6 => {
                skeep.push((s.clone(), sm.clone()));
                s.make_ascii_uppercase(); // DerefMut on str
                sm.make_ascii_uppercase();
                st.count("UTF8:op:deref_mut");
            },
            7 => {
                let c = *rng.pick(&UCHARS);
                s.push_char(c);
                sm.push(c);
                let f: Tendril<UTF8, A> = Tendril::format(format_args!("{}-{}", c, opno));
                if &*f != format!("{}-{}", c, opno) {
                    return Err((format!("#{opno} format"), "content differs".into()));
                }
                st.count("UTF8:op:push_char/format");
            },
            8 => {
                let add: Vec<char> = (0..rng.below(10)).map(|_| *rng.pick(&UCHARS)).collect();
                s.extend(add.iter().copied());
                sm.extend(add.iter());
                let c: Tendril<UTF8, A> = add.iter().copied().collect();
                if &*c != add.iter().collect::<String>() {
                    return Err((format!("#{opno} from_iter<char>"), "content differs".into()));
                }
                st.count("UTF8:op:extend/from_iter");
            },
            9 => {
                // superset / subset views
                let w: &Tendril<WTF8, A> = s.as_superset();
                if w.as_bytes()[..] != *sm.as_bytes() {
                    return Err((format!("#{opno} as_superset"), "content differs".into()));
                }
                let sub = s.try_as_subset::<ASCII>();
                if sub.is_ok() != sm.is_ascii() {
                    return Err((format!("#{opno} try_as_subset"), format!("got {:?}, model {}", sub.is_ok(), sm.is_ascii())));
                }
                let r = b.try_reinterpret_view::<UTF8>();
                if r.is_ok() != std::str::from_utf8(&bm).is_ok() {
                    return Err((format!("#{opno} try_reinterpret_view"), "validity differs".into()));
                }
                st.count("UTF8:op:superset/subset/reinterpret_view");
            },
            10 => {
                let st2: String = (&s).into();
                if st2 != sm {
                    return Err((format!("#{opno} into String"), "content differs".into()));
                }
                let t2: Tendril<UTF8, A> = Tendril::from(sm.clone());
                if &*t2 != &*sm {
                    return Err((format!("#{opno} from String"), "content differs".into()));
                }
                st.count("UTF8:op:String conversions");
                // the remaining trait surface: FromStr, From<Tendril> for String, PartialEq<str>, Ord, Hash,
                // Borrow<[u8]>, Extend by value / of slices / of tendrils, io::Write::write, superset/subset by value
                {
                    use std::borrow::Borrow;
                    use std::hash::{Hash, Hasher};
                    let t3: Tendril<UTF8, A> = sm.parse().unwrap();
                    let back: String = t3.clone().into();
                    if back != sm || !(t3 == *sm.as_str()) {
                        return Err((format!("#{opno} FromStr / into String / PartialEq<str>"), "content differs".into()));
                    }
                    let other: Tendril<UTF8, A> = Tendril::from_slice(skeep.first().map(|k| k.1.as_str()).unwrap_or("m"));
                    if t3.cmp(&other) != sm.as_str().cmp(&*other) || t3.partial_cmp(&other) != sm.as_str().partial_cmp(&*other) {
                        return Err((format!("#{opno} Ord"), "ordering differs from str ordering".into()));
                    }
                    let h = |x: &dyn Fn(&mut std::collections::hash_map::DefaultHasher)| {
                        let mut hs = std::collections::hash_map::DefaultHasher::new();
                        x(&mut hs);
                        hs.finish()
                    };
                    if h(&|hs| b.hash(hs)) != h(&|hs| bm[..].hash(hs)) {
                        return Err((format!("#{opno} Hash"), "a byte tendril hashes differently from its bytes (it implements Borrow<[u8]>)".into()));
                    }
                    let bb: &[u8] = b.borrow();
                    if bb != &bm[..] {
                        return Err((format!("#{opno} Borrow<[u8]>"), "content differs".into()));
                    }
                    let mut e: Tendril<Bytes, A> = Tendril::new();
                    e.extend(bm.iter().copied().take(20));
                    let parts: Vec<&[u8]> = bm.chunks(3).take(5).collect();
                    e.extend(parts.iter().copied());
                    let mut em: Vec<u8> = bm.iter().copied().take(20).collect();
                    for p in &parts {
                        em.extend_from_slice(p);
                    }
                    let _ = std::io::Write::write(&mut e, b"wr").unwrap();
                    std::io::Write::flush(&mut e).unwrap();
                    em.extend_from_slice(b"wr");
                    let tends: Vec<Tendril<Bytes, A>> = keep.iter().map(|k| k.0.clone()).collect();
                    e.extend(tends.iter());
                    for k in &keep {
                        em.extend_from_slice(&k.1);
                    }
                    if &e[..] != &em[..] {
                        return Err((format!("#{opno} Extend<u8> / Extend<&[u8]> / io::Write::write / Extend<&Tendril>"), "content differs".into()));
                    }
                    let mut es: Tendril<UTF8, A> = Tendril::new();
                    es.extend(["a", sm.as_str(), "é"].iter().copied());
                    if &*es != format!("a{sm}é") {
                        return Err((format!("#{opno} Extend<&str>"), "content differs".into()));
                    }
                    let sup: Tendril<WTF8, A> = s.clone().into_superset();
                    if sup.as_bytes()[..] != *sm.as_bytes() {
                        return Err((format!("#{opno} into_superset"), "content differs".into()));
                    }
                    match sup.try_into_subset::<UTF8>() {
                        Ok(u) if &*u == &*sm => {},
                        _ => return Err((format!("#{opno} try_into_subset"), "a WTF-8 tendril made from a UTF-8 one did not convert back".into())),
                    }
                    match s.clone().try_into_subset::<ASCII>() {
                        Ok(a) if sm.is_ascii() && a.as_bytes()[..] == *sm.as_bytes() => {},
                        Err(orig) if !sm.is_ascii() && &*orig == &*sm => {},
                        _ => return Err((format!("#{opno} try_into_subset::<ASCII>"), "outcome differs from is_ascii()".into())),
                    }
                    // WTF-8 -> UTF-8 subset conversions: Ok exactly when the bytes are valid UTF-8 (a lone
                    // surrogate anywhere makes it Err, whatever other 0xED-led characters come before it)
                    {
                        let parts: [&[u8]; 8] = ["\u{d55c}".as_bytes(), b"a", &[0xED, 0xA0, 0x80], &[0xED, 0xB0, 0x80], "é".as_bytes(), "\u{d7ff}".as_bytes(), "\u{d000}".as_bytes(), "\u{10000}".as_bytes()];
                        let mut wb: Vec<u8> = vec![];
                        for _ in 0..rng.range(1, 6) {
                            let part = *rng.pick(&parts);
                            // keep it well-formed WTF-8: never a lead surrogate directly followed by a trail surrogate
                            if part == [0xED, 0xB0, 0x80] && wb.ends_with(&[0xED, 0xA0, 0x80]) {
                                continue;
                            }
                            wb.extend_from_slice(part);
                        }
                        if let Ok(w) = Tendril::<WTF8, A>::try_from_byte_slice(&wb) {
                            let valid = std::str::from_utf8(&wb).is_ok();
                            let by_ref = w.try_as_subset::<UTF8>().is_ok();
                            let by_val = w.clone().try_into_subset::<UTF8>().is_ok();
                            let view = w.try_reinterpret_view::<UTF8>().is_ok();
                            if by_ref != valid || by_val != valid || view != valid {
                                return Err((format!("#{opno} WTF8 -> UTF8 of {wb:02x?}"), format!("try_as_subset={by_ref} try_into_subset={by_val} try_reinterpret_view={view}, the bytes are {} UTF-8", if valid { "valid" } else { "not valid" })));
                            }
                            st.count(if valid { "WTF8:subset-conversion:valid" } else { "WTF8:subset-conversion:has-surrogate" });
                        }
                    }
                    let snd: tendril::SendTendril<UTF8> = s.clone().into();
                    let rt: Tendril<UTF8, A> = snd.into();
                    if &*rt != &*sm {
                        return Err((format!("#{opno} From<Tendril> for SendTendril"), "content differs".into()));
                    }
                    st.count("op:trait-surface");
                }
            },
            _ => {
                // reach "heap-backed but short" states (an owned or shared buffer holding at most 8
                // bytes): reserve on a short tendril, clear of an owned one, with_capacity, a
                // SendTendril round trip. Growth from there must keep the content.
                match rng.below(8) {
                    0 => {
                        b.reserve(rng.range(1, 40) as u32);
                        st.count("Bytes:op:reserve");
                    },
                    1 => {
                        b.clear();
                        bm.clear();
                        st.count("Bytes:op:clear");
                    },
                    2 => {
                        let old = std::mem::replace(&mut b, Tendril::new());
                        b = old.into_send().into();
                        st.count("Bytes:op:send-round-trip");
                    },
                    3 => {
                        b = Tendril::with_capacity(rng.range(0, 40) as u32);
                        bm.clear();
                        st.count("Bytes:op:with_capacity");
                    },
                    4 => {
                        s.reserve(rng.range(1, 40) as u32);
                        if rng.chance(1, 2) {
                            let old = std::mem::replace(&mut s, Tendril::new());
                            s = old.into_send().into();
                        }
                        st.count("UTF8:op:reserve/send-round-trip");
                    },
                    _ => {},
                }
                if &b[..] != &bm[..] {
                    return Err((format!("#{opno}"), "content changed by reserve / clear / with_capacity / SendTendril round trip".into()));
                }
                if bm.len() <= 8 && repr_of(&b) != "inline" {
                    st.count("Bytes:heap-backed-with-at-most-8-bytes");
                }
                if bm.len() > 12 && rng.chance(1, 3) {
                    let keep = rng.below(8);
                    b.pop_back((bm.len() - keep) as u32);
                    bm.truncate(keep);
                }
                if bm.len() > 200 {
                    b.clear();
                    bm.clear();
                }
                if sm.len() > 200 {
                    s.clear();
                    sm.clear();
                }
            },
        }
        if &b[..] != &bm[..] || &*s != &*sm {
            return Err((format!("#{opno}"), "tendril differs from model".into()));
        }
        for (o, om) in &keep {
            if &o[..] != &om[..] {
                return Err((format!("#{opno}"), "an earlier Bytes clone changed".into()));
            }
        }
        for (o, om) in &skeep {
            if &**o != &**om {
                return Err((format!("#{opno}"), "an earlier UTF8 clone changed".into()));
            }
        }
        if keep.len() > 5 {
            keep.remove(0);
        }
        if skeep.len() > 5 {
            skeep.remove(0);
        }
    }
    Ok(nops)
}
