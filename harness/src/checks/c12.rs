//! C12 — tendril buffers are freed exactly once and never accessed out of bounds.
//!
//! Native leg: the checking allocator (valloc.rs) audits every allocation made inside tendril calls
//! (layout match, double/foreign free, red zones, poison after free, conservation live == expected).
//! The same workloads run under Miri / ASan / TSan through ./check's sanitizer legs
//! (`--tier sanitizer`).

use super::common::*;
use super::tendril_ops::{bytes_of, repr_of, Fm};
use crate::prng::{mix, Rng};
use crate::report::{catch, nthreads, par_run, Meta, Stats};
use crate::valloc::{self, attributed};
use crate::{Args, Tier};
use serde_json::json;
use tendril::fmt::{Bytes, UTF8, WTF8};
use tendril::{Atomic, Atomicity, NonAtomic, SendTendril, Tendril};

const LENS: [usize; 14] = [0, 1, 7, 8, 9, 15, 16, 17, 31, 32, 33, 64, 200, 1000];

/// number of heap buffers the live tendrils own: owned ones + classes of shared ones
fn expected_blocks<F: Fm, A: Atomicity>(pool: &[(Tendril<F, A>, Vec<u8>)]) -> usize {
    let mut n = 0;
    let mut reps: Vec<usize> = vec![];
    for (i, (t, _)) in pool.iter().enumerate() {
        match repr_of(t) {
            "owned" => n += 1,
            "shared" => {
                if !reps.iter().any(|&r| pool[r].0.is_shared_with(t)) {
                    reps.push(i);
                }
            },
            _ => {},
        }
    }
    n + reps.len()
}

/// History in which only tendril calls run with attribution on; returns ops executed.
pub(crate) fn audited_history<F: Fm, A: Atomicity>(rng: &mut Rng, nops: usize, st: &mut Stats, audit: bool) -> Result<usize, String> {
    let mut pool: Vec<(Tendril<F, A>, Vec<u8>)> = Vec::with_capacity(16);
    let base = valloc::snapshot();
    for opno in 0..nops {
        let n = pool.len();
        let i = if n > 0 { rng.below(n) } else { 0 };
        match if n == 0 { 0 } else { rng.below(18) } {
            0 | 1 => {
                let c = { let __n = *rng.pick(&LENS); F::gen(rng, __n) };
                let t = attributed(|| Tendril::<F, A>::try_from_byte_slice(&c)).map_err(|_| "construct failed".to_string())?;
                pool.push((t, c));
            },
            16 | 17 => {
                // two views of ONE buffer pushed onto each other: truly adjacent (the zero-copy merge),
                // "adjacent" only if the first view's own offset is forgotten, overlapping, or apart
                let len = pool[i].1.len();
                if len > 20 {
                    let o = rng.range(1, len / 3);
                    let l = rng.range(9, (len - o).min(9 + len / 2));
                    let x = match rng.below(6) {
                        0 => o + l,
                        1 => l,
                        2 => o,
                        3 => 2 * o + l, // "adjacent" if the view's own offset is counted twice
                        4 => (o + l).saturating_sub(1),
                        _ => rng.below(len),
                    }
                    .min(len);
                    let m = rng.range(0, len - x);
                    let pm = &pool[i].1;
                    if o + l <= len && F::valid(&pm[o..o + l]) && F::valid(&pm[x..x + m]) && F::valid(&pm[..o]) && F::valid(&pm[..x]) {
                        let mut model = pm[o..o + l].to_vec();
                        let second = pm[x..x + m].to_vec();
                        let mut a = attributed(|| pool[i].0.try_subtendril(o as u32, l as u32)).map_err(|e| format!("subtendril: {e:?}"))?;
                        let b = attributed(|| pool[i].0.try_subtendril(x as u32, m as u32)).map_err(|e| format!("subtendril: {e:?}"))?;
                        attributed(|| a.push_tendril(&b));
                        attributed(|| drop(b));
                        F::append(&mut model, &second);
                        st.count(if x == o + l { "sibling_view_pushes:adjacent" } else { "sibling_view_pushes:not-adjacent" });
                        pool.push((a, model));
                    }
                }
            },
            2 => {
                let cap = *rng.pick(&LENS) as u32;
                let t = attributed(|| Tendril::<F, A>::with_capacity(cap));
                pool.push((t, vec![]));
            },
            3 | 4 => {
                let add = { let __n = *rng.pick(&LENS[..11]); F::gen(rng, __n) };
                let (t, m) = &mut pool[i];
                attributed(|| t.try_push_bytes(&add)).map_err(|_| "push failed".to_string())?;
                F::append(m, &add);
            },
            5 => {
                let j = rng.below(n);
                let other = attributed(|| pool[j].0.clone());
                let ob = pool[j].1.clone();
                let (t, m) = &mut pool[i];
                attributed(|| t.push_tendril(&other));
                attributed(|| drop(other));
                F::append(m, &ob);
            },
            6 | 7 => {
                let len = pool[i].1.len();
                let off = rng.below(len + 1);
                let l = rng.below(len - off + 1);
                if F::valid(&pool[i].1[off..off + l]) && F::valid(&pool[i].1[..off]) {
                    let t = attributed(|| pool[i].0.try_subtendril(off as u32, l as u32)).map_err(|e| format!("subtendril: {e:?}"))?;
                    let m = pool[i].1[off..off + l].to_vec();
                    pool.push((t, m));
                }
            },
            8 | 9 => {
                let c = attributed(|| pool[i].0.clone());
                let m = pool[i].1.clone();
                pool.push((c, m));
            },
            10 => {
                let len = pool[i].1.len();
                let k = rng.below(len + 1);
                if F::valid(&pool[i].1[k..]) && F::valid(&pool[i].1[..k]) {
                    let (t, m) = &mut pool[i];
                    if rng.chance(1, 2) {
                        attributed(|| t.try_pop_front(k as u32)).map_err(|e| format!("pop_front: {e:?}"))?;
                        m.drain(..k);
                    } else {
                        attributed(|| t.try_pop_back((len - k) as u32)).map_err(|e| format!("pop_back: {e:?}"))?;
                        m.truncate(k);
                    }
                }
            },
            11 => {
                let (t, m) = &mut pool[i];
                attributed(|| t.clear());
                m.clear();
            },
            12 => {
                let k = *rng.pick(&LENS) as u32;
                let t = &mut pool[i].0;
                attributed(|| t.reserve(k));
            },
            13 => {
                let (t, m) = pool.swap_remove(i);
                let back: Tendril<F, A> = attributed(|| {
                    let s: SendTendril<F> = t.into_send();
                    s.into()
                });
                pool.push((back, m));
            },
            _ => {
                let (t, _) = pool.swap_remove(i);
                attributed(|| drop(t));
            },
        }
        st.count("audited_ops");
        for (t, m) in &pool {
            if bytes_of(t) != &m[..] {
                return Err(format!("op #{opno}: content differs from model"));
            }
        }
        if audit {
            if let Some(v) = valloc::take_violation() {
                return Err(format!("op #{opno}: allocator monitor: {v}"));
            }
            // conservation at a quiescent point
            let snap = valloc::snapshot();
            let live = snap.live - base.live;
            let want = expected_blocks(&pool);
            st.count("conservation_checks");
            if live != want {
                return Err(format!("op #{opno}: {live} tendril heap buffers are live, the pool accounts for {want} (owned + distinct shared buffers)"));
            }
            st.max("peak_live_blocks", snap.peak_live as u64);
        }
        if pool.len() > 12 {
            let k = rng.below(pool.len());
            let (t, _) = pool.swap_remove(k);
            attributed(|| drop(t));
        }
    }
    // all tendrils gone -> no tendril memory remains
    for (t, _) in pool.drain(..) {
        attributed(|| drop(t));
    }
    if audit {
        if let Some(v) = valloc::take_violation() {
            return Err(format!("at teardown: allocator monitor: {v}"));
        }
        let snap = valloc::snapshot();
        if snap.live != base.live {
            return Err(format!("{} tendril heap buffers still allocated after every tendril was dropped", snap.live - base.live));
        }
        st.add("allocations_audited", snap.allocs - base.allocs);
        st.add("frees_audited", snap.frees - base.frees);
        match valloc::reset() {
            Ok(n) => st.add("blocks_verified_at_reset(poison+redzones)", n as u64),
            Err(e) => return Err(format!("at arena reset: {e}")),
        }
    }
    Ok(nops)
}

/// Byte-tendril-only operations under the allocator audit: extend_with_byte / push_uninitialized
/// (through the safe wrapper), io::Write, read_to_tendril, DerefMut writes, interleaved with
/// with_capacity / reserve / clear / pops so that "owned but short" states are reached.
fn audited_bytes_history<A: Atomicity>(rng: &mut Rng, nops: usize, st: &mut Stats, audit: bool) -> Result<usize, String> {
    use std::io::Write;
    use tendril::ReadExt;
    let mut pool: Vec<(Tendril<Bytes, A>, Vec<u8>)> = Vec::with_capacity(16);
    let base = valloc::snapshot();
    for opno in 0..nops {
        let n = pool.len();
        let i = if n > 0 { rng.below(n) } else { 0 };
        match if n == 0 { 0 } else { rng.below(14) } {
            0 => {
                let cap = *rng.pick(&LENS) as u32;
                pool.push((attributed(|| Tendril::<Bytes, A>::with_capacity(cap)), vec![]));
            },
            1 => {
                let c = { let __n = *rng.pick(&LENS); Bytes::gen(rng, __n) };
                pool.push((attributed(|| Tendril::<Bytes, A>::from_slice(&c)), c));
            },
            2 | 3 | 4 => {
                let k = *rng.pick(&[0u32, 1, 2, 3, 5, 7, 8, 9, 16, 40, 300]);
                let v = (rng.next_u64() & 0xff) as u8;
                let (t, m) = &mut pool[i];
                attributed(|| t.extend_with_byte(k, v));
                m.extend(std::iter::repeat(v).take(k as usize));
                st.count("bytes:extend_with_byte");
            },
            5 => {
                let add = { let __n = *rng.pick(&LENS[..10]); Bytes::gen(rng, __n) };
                let (t, m) = &mut pool[i];
                attributed(|| t.write_all(&add)).map_err(|e| e.to_string())?;
                m.extend(&add);
            },
            6 => {
                let add = { let __n = *rng.pick(&LENS); Bytes::gen(rng, __n) };
                let (t, m) = &mut pool[i];
                let mut rd: &[u8] = &add;
                attributed(|| rd.read_to_tendril(t)).map_err(|e| e.to_string())?;
                m.extend(&add);
                st.count("bytes:read_to_tendril");
            },
            7 => {
                let (t, m) = &mut pool[i];
                attributed(|| t.clear());
                m.clear();
            },
            8 => {
                let k = *rng.pick(&LENS) as u32;
                let t = &mut pool[i].0;
                attributed(|| t.reserve(k));
            },
            9 => {
                let len = pool[i].1.len();
                let k = rng.below(len + 1);
                let (t, m) = &mut pool[i];
                attributed(|| t.pop_back((len - k) as u32));
                m.truncate(k);
            },
            10 => {
                let len = pool[i].1.len();
                if len > 0 {
                    let k = rng.below(len);
                    let v = (rng.next_u64() & 0xff) as u8;
                    let (t, m) = &mut pool[i];
                    attributed(|| t[k] = v);
                    m[k] = v;
                }
            },
            11 => {
                let c = attributed(|| pool[i].0.clone());
                let m = pool[i].1.clone();
                pool.push((c, m));
            },
            _ => {
                let (t, _) = pool.swap_remove(i);
                attributed(|| drop(t));
            },
        }
        st.count("audited_ops");
        for (t, m) in &pool {
            if &t[..] != &m[..] {
                return Err(format!("op #{opno}: content differs from model"));
            }
        }
        if audit {
            if let Some(v) = valloc::take_violation() {
                return Err(format!("op #{opno}: allocator monitor: {v}"));
            }
            let snap = valloc::snapshot();
            let live = snap.live - base.live;
            let want = expected_blocks(&pool);
            st.count("conservation_checks");
            if live != want {
                return Err(format!("op #{opno}: {live} tendril heap buffers are live, the pool accounts for {want} (owned + distinct shared buffers)"));
            }
        }
        if pool.len() > 10 {
            let k = rng.below(pool.len());
            let (t, _) = pool.swap_remove(k);
            attributed(|| drop(t));
        }
    }
    for (t, _) in pool.drain(..) {
        attributed(|| drop(t));
    }
    if audit {
        if let Some(v) = valloc::take_violation() {
            return Err(format!("at teardown: allocator monitor: {v}"));
        }
        let snap = valloc::snapshot();
        if snap.live != base.live {
            return Err(format!("{} tendril heap buffers still allocated after every tendril was dropped", snap.live - base.live));
        }
        st.add("allocations_audited", snap.allocs - base.allocs);
        st.add("frees_audited", snap.frees - base.frees);
        match valloc::reset() {
            Ok(n) => st.add("blocks_verified_at_reset(poison+redzones)", n as u64),
            Err(e) => return Err(format!("at arena reset: {e}")),
        }
    }
    Ok(nops)
}

/// Clones / sub-slices of one atomic tendril distributed over threads, which read, slice, mutate
/// (forcing copy-on-write), round-trip through SendTendril and drop in randomised orders.
fn thread_scenario(seed: u64, nthreads: usize, st: &mut Stats, audit: bool) -> Result<(), String> {
    let mut rng = Rng::new(seed);
    let base = valloc::snapshot();
    let len = *rng.pick(&[9usize, 16, 40, 200, 1000]);
    let content = UTF8::gen(&mut rng, len);
    let root: Tendril<UTF8, Atomic> = attributed(|| Tendril::try_from_byte_slice(&content)).unwrap();
    let mut parts: Vec<Vec<(Tendril<UTF8, Atomic>, Vec<u8>)>> = (0..nthreads).map(|_| vec![]).collect();
    let nclones = rng.range(nthreads, nthreads * 4);
    for k in 0..nclones {
        let t = if rng.chance(1, 2) {
            (attributed(|| root.clone()), content.clone())
        } else {
            let off = rng.below(content.len() + 1);
            let l = rng.below(content.len() - off + 1);
            if std::str::from_utf8(&content[off..off + l]).is_ok() && std::str::from_utf8(&content[..off]).is_ok() {
                (attributed(|| root.subtendril(off as u32, l as u32)), content[off..off + l].to_vec())
            } else {
                (attributed(|| root.clone()), content.clone())
            }
        };
        parts[k % nthreads].push(t);
    }
    // the allocating thread drops its handle first in half of the runs: last drop happens elsewhere
    let keep_root = rng.chance(1, 2);
    let root_opt = if keep_root { Some(root) } else { attributed(|| drop(root)); None };
    let seeds: Vec<u64> = (0..nthreads).map(|_| rng.next_u64()).collect();
    let errors: std::sync::Mutex<Vec<String>> = std::sync::Mutex::new(vec![]);
    let sends: std::sync::Mutex<Vec<(SendTendril<UTF8>, Vec<u8>)>> = std::sync::Mutex::new(vec![]);
    std::thread::scope(|sc| {
        for (ti, mine) in parts.into_iter().enumerate() {
            let s = seeds[ti];
            let errors = &errors;
            let sends = &sends;
            sc.spawn(move || {
                let mut rng = Rng::new(s);
                let mut mine = mine;
                for _step in 0..(mine.len() * 4 + 4) {
                    if mine.is_empty() {
                        break;
                    }
                    let i = rng.below(mine.len());
                    if rng.chance(1, 3) {
                        std::thread::yield_now();
                    }
                    match rng.below(7) {
                        0 => {
                            if bytes_of(&mine[i].0) != &mine[i].1[..] {
                                errors.lock().unwrap().push("content differs from model on a reader thread".into());
                            }
                        },
                        1 => {
                            let c = attributed(|| mine[i].0.clone());
                            let m = mine[i].1.clone();
                            mine.push((c, m));
                        },
                        2 => {
                            // mutate: must copy, never write the shared buffer
                            let (t, m) = &mut mine[i];
                            attributed(|| t.push_char('x'));
                            m.push(b'x');
                        },
                        3 => {
                            let (t, m) = mine.swap_remove(i);
                            // hand over to whichever thread picks it up
                            let s: SendTendril<UTF8> = attributed(|| t.into_send());
                            sends.lock().unwrap().push((s, m));
                        },
                        4 => {
                            let taken = sends.lock().unwrap().pop();
                            if let Some((s, m)) = taken {
                                let t: Tendril<UTF8, Atomic> = attributed(|| s.into());
                                mine.push((t, m));
                            }
                        },
                        5 => {
                            let (t, m) = &mut mine[i];
                            if m.len() > 1 && std::str::from_utf8(&m[1..]).is_ok() {
                                attributed(|| t.pop_front(1));
                                m.remove(0);
                            }
                        },
                        _ => {
                            let (t, _) = mine.swap_remove(i);
                            attributed(|| drop(t));
                        },
                    }
                }
                for (t, m) in mine.drain(..) {
                    if bytes_of(&t) != &m[..] {
                        errors.lock().unwrap().push("content differs from model at thread exit".into());
                    }
                    attributed(|| drop(t));
                }
            });
        }
    });
    if let Some(r) = root_opt {
        if bytes_of(&r) != &content[..] {
            return Err("the original tendril changed while clones were mutated on other threads".into());
        }
        attributed(|| drop(r));
    }
    for (s, m) in sends.into_inner().unwrap() {
        let t: Tendril<UTF8, NonAtomic> = attributed(|| s.into());
        if bytes_of(&t) != &m[..] {
            return Err("SendTendril content differs from model".into());
        }
        attributed(|| drop(t));
    }
    if let Some(e) = errors.into_inner().unwrap().first() {
        return Err(e.clone());
    }
    st.count("thread_scenarios");
    st.observe("thread_counts", &nthreads.to_string());
    if audit {
        if let Some(v) = valloc::take_violation() {
            return Err(format!("allocator monitor: {v}"));
        }
        let snap = valloc::snapshot();
        if snap.live != base.live {
            return Err(format!("{} tendril heap buffers still allocated after all threads joined and every tendril was dropped", snap.live - base.live));
        }
        st.add("allocations_audited", snap.allocs - base.allocs);
        match valloc::reset() {
            Ok(n) => st.add("blocks_verified_at_reset(poison+redzones)", n as u64),
            Err(e) => return Err(format!("at arena reset: {e}")),
        }
    }
    Ok(())
}

/// BufferQueue + tokenizer-style unsafe slicing driven through the parser (sanitizer legs only:
/// Miri/ASan observe these; the allocator monitor is not attributed here).
fn parser_driven(rng: &mut Rng, st: &mut Stats) {
    let input = crate::gen::tok_soup(rng, 6);
    let n = input.chars().count();
    let cuts = crate::gen::random_cuts(rng, n);
    let chunks = crate::drive::split_at_chars(&input, &cuts);
    let _ = catch(|| crate::drive::run_html_parse(&chunks, &Default::default(), crate::drive::Gc::Off, false, &mut crate::drive::no_script));
    let x = crate::gen::xml_doc(rng, 6);
    let _ = catch(|| crate::xdrive::parse_xml_simple(&x, &Default::default()));
    st.count("parser_driven_histories");
}

/// A lead surrogate at the end of a heap tendril joined with a trail surrogate at the start of the pushed bytes turns
/// 3 + 3 bytes into 4: the length arithmetic of that fix-up right next to the capacity. Every receiver length 9..=140 x
/// tail length 0..=4 x three ways of building the receiver, so every relation between the resulting length and the
/// buffer's capacity occurs whatever the growth policy is; then 40 more bytes to force a reallocation, content compared
/// after each step, allocator monitor consulted after each case.
fn wtf8_join_sweep<A: Atomicity>(st: &mut Stats, audit: bool, small: bool) -> Result<usize, String> {
    let base = valloc::snapshot();
    let mut cases = 0usize;
    // under an interpreter (sanitizer tier) only the lengths around the first two capacities, one construction
    let (max_len, max_tail, ways) = if small { (36usize, 2usize, 1) } else { (140, 4, 3) };
    for lhs_len in 9..=max_len {
        for tail in 0..=max_tail {
            for how in 0..ways {
                let mut l = vec![b'a'; lhs_len - 3];
                l.extend(super::tendril_ops::enc_cp(0xD83D));
                let mut r = super::tendril_ops::enc_cp(0xDE00);
                r.extend(std::iter::repeat(b'b').take(tail));
                let mut t: Tendril<WTF8, A> = match how {
                    0 => attributed(|| Tendril::try_from_byte_slice(&l)).map_err(|_| "construct failed".to_string())?,
                    1 => {
                        let mut t = attributed(|| Tendril::<WTF8, A>::with_capacity(lhs_len as u32));
                        attributed(|| t.try_push_bytes(&l)).map_err(|_| "push failed".to_string())?;
                        t
                    },
                    _ => {
                        let t: Tendril<WTF8, A> = attributed(|| Tendril::try_from_byte_slice(&l)).map_err(|_| "construct failed".to_string())?;
                        let c = attributed(|| t.clone());
                        attributed(|| drop(c));
                        t
                    },
                };
                let mut model = l.clone();
                attributed(|| t.try_push_bytes(&r)).map_err(|_| "push failed".to_string())?;
                <WTF8 as Fm>::append(&mut model, &r);
                if bytes_of(&t) != &model[..] {
                    return Err(format!("wtf8 join sweep (receiver {lhs_len} bytes ending in a lead surrogate, built by way {how}, pushed trail surrogate + {tail} bytes): content differs from model after the push"));
                }
                let more = [b'c'; 40];
                attributed(|| t.try_push_bytes(&more)).map_err(|_| "push failed".to_string())?;
                model.extend_from_slice(&more);
                if bytes_of(&t) != &model[..] {
                    return Err(format!("wtf8 join sweep (receiver {lhs_len} bytes ending in a lead surrogate, built by way {how}, pushed trail surrogate + {tail} bytes): content changed across the following reallocation"));
                }
                attributed(|| drop(t));
                if audit {
                    if let Some(v) = valloc::take_violation() {
                        return Err(format!("wtf8 join sweep (receiver {lhs_len} bytes, way {how}, tail {tail}): allocator monitor: {v}"));
                    }
                }
                cases += 1;
            }
        }
    }
    if audit {
        let snap = valloc::snapshot();
        if snap.live != base.live {
            return Err(format!("wtf8 join sweep: {} tendril heap buffers still allocated after every tendril was dropped", snap.live - base.live));
        }
        if let Err(e) = valloc::reset() {
            return Err(format!("wtf8 join sweep: at arena reset: {e}"));
        }
    }
    st.add("wtf8_surrogate_join_cases_next_to_capacity", cases as u64);
    Ok(cases)
}

fn one_history(family: usize, hseed: u64, nops: usize, st: &mut Stats, audit: bool) -> Result<usize, String> {
    if family == 8 {
        let small = nops <= 60;
        return match catch(|| if hseed % 2 == 0 { wtf8_join_sweep::<NonAtomic>(st, audit, small) } else { wtf8_join_sweep::<Atomic>(st, audit, small) }) {
            Ok(r) => r,
            Err(m) => Err(format!("panic: {m}")),
        };
    }
    let mut rng = Rng::new(hseed);
    match catch(|| match family % 8 {
        6 => audited_bytes_history::<NonAtomic>(&mut rng, nops, st, audit),
        7 => audited_bytes_history::<Atomic>(&mut rng, nops, st, audit),
        0 => audited_history::<UTF8, NonAtomic>(&mut rng, nops, st, audit),
        1 => audited_history::<Bytes, NonAtomic>(&mut rng, nops, st, audit),
        2 => audited_history::<WTF8, NonAtomic>(&mut rng, nops, st, audit),
        3 => audited_history::<UTF8, Atomic>(&mut rng, nops, st, audit),
        4 => audited_history::<Bytes, Atomic>(&mut rng, nops, st, audit),
        _ => audited_history::<WTF8, Atomic>(&mut rng, nops, st, audit),
    }) {
        Ok(r) => r,
        Err(m) => Err(format!("panic: {m}")),
    }
}

/// Which tendril types may cross threads is part of "however clones ... are distributed over threads".
fn check_markers(st: &mut Stats) {
    // which tendril types may cross threads is part of "however clones ... are distributed over threads":
    // only atomic tendrils and SendTendrils are Send; nothing is Sync. (Autoref-specialisation probe:
    // resolves to the Send/Sync-bounded impl when the bound holds, to the fallback otherwise.)
    {
        use std::marker::PhantomData;
        struct Probe<T>(PhantomData<T>);
        trait Fallback {
            fn is_send(&self) -> bool {
                false
            }
            fn is_sync(&self) -> bool {
                false
            }
        }
        impl<T> Fallback for &Probe<T> {}
        trait WhenSend {
            fn is_send(&self) -> bool {
                true
            }
        }
        impl<T: Send> WhenSend for Probe<T> {}
        trait WhenSync {
            fn is_sync(&self) -> bool {
                true
            }
        }
        impl<T: Sync> WhenSync for Probe<T> {}
        macro_rules! send { ($t:ty) => { (&Probe::<$t>(PhantomData)).is_send() }; }
        macro_rules! sync { ($t:ty) => { (&Probe::<$t>(PhantomData)).is_sync() }; }
        let table: Vec<(&str, bool, bool)> = vec![
            ("Tendril<UTF8, NonAtomic> is Send", send!(Tendril<UTF8, NonAtomic>), false),
            ("Tendril<Bytes, NonAtomic> is Send", send!(Tendril<Bytes, NonAtomic>), false),
            ("Tendril<UTF8, Atomic> is Send", send!(Tendril<UTF8, Atomic>), true),
            ("Tendril<Bytes, Atomic> is Send", send!(Tendril<Bytes, Atomic>), true),
            ("SendTendril<UTF8> is Send", send!(SendTendril<UTF8>), true),
            ("Tendril<UTF8, NonAtomic> is Sync", sync!(Tendril<UTF8, NonAtomic>), false),
            ("Tendril<UTF8, Atomic> is Sync", sync!(Tendril<UTF8, Atomic>), false),
            // the probe itself: a type that is certainly Send + Sync and one that is certainly neither
            ("u8 is Send (probe self-test)", send!(u8), true),
            ("Rc<u8> is Send (probe self-test)", send!(std::rc::Rc<u8>), false),
            ("u8 is Sync (probe self-test)", sync!(u8), true),
            ("Cell<u8> is Sync (probe self-test)", sync!(std::cell::Cell<u8>), false),
        ];
        for (what, got, want) in table {
            st.count("thread_safety_markers_checked");
            if got != want {
                if what.contains("self-test") {
                    st.inconclusive(&format!("the Send/Sync probe does not work here: {what} = {got}"));
                } else {
                    st.violation("markers", &format!("{what}: {got}, the design says {want} (a tendril whose reference count is not atomic must not cross threads; no tendril may be shared by reference)"), json!({"kind": "markers"}));
                }
            }
        }
    }
}

pub fn run(args: &Args) -> (Meta, Stats) {
    let seed = args.seed;
    let sanit = args.tier == Tier::Sanitizer;
    let audit = valloc::enabled();
    if let Some(p) = &args.replay {
        let mut st = Stats::new();
        let v: serde_json::Value = serde_json::from_str(&std::fs::read_to_string(p).unwrap_or_default()).unwrap_or_default();
        let hseed = v["history_seed"].as_str().and_then(|s| s.parse().ok()).unwrap_or(0);
        st.case(Some(1));
        st.distinct.insert(2);
        if v["kind"] == "markers" {
            check_markers(&mut st);
            return (super::meta(args, "replay of the Send/Sync marker probe", &[]), st);
        }
        if v["kind"] == "huge" {
            super::huge::run_child(&mut st);
            return (super::meta(args, "replay of the 2 GiB-scale length scenarios", &[]), st);
        }
        let r = if v["kind"] == "threads" {
            thread_scenario(hseed, v["threads"].as_u64().unwrap_or(4) as usize, &mut st, audit)
        } else {
            one_history(v["family"].as_u64().unwrap_or(0) as usize, hseed, v["nops"].as_u64().unwrap_or(100) as usize, &mut st, audit).map(|_| ())
        };
        if let Err(e) = r {
            st.violation("replay", &e, v.clone());
        }
        return (super::meta(args, "replay of one recorded history", &[]), st);
    }
    let deadline = args.deadline();
    let san_n = args.san_n(24);
    // the allocator audit uses one arena and needs global quiescence, so the audited part is single-threaded
    let mut st = Stats::new();
    let mut k = 0u64;
    let audited_deadline = args.phase_deadline(0.5);
    loop {
        if sanit {
            if k >= san_n {
                break;
            }
        } else if expired(audited_deadline) {
            break;
        }
        let hseed = mix(seed ^ 0xC12, k);
        // the first two histories of a run are the surrogate-join sweep (non-atomic, atomic); in sanitizer processes only
        // one process in four runs it (it is 4000 small cases)
        let family = if k < 2 && (!sanit || seed % 4 == 0) { 8 } else { (k % 8) as usize };
        let hseed = if family == 8 { k } else { hseed };
        let nops = if sanit { 60 } else if family == 8 { 1000 } else { 50 + (hseed % 300) as usize };
        k += 1;
        st.case(Some(hseed));
        match one_history(family, hseed, nops, &mut st, audit) {
            Ok(n) => st.add("operations", n as u64),
            Err(e) => {
                let sig = classify(&e);
                st.violation(&sig, &format!("history family={family} seed={hseed} nops={nops}: {e}"), json!({"kind": "history", "family": family, "history_seed": hseed.to_string(), "nops": nops}));
                // the arena may hold live blocks from the aborted history: start from a clean baseline
                let _ = valloc::take_violation();
            },
        }
        if st.samples.is_empty() {
            st.sample(json!({"kind": "history", "family": family, "history_seed": hseed.to_string(), "nops": nops}));
        }
    }
    // thread distribution
    let mut t = 0u64;
    loop {
        if sanit {
            if t >= (san_n / 4).max(2) {
                break;
            }
        } else if expired(deadline) {
            break;
        }
        let hseed = mix(seed ^ 0x7C12, t);
        let nth = 2 + (t % 7) as usize;
        t += 1;
        st.case(Some(hseed));
        if let Err(e) = catch(|| thread_scenario(hseed, nth, &mut st, audit)).unwrap_or_else(|m| Err(format!("panic: {m}"))) {
            st.violation(&format!("threads:{}", classify(&e)), &format!("thread scenario seed={hseed} threads={nth}: {e}"), json!({"kind": "threads", "history_seed": hseed.to_string(), "threads": nth}));
            let _ = valloc::take_violation();
        }
        if st.samples.len() < 2 {
            st.sample(json!({"kind": "threads", "history_seed": hseed.to_string(), "threads": nth}));
        }
    }
    if sanit {
        let mut rng = Rng::new(seed ^ 0x9C12);
        for _ in 0..6 {
            parser_driven(&mut rng, &mut st);
        }
    }
    let _ = (nthreads(), par_run::<fn(usize, usize, &mut Stats)>);
    check_markers(&mut st);
    if !sanit && !cfg!(miri) {
        // wrapped length arithmetic shows up as a wild copy: 2 GiB-scale scenarios in a child process (huge.rs)
        super::huge::run_child(&mut st);
    }
    st.observe("monitors_active", if audit { "checking-allocator" } else { "none (sanitizer build: the sanitizer is the monitor)" });
    let mut m = super::meta(
        args,
        "operation histories (construct, with_capacity, push, push_tendril, subtendril, clone, pop front/back, clear, reserve, SendTendril round trip, drop; sizes around the inline/owned/shared and doubling boundaries; Bytes/UTF8/WTF8 x NonAtomic/Atomic) in which only the tendril calls run with allocation attribution on: the checking allocator verifies each dealloc against a live block with the same layout, red zones on free and at reset, poison of freed buffers at reset, and after EVERY operation that the number of live tendril heap buffers equals owned + distinct shared buffers of the pool, and is 0 after the pool is dropped. Thread scenarios: clones/sub-slices of an atomic tendril moved to 2-8 threads that read, clone, mutate (copy-on-write), hand SendTendrils to each other and drop in random orders with yields; last drop on another thread in half of the runs. The same code runs under Miri, ASan and TSan via the sanitizer legs (their reports are merged into this evidence by ./check). Each history is a distinct case (hash = its seed). A child process additionally runs the 2 GiB-scale length scenarios of huge.rs (a crash there is a violation).",
        &[
            "a clean allocator-monitor / sanitizer run is evidence, not proof of memory safety (non-adjacent overflows, reads of freed memory are only seen by Miri/ASan)",
            "Miri runs with permissive provenance because tendril casts integers to pointers",
        ],
    );
    if !sanit {
        m.require = vec![("operations".into(), 50_000), ("thread_scenarios".into(), 200)];
        if audit {
            m.require.push(("conservation_checks".into(), 50_000));
            m.require.push(("allocations_audited".into(), 10_000));
        }
    }
    (m, st)
}

fn classify(e: &str) -> String {
    for (needle, sig) in [
        ("double free", "double-free"),
        ("not the start of any", "foreign-or-interior-free"),
        ("layout different", "wrong-layout"),
        ("red zone", "out-of-bounds-write"),
        ("written after it was freed", "write-after-free"),
        ("still allocated", "leak"),
        ("heap buffers are live", "conservation"),
        ("content differs", "content"),
        ("changed while", "content"),
        ("panic", "panic"),
    ] {
        if e.contains(needle) {
            return sig.to_string();
        }
    }
    "other".into()
}
