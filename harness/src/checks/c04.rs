//! C04 — parsing is total: no panic/abort/stack overflow, bounded progress, input consumed, one EOF last.

use super::common::*;
use super::parse_common::*;
use crate::drive::*;
use crate::gen;
use crate::msink::MSink;
use crate::prng::{hash_str, mix, Rng};
use crate::report::{catch, nthreads, panic_signature, par_run, Meta, Stats};
use crate::xdrive::XmlOpts;
use crate::Args;
use html5ever::buffer_queue::BufferQueue;
use html5ever::tendril::StrTendril;
use html5ever::tokenizer::Tokenizer;
use html5ever::tree_builder::{TreeBuilder, TreeSink};
use html5ever::TokenizerResult;
use markup5ever_rcdom::{RcDom, SerializableHandle};
use serde_json::{json, Value};
use std::time::{Duration, Instant};

pub fn step_budget(chars: usize, chunks: usize) -> u64 {
    64 * (chars as u64 + chunks as u64) + 4096
}

#[derive(Debug, Default, Clone)]
pub struct TotalInfo {
    pub steps: u64,
    pub eofs: u32,
    pub after_eof: u32,
    pub ends: u32,
    pub leftover: bool,
    pub tokens: u64,
    pub suspensions: u32,
}

/// HTML: tokenizer + tree builder over sink S, with EOF counting and the step budget installed.
pub fn total_html<S: TreeSink>(sink: S, chunks: &[String], opts: &HtmlOpts, finish: &mut dyn FnMut(S)) -> TotalInfo {
    let nchars: usize = chunks.iter().map(|c| c.chars().count()).sum();
    markup5ever::verif::reset(step_budget(nchars, chunks.len()));
    let (tb, init) = match &opts.context {
        None => (TreeBuilder::new(sink, opts.tb_opts()), None),
        Some((ns, local, attrs)) => {
            let ctx = html5ever::tree_builder::create_element(&sink, qual(ns, local), attr_list(attrs));
            let form = crate::drive::fragment_form_handle(&sink, opts, &ctx);
            let tb = TreeBuilder::new_for_fragment(sink, ctx, form, opts.tb_opts());
            let st = tb.tokenizer_state_for_context_elem(opts.context_allows_scripting);
            (tb, Some(st))
        },
    };
    let mut to = opts.tok.to_real();
    if init.is_some() {
        to.initial_state = init;
    }
    let tok = Tokenizer::new(EofCount::new(tb), to);
    let q = BufferQueue::default();
    let mut info = TotalInfo::default();
    for c in chunks {
        q.push_back(StrTendril::from_slice(c));
        loop {
            match tok.feed(&q) {
                TokenizerResult::Done => {
                    if !q.is_empty() {
                        info.leftover = true;
                    }
                    break;
                },
                _ => info.suspensions += 1,
            }
        }
    }
    tok.end();
    info.steps = markup5ever::verif::steps();
    markup5ever::verif::reset(u64::MAX);
    info.eofs = tok.sink.eofs.get();
    info.after_eof = tok.sink.after_eof.get();
    info.ends = tok.sink.ends.get();
    info.tokens = tok.sink.tokens.get();
    finish(tok.sink.inner.sink);
    info
}

pub fn total_xml<S: TreeSink>(sink: S, chunks: &[String], opts: &XmlOpts, finish: &mut dyn FnMut(S)) -> TotalInfo {
    use xml5ever::tokenizer::XmlTokenizer;
    use xml5ever::tree_builder::{XmlTreeBuilder, XmlTreeBuilderOpts};
    let nchars: usize = chunks.iter().map(|c| c.chars().count()).sum();
    markup5ever::verif::reset(step_budget(nchars, chunks.len()));
    let tb = XmlTreeBuilder::new(sink, XmlTreeBuilderOpts::default());
    let tok = XmlTokenizer::new(XEofCount::new(tb), opts.to_real());
    let q = BufferQueue::default();
    let mut info = TotalInfo::default();
    for c in chunks {
        q.push_back(StrTendril::from_slice(c));
        loop {
            match tok.feed(&q) {
                TokenizerResult::Done => {
                    if !q.is_empty() {
                        info.leftover = true;
                    }
                    break;
                },
                _ => info.suspensions += 1,
            }
        }
    }
    tok.end();
    info.steps = markup5ever::verif::steps();
    markup5ever::verif::reset(u64::MAX);
    info.eofs = tok.sink.eofs.get();
    info.after_eof = tok.sink.after_eof.get();
    info.ends = tok.sink.ends.get();
    info.tokens = tok.sink.tokens.get();
    finish(tok.sink.inner.sink);
    info
}

fn finish_rcdom_html(dom: RcDom) {
    // finish(): serialize the whole document and drop it (both must complete for any depth)
    let mut out = Vec::new();
    let h: SerializableHandle = dom.document.clone().into();
    let _ = html5ever::serialize::serialize(&mut out, &h, Default::default());
    drop(dom);
}

fn finish_rcdom_xml(dom: RcDom) {
    let mut out = Vec::new();
    let h: SerializableHandle = dom.document.clone().into();
    let _ = xml5ever::serialize::serialize(&mut out, &h, Default::default());
    drop(dom);
}

fn judge(info: &TotalInfo) -> Option<(&'static str, String)> {
    if info.leftover {
        return Some(("input-left-after-done", "feed() returned Done with unread input".into()));
    }
    if info.eofs != 1 {
        return Some(("eof-count", format!("{} EOF tokens delivered", info.eofs)));
    }
    if info.after_eof != 0 {
        return Some(("token-after-eof", format!("{} tokens after EOF", info.after_eof)));
    }
    if info.ends != 1 {
        return Some(("sink-end-count", format!("TokenSink::end called {} times", info.ends)));
    }
    None
}

fn classify_panic(m: &str) -> String {
    if m.contains("verif: step budget exceeded") {
        "no-bounded-progress".into()
    } else {
        format!("panic:{}", panic_signature(m))
    }
}

#[derive(Clone, Copy, Debug, PartialEq, Eq)]
pub enum SinkKind {
    M,
    Rc,
}

pub fn run_one_html(input: &str, cuts: &[usize], opts: &HtmlOpts, sk: SinkKind) -> Result<TotalInfo, String> {
    let chunks = split_at_chars(input, cuts);
    catch(|| match sk {
        SinkKind::M => total_html(MSink::new(), &chunks, opts, &mut |s| drop(s)),
        SinkKind::Rc => total_html(RcDom::default(), &chunks, opts, &mut finish_rcdom_html),
    })
}

pub fn run_one_xml(input: &str, cuts: &[usize], opts: &XmlOpts, sk: SinkKind) -> Result<TotalInfo, String> {
    let chunks = split_at_chars(input, cuts);
    catch(|| match sk {
        SinkKind::M => total_xml(MSink::new(), &chunks, opts, &mut |s| drop(s)),
        SinkKind::Rc => total_xml(RcDom::default(), &chunks, opts, &mut finish_rcdom_xml),
    })
}

fn check_html(input: &str, cuts: &[usize], opts: &HtmlOpts, sk: SinkKind, st: &mut Stats) {
    let n = input.chars().count();
    st.case(if n > 2 { Some(hash_str(&format!("h{input}{cuts:?}{}{sk:?}", opts.describe()))) } else { None });
    let rep = || json!({"kind": "html", "input": input, "cuts": cuts, "opts": super::c03::html_opts_json(opts), "sink": format!("{sk:?}")});
    match run_one_html(input, cuts, opts, sk) {
        Err(m) => st.violation(&classify_panic(&m), &format!("html input={} cuts={:?} {} sink={sk:?}: {m}", show(input), &cuts[..cuts.len().min(8)], opts.describe()), rep()),
        Ok(info) => {
            st.add("steps_total", info.steps);
            st.add("tokens_total", info.tokens);
            if n > 0 {
                st.max("max_steps_per_100_chars", info.steps * 100 / (n as u64 + cuts.len() as u64 + 1));
            }
            st.add("suspensions", info.suspensions as u64);
            if let Some((sig, d)) = judge(&info) {
                st.violation(sig, &format!("html input={} cuts={:?} {}: {d}", show(input), &cuts[..cuts.len().min(8)], opts.describe()), rep());
            }
        },
    }
}

fn check_xml(input: &str, cuts: &[usize], opts: &XmlOpts, sk: SinkKind, st: &mut Stats) {
    let n = input.chars().count();
    st.case(if n > 2 { Some(hash_str(&format!("x{input}{cuts:?}{opts:?}{sk:?}"))) } else { None });
    let rep = || json!({"kind": "xml", "input": input, "cuts": cuts, "exact_errors": opts.exact_errors, "discard_bom": opts.discard_bom, "profile": opts.profile, "sink": format!("{sk:?}")});
    match run_one_xml(input, cuts, opts, sk) {
        Err(m) => st.violation(&format!("xml:{}", classify_panic(&m)), &format!("xml input={} cuts={:?} {opts:?} sink={sk:?}: {m}", show(input), &cuts[..cuts.len().min(8)]), rep()),
        Ok(info) => {
            st.add("steps_total", info.steps);
            st.add("tokens_total", info.tokens);
            if n > 0 {
                st.max("max_steps_per_100_chars", info.steps * 100 / (n as u64 + cuts.len() as u64 + 1));
            }
            if let Some((sig, d)) = judge(&info) {
                st.violation(&format!("xml:{sig}"), &format!("xml input={} cuts={:?} {opts:?}: {d}", show(input), &cuts[..cuts.len().min(8)]), rep());
            }
        },
    }
}

/// Tokenizer-only totality with arbitrary sink policies.
fn check_tok(rng: &mut Rng, st: &mut Stats) {
    use crate::tokrec::{Answer, Policy, RTok, ALL_ANSWERS};
    let input = gen::tok_soup(rng, 10);
    let n = input.chars().count();
    let cuts = random_schedule(rng, n);
    let chunks = split_at_chars(&input, &cuts);
    let start = *rng.pick(&gen::START_STATES);
    let policy = match rng.below(3) {
        0 => Policy::Hashed { salt: rng.next_u64(), foreign_salt: rng.next_u64() },
        1 => Policy::Const { start: *rng.pick(&ALL_ANSWERS), end: if rng.chance(1, 2) { Answer::Continue } else { *rng.pick(&ALL_ANSWERS) }, foreign: rng.chance(1, 2) },
        _ => Policy::TreeBuilderLike,
    };
    let opts = HtmlTokOpts {
        exact_errors: rng.chance(1, 3),
        discard_bom: rng.chance(1, 2),
        profile: rng.chance(1, 20),
        initial_state: Some(real_state(start)),
        last_start_tag: if rng.chance(1, 2) { Some(rng.pick(&["title", "script", "style", "x"]).to_string()) } else { None },
        set_plaintext_first: rng.chance(1, 30),
    };
    st.case(if n > 2 { Some(hash_str(&format!("t{input}{cuts:?}{policy:?}{start:?}"))) } else { None });
    st.count("tokenizer_only_runs");
    let rep = json!({"kind": "tok", "input": input, "cuts": cuts, "start": start_state_name(start), "policy": super::c03::policy_json(&policy), "exact_errors": opts.exact_errors, "discard_bom": opts.discard_bom, "last_tag": opts.last_start_tag});
    markup5ever::verif::reset(step_budget(n, chunks.len()));
    let r = catch(|| run_html_tokenizer(&chunks, &opts, &policy, false));
    markup5ever::verif::reset(u64::MAX);
    match r {
        Err(m) => st.violation(&format!("tok:{}", classify_panic(&m)), &format!("tokenizer input={} cuts={cuts:?} start={start:?} policy={policy:?}: {m}", show(&input)), rep),
        Ok(r) => {
            let eofs = r.raw.iter().filter(|t| t.0 == RTok::Eof).count();
            let last_non_err = r.raw.iter().rev().find(|t| !t.0.is_error()).map(|t| t.0.clone());
            if eofs != 1 || last_non_err != Some(RTok::Eof) {
                st.violation("tok:eof-count", &format!("tokenizer input={}: {eofs} EOF tokens, last token {:?}", show(&input), last_non_err), rep);
            } else if r.leftover_after_done {
                st.violation("tok:input-left-after-done", &format!("tokenizer input={}: Done with unread input", show(&input)), rep);
            } else if r.sink_end_calls != 1 {
                st.violation("tok:sink-end-count", &format!("tokenizer input={}: end() called {} times", show(&input), r.sink_end_calls), rep);
            }
        },
    }
}

// ---------------------------------------------------------------------------------------------
// deep / long inputs in child processes (a stack overflow or abort kills only the child)

fn deep_variants(quick: bool) -> Vec<(String, String, usize, String, String)> {
    // (family, name, scale, chunking, sink)
    let scale_deep = if quick { 12_000 } else { 60_000 };
    let mut v = Vec::new();
    for (name, _) in gen::deep_inputs(8) {
        for (chunking, sink) in [("whole", "rc"), ("1char", "m"), ("4096", "rc")] {
            if quick && chunking == "1char" && !(name.starts_with("deep-b") || name == "crlf-storm" || name == "amp-storm") {
                continue;
            }
            v.push(("html".to_string(), name.clone(), scale_deep, chunking.to_string(), sink.to_string()));
        }
    }
    for ctx in ["table", "select", "template", "svg:svg", "math:math", "tr", "title"] {
        v.push((format!("htmlfrag:{ctx}"), "deep-div".into(), scale_deep, "whole".into(), "rc".into()));
        v.push((format!("htmlfrag:{ctx}"), "deep-table".into(), scale_deep, "whole".into(), "m".into()));
        v.push((format!("htmlfrag:{ctx}"), "deep-select-option".into(), scale_deep, "4096".into(), "rc".into()));
    }
    for (name, _) in gen::deep_xml_inputs(8) {
        for (chunking, sink) in [("whole", "rc"), ("4096", "m")] {
            v.push(("xml".to_string(), name.clone(), scale_deep, chunking.to_string(), sink.to_string()));
        }
    }
    v
}

fn chunk_cuts(n: usize, chunking: &str) -> Vec<usize> {
    match chunking {
        "1char" => gen::one_char_cuts(n),
        "4096" => (1..).map(|k| k * 4096).take_while(|&c| c < n).collect(),
        _ => vec![],
    }
}

/// Child entry: `vharness C04 --child family name scale chunking sink`
pub fn child_main(rest: &[String]) -> i32 {
    let family = &rest[1];
    let name = &rest[2];
    let scale: usize = rest[3].parse().unwrap_or(1000);
    let chunking = &rest[4];
    let sink = if rest[5] == "m" { SinkKind::M } else { SinkKind::Rc };
    let res = if family == "xml" {
        let input = gen::deep_xml_inputs(scale).into_iter().find(|(n, _)| n == name).map(|x| x.1).unwrap_or_default();
        let n = input.chars().count();
        run_one_xml(&input, &chunk_cuts(n, chunking), &XmlOpts::default(), sink).map(|i| (i, n))
    } else {
        let input = gen::deep_inputs(scale).into_iter().find(|(n, _)| n == name).map(|x| x.1).unwrap_or_default();
        let n = input.chars().count();
        let mut opts = HtmlOpts::default();
        if let Some(ctx) = family.strip_prefix("htmlfrag:") {
            let (ns, local) = match ctx.split_once(':') {
                Some(("svg", l)) => (crate::tree::NS_SVG, l),
                Some(("math", l)) => (crate::tree::NS_MATHML, l),
                _ => (crate::tree::NS_HTML, ctx),
            };
            opts.context = Some((ns.to_string(), local.to_string(), vec![]));
        }
        run_one_html(&input, &chunk_cuts(n, chunking), &opts, sink).map(|i| (i, n))
    };
    match res {
        Ok((info, n)) => {
            let verdict = judge(&info).map(|(s, d)| format!("{s}: {d}")).unwrap_or_else(|| "ok".into());
            crate::report::out_line(&json!({"verdict": verdict, "steps": info.steps, "chars": n, "tokens": info.tokens}).to_string());
            0
        },
        Err(m) => {
            crate::report::out_line(&json!({"verdict": format!("panic: {m}")}).to_string());
            0
        },
    }
}

fn run_children(args: &Args, st: &mut Stats) {
    use std::os::unix::process::ExitStatusExt;
    let variants = deep_variants(args.quick());
    let exe = std::env::current_exe().unwrap();
    let nt = nthreads();
    let results: std::sync::Mutex<Vec<(usize, String, Option<i32>, Option<i32>, String)>> = std::sync::Mutex::new(vec![]);
    let next = std::sync::atomic::AtomicUsize::new(0);
    let limit = Duration::from_secs(if args.quick() { 240 } else { 1200 });
    std::thread::scope(|sc| {
        for _ in 0..nt {
            sc.spawn(|| loop {
                let i = next.fetch_add(1, std::sync::atomic::Ordering::SeqCst);
                if i >= variants.len() {
                    break;
                }
                let v = &variants[i];
                let mut child = match std::process::Command::new(&exe)
                    .args(["C04", "--child", &v.0, &v.1, &v.2.to_string(), &v.3, &v.4])
                    .stdout(std::process::Stdio::piped())
                    .stderr(std::process::Stdio::null())
                    .spawn()
                {
                    Ok(c) => c,
                    Err(e) => {
                        results.lock().unwrap().push((i, format!("spawn failed: {e}"), None, None, String::new()));
                        continue;
                    },
                };
                let t0 = Instant::now();
                let status = loop {
                    match child.try_wait() {
                        Ok(Some(s)) => break Some(s),
                        Ok(None) => {
                            if t0.elapsed() > limit {
                                let _ = child.kill();
                                let _ = child.wait();
                                break None;
                            }
                            std::thread::sleep(Duration::from_millis(20));
                        },
                        Err(_) => break None,
                    }
                };
                let mut out = String::new();
                if let Some(mut so) = child.stdout.take() {
                    use std::io::Read;
                    let _ = so.read_to_string(&mut out);
                }
                match status {
                    None => results.lock().unwrap().push((i, "watchdog".into(), None, None, out)),
                    Some(s) => results.lock().unwrap().push((i, "exited".into(), s.code(), s.signal(), out)),
                }
            });
        }
    });
    for (i, how, code, sig, out) in results.into_inner().unwrap() {
        let v = &variants[i];
        let label = format!("{} {} scale={} chunks={} sink={}", v.0, v.1, v.2, v.3, v.4);
        let rep = json!({"kind": "deep", "family": v.0, "name": v.1, "scale": v.2, "chunking": v.3, "sink": v.4});
        st.case(Some(hash_str(&label)));
        st.count("deep_child_runs");
        st.observe("deep_cases", &label);
        if how == "watchdog" {
            st.inconclusive(&format!("deep case {label}: wall-clock watchdog fired (inconclusive, not a violation)"));
            continue;
        }
        if how != "exited" {
            st.inconclusive(&format!("deep case {label}: {how}"));
            continue;
        }
        if let Some(s) = sig {
            let what = match s {
                11 | 7 => "stack-overflow-or-segv",
                6 => "abort",
                _ => "signal",
            };
            st.violation(&format!("deep:{what}:{}:{}", v.0.split(':').next().unwrap_or(""), v.1), &format!("{label}: child killed by signal {s}"), rep);
            continue;
        }
        if code != Some(0) {
            st.violation(&format!("deep:exit:{}", v.1), &format!("{label}: child exit status {code:?}"), rep);
            continue;
        }
        let parsed: Value = serde_json::from_str(out.lines().last().unwrap_or("")).unwrap_or(Value::Null);
        let verdict = parsed["verdict"].as_str().unwrap_or("no-output").to_string();
        if verdict == "ok" {
            st.max("deep_max_chars", parsed["chars"].as_u64().unwrap_or(0));
            st.max("deep_max_steps", parsed["steps"].as_u64().unwrap_or(0));
        } else if verdict.starts_with("panic: ") {
            st.violation(&format!("deep:{}", classify_panic(&verdict[7..])), &format!("{label}: {verdict}"), rep);
        } else if verdict == "no-output" {
            st.inconclusive(&format!("deep case {label}: child produced no result line"));
        } else {
            st.violation(&format!("deep:{}", verdict.split(':').next().unwrap_or("")), &format!("{label}: {verdict}"), rep);
        }
    }
}

pub fn run(args: &Args) -> (Meta, Stats) {
    if args.rest.first().map(|s| s.as_str()) == Some("--child") {
        let code = child_main(&args.rest);
        std::process::exit(code);
    }
    if let Some(p) = &args.replay {
        return replay(args, p);
    }
    let seed = args.seed;
    let contexts = gen::fragment_contexts();
    let deadline = args.phase_deadline(0.6);
    let sanit = args.tier == crate::Tier::Sanitizer;
    let san_n = args.san_n(40);
    let mut st = par_run(if sanit { 1 } else { nthreads() }, |shard, _n, st| {
        let mut rng = Rng::new(mix(seed ^ 0xC04, shard as u64));
        let mut k = 0u64;
        loop {
            if sanit {
                if k >= san_n {
                    break;
                }
            } else if expired(deadline) {
                break;
            }
            k += 1;
            match k % 8 {
                0 | 1 => check_tok(&mut rng, st),
                2 | 3 => {
                    let input = if rng.chance(1, 2) { gen::xml_doc(&mut rng, 14) } else { gen::tok_soup(&mut rng, 10) };
                    let n = input.chars().count();
                    let cuts = random_schedule(&mut rng, n);
                    let opts = XmlOpts { exact_errors: rng.chance(1, 3), discard_bom: rng.chance(1, 2), profile: rng.chance(1, 30) };
                    let sk = if rng.chance(1, 2) { SinkKind::M } else { SinkKind::Rc };
                    check_xml(&input, &cuts, &opts, sk, st);
                    st.count("xml_runs");
                },
                _ => {
                    let (input, mut opts) = random_html_case(&mut rng, &contexts, &[], true);
                    opts.tok.profile = rng.chance(1, 30);
                    let n = input.chars().count();
                    let cuts = random_schedule(&mut rng, n);
                    let sk = if rng.chance(1, 2) { SinkKind::M } else { SinkKind::Rc };
                    check_html(&input, &cuts, &opts, sk, st);
                    st.count(if opts.context.is_some() { "html_fragment_runs" } else { "html_document_runs" });
                    if st.samples.len() < 2 && rng.chance(1, 200) {
                        st.sample(json!({"input": input, "cuts": cuts, "opts": opts.describe(), "sink": format!("{sk:?}")}));
                    }
                },
            }
        }
    });
    if !sanit {
        run_children(args, &mut st);
    }
    let sites = ["html tokenizer run", "html tokenizer eof", "html tree builder", "xml tokenizer run", "xml tokenizer eof", "xml tree builder", "html char-ref eof", "xml char-ref eof"];
    let _ = sites;
    let mut m = super::meta(
        args,
        "random markup soup, grammar documents and XML through the real tokenizer-only / HTML / XML parsers under random feed schedules, all option combinations, ~60 fragment contexts and two contract-abiding sinks (abstract DOM, RcDom incl. serialisation and drop), each run under a panic hook and a logical step budget of 64*(chars+chunks)+4096 installed through the verif tick hook; plus pathological deep/long inputs run in child processes so that a stack overflow or abort is observed as the child's death. Non-trivial = input longer than 2 characters; distinct by hash of input+schedule+options+sink.",
        &[
            "hang verdicts are decided on logical steps (tick hook), never on wall-clock; the wall-clock watchdog only yields 'inconclusive'",
            "unwrap/expect sites are shown unreachable only on the inputs driven",
        ],
    );
    if !sanit {
        m.require = vec![
        ("html_document_runs".into(), 2000),
        ("html_fragment_runs".into(), 500),
        ("xml_runs".into(), 1000),
        ("tokenizer_only_runs".into(), 1000),
        ("deep_child_runs".into(), 30),
    ];
    }
    (m, st)
}

fn replay(args: &Args, path: &std::path::Path) -> (Meta, Stats) {
    let mut st = Stats::new();
    let v: Value = serde_json::from_str(&std::fs::read_to_string(path).unwrap_or_default()).unwrap_or(Value::Null);
    let cuts: Vec<usize> = v["cuts"].as_array().map(|a| a.iter().filter_map(|x| x.as_u64()).map(|x| x as usize).collect()).unwrap_or_default();
    let sk = if v["sink"].as_str() == Some("Rc") { SinkKind::Rc } else { SinkKind::M };
    match v["kind"].as_str().unwrap_or("") {
        "html" => check_html(v["input"].as_str().unwrap_or(""), &cuts, &super::c03::opts_from_json(&v["opts"]), sk, &mut st),
        "xml" => check_xml(
            v["input"].as_str().unwrap_or(""),
            &cuts,
            &XmlOpts { exact_errors: v["exact_errors"].as_bool().unwrap_or(false), discard_bom: v["discard_bom"].as_bool().unwrap_or(true), profile: v["profile"].as_bool().unwrap_or(false) },
            sk,
            &mut st,
        ),
        _ => st.inconclusive("replay kind not supported by this entry point (deep cases: run `vharness C04 --child ...`)"),
    }
    (super::meta(args, "replay of one recorded case", &[]), st)
}
