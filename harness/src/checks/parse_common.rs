//! Shared pieces of the parser-level campaigns (C04, C05, C06, C18, C19, C20).

use crate::drive::HtmlOpts;
use crate::gen;
use crate::prng::Rng;
use html5ever::interface::QuirksMode;
use html5ever::tokenizer::{Token, TokenSink, TokenSinkResult};
use std::cell::Cell;

pub type Ctx = (String, String, Vec<(String, String)>);

/// Random HTML input + options.
pub fn random_html_case(rng: &mut Rng, contexts: &[Ctx], exclude: &[&str], allow_diag_opts: bool) -> (String, HtmlOpts) {
    let input = match rng.below(12) {
        0 | 1 => gen::tok_soup(rng, 10),
        2 => {
            let mut s = gen::html_doc(rng, exclude, 10);
            s.push_str(&gen::tok_soup(rng, 4));
            s
        },
        _ => gen::html_doc(rng, exclude, 18),
    };
    let input = if rng.chance(1, 12) {
        // a meta with a hostile encoding declaration somewhere in the input
        let mut chars: Vec<char> = input.chars().collect();
        let at = rng.below(chars.len() + 1);
        for (i, c) in gen::random_meta(rng).chars().enumerate() {
            chars.insert(at + i, c);
        }
        chars.into_iter().collect()
    } else {
        input
    };
    let mut opts = HtmlOpts::default();
    opts.scripting = !rng.chance(1, 3);
    if !contexts.is_empty() && rng.chance(1, 4) {
        opts.context = Some(rng.pick(contexts).clone());
        opts.context_allows_scripting = opts.scripting;
        opts.fragment_form = rng.chance(1, 4);
    }
    if rng.chance(1, 10) {
        opts.iframe_srcdoc = true;
    }
    opts.allow_shadow = rng.chance(1, 4);
    if rng.chance(1, 10) {
        opts.quirks = *rng.pick(&[QuirksMode::Quirks, QuirksMode::LimitedQuirks, QuirksMode::NoQuirks]);
    }
    if allow_diag_opts {
        opts.tok.exact_errors = rng.chance(1, 5);
        opts.tb_exact_errors = rng.chance(1, 5);
        opts.tok.discard_bom = !rng.chance(1, 8);
        opts.drop_doctype = rng.chance(1, 10);
    }
    (input, opts)
}

/// A random feed schedule.
pub fn random_schedule(rng: &mut Rng, n: usize) -> Vec<usize> {
    match rng.below(6) {
        0 => vec![],
        1 => gen::one_char_cuts(n),
        2 => vec![rng.below(n + 1)],
        _ => gen::random_cuts(rng, n),
    }
}

/// TokenSink wrapper counting EOF tokens and anything delivered after EOF.
pub struct EofCount<S> {
    pub inner: S,
    pub eofs: Cell<u32>,
    pub after_eof: Cell<u32>,
    pub tokens: Cell<u64>,
    pub ends: Cell<u32>,
}

impl<S> EofCount<S> {
    pub fn new(inner: S) -> Self {
        EofCount { inner, eofs: Cell::new(0), after_eof: Cell::new(0), tokens: Cell::new(0), ends: Cell::new(0) }
    }
}

impl<S: TokenSink> TokenSink for EofCount<S> {
    type Handle = S::Handle;
    fn process_token(&self, token: Token, line_number: u64) -> TokenSinkResult<S::Handle> {
        self.tokens.set(self.tokens.get() + 1);
        if self.eofs.get() > 0 && !matches!(token, Token::ParseError(_)) {
            self.after_eof.set(self.after_eof.get() + 1);
        }
        if matches!(token, Token::EOFToken) {
            self.eofs.set(self.eofs.get() + 1);
        }
        self.inner.process_token(token, line_number)
    }
    fn end(&self) {
        self.ends.set(self.ends.get() + 1);
        self.inner.end()
    }
    fn adjusted_current_node_present_but_not_in_html_namespace(&self) -> bool {
        self.inner.adjusted_current_node_present_but_not_in_html_namespace()
    }
}

/// Same for xml5ever.
pub struct XEofCount<S> {
    pub inner: S,
    pub eofs: Cell<u32>,
    pub after_eof: Cell<u32>,
    pub tokens: Cell<u64>,
    pub ends: Cell<u32>,
}

impl<S> XEofCount<S> {
    pub fn new(inner: S) -> Self {
        XEofCount { inner, eofs: Cell::new(0), after_eof: Cell::new(0), tokens: Cell::new(0), ends: Cell::new(0) }
    }
}

impl<S: xml5ever::tokenizer::TokenSink> xml5ever::tokenizer::TokenSink for XEofCount<S> {
    type Handle = S::Handle;
    fn process_token(&self, token: xml5ever::tokenizer::Token) -> xml5ever::tokenizer::ProcessResult<S::Handle> {
        use xml5ever::tokenizer::Token as T;
        self.tokens.set(self.tokens.get() + 1);
        if self.eofs.get() > 0 && !matches!(token, T::ParseError(_)) {
            self.after_eof.set(self.after_eof.get() + 1);
        }
        if matches!(token, T::EndOfFile) {
            self.eofs.set(self.eofs.get() + 1);
        }
        self.inner.process_token(token)
    }
    fn end(&self) {
        self.ends.set(self.ends.get() + 1);
        self.inner.end()
    }
}
