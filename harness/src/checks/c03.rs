//! C03 — output independent of chunking, pausing and resuming (metamorphic: real code vs itself).

use super::common::*;
use crate::drive::*;
use crate::gen::{self, StartState};
use crate::prng::{hash_str, mix, Rng};
use crate::report::{catch, nthreads, par_run, Meta, Stats};
use crate::tokrec::{coalesce, Policy, RTok};
use crate::tree::dump_html;
use crate::Args;
use html5ever::buffer_queue::BufferQueue;
use html5ever::tendril::StrTendril;
use serde_json::{json, Value};

#[derive(Clone, Debug)]
pub struct TokCase {
    pub input: String,
    pub start: StartState,
    pub last_tag: Option<String>,
    pub exact_errors: bool,
    pub discard_bom: bool,
    pub policy: Policy,
}

impl TokCase {
    fn opts(&self) -> HtmlTokOpts {
        HtmlTokOpts {
            exact_errors: self.exact_errors,
            discard_bom: self.discard_bom,
            profile: false,
            initial_state: if self.start == StartState::Data { None } else { Some(real_state(self.start)) },
            last_start_tag: self.last_tag.clone(),
            set_plaintext_first: false,
        }
    }
    fn to_json(&self, cuts: &[usize]) -> Value {
        json!({
            "kind": "tok",
            "input": self.input,
            "start": start_state_name(self.start),
            "last_tag": self.last_tag,
            "exact_errors": self.exact_errors,
            "discard_bom": self.discard_bom,
            "policy": policy_json(&self.policy),
            "cuts": cuts,
        })
    }
}

pub fn policy_json(p: &Policy) -> Value {
    match p {
        Policy::TreeBuilderLike => json!({"kind": "tb"}),
        Policy::Const { start, end, foreign } => {
            json!({"kind": "const", "start": format!("{start:?}"), "end": format!("{end:?}"), "foreign": foreign})
        },
        Policy::Hashed { salt, foreign_salt } => json!({"kind": "hashed", "salt": salt.to_string(), "foreign_salt": foreign_salt.to_string()}),
    }
}

pub fn policy_from_json(v: &Value) -> Policy {
    use crate::tokrec::{Answer, ALL_ANSWERS};
    let ans = |s: &str| -> Answer { *ALL_ANSWERS.iter().find(|a| format!("{a:?}") == s).unwrap_or(&Answer::Continue) };
    match v["kind"].as_str().unwrap_or("tb") {
        "const" => Policy::Const {
            start: ans(v["start"].as_str().unwrap_or("")),
            end: ans(v["end"].as_str().unwrap_or("")),
            foreign: v["foreign"].as_bool().unwrap_or(false),
        },
        "hashed" => Policy::Hashed {
            salt: v["salt"].as_str().and_then(|s| s.parse().ok()).unwrap_or(0),
            foreign_salt: v["foreign_salt"].as_str().and_then(|s| s.parse().ok()).unwrap_or(0),
        },
        _ => Policy::TreeBuilderLike,
    }
}

struct TokRef {
    toks: Vec<(RTok, u64)>,
    events: Vec<FeedEv>,
}

fn tok_reference(c: &TokCase) -> Result<TokRef, String> {
    let opts = c.opts();
    let r = catch(|| run_html_tokenizer(&[c.input.clone()], &opts, &c.policy, false))?;
    Ok(TokRef {
        toks: coalesce(&r.raw, true),
        events: r.feeds.into_iter().filter(|e| *e != FeedEv::Done).collect(),
    })
}

/// Compare one schedule against the reference. Returns Some(description) on a difference.
fn tok_compare(c: &TokCase, cuts: &[usize], reference: &TokRef, st: &mut Stats) -> Option<(String, String)> {
    let chunks = split_at_chars(&c.input, cuts);
    let opts = c.opts();
    let r = match catch(|| run_html_tokenizer(&chunks, &opts, &c.policy, true)) {
        Ok(r) => r,
        Err(m) => return Some(("panic".into(), format!("panic in chunked run: {m}"))),
    };
    for s in &r.suspend_states {
        st.observe("hidden_states_at_suspension", s);
    }
    st.add("suspension_points", r.suspend_states.len() as u64);
    let toks = coalesce(&r.raw, true);
    if let Some(d) = first_diff(&reference.toks, &toks, false) {
        // classify: errors only?
        let a: Vec<_> = reference.toks.iter().filter(|t| !t.0.is_error()).cloned().collect();
        let b: Vec<_> = toks.iter().filter(|t| !t.0.is_error()).cloned().collect();
        let sig = if first_diff(&a, &b, false).is_some() { "tokens-differ" } else { "parse-errors-differ" };
        return Some((sig.into(), format!("one-piece vs chunked: {d}")));
    }
    if let Some(d) = first_diff(&reference.toks, &toks, true) {
        return Some(("lines-differ".into(), format!("one-piece vs chunked: {d}")));
    }
    let ev: Vec<FeedEv> = r.feeds.into_iter().filter(|e| *e != FeedEv::Done).collect();
    if ev != reference.events {
        return Some(("suspensions-differ".into(), format!("suspension sequence {:?} vs {:?}", reference.events, ev)));
    }
    if r.leftover_after_done {
        return Some(("input-left-after-done".into(), "feed() returned Done with unread input".into()));
    }
    None
}

fn report_tok(c: &TokCase, cuts: &[usize], sig: &str, desc: &str, st: &mut Stats) {
    st.violation(
        &format!("tok:{sig}"),
        &format!("input={} cuts={cuts:?} start={} policy={} exact={} bom={}: {desc}", show(&c.input), start_state_name(c.start), c.policy.describe(), c.exact_errors, c.discard_bom),
        c.to_json(cuts),
    );
}

fn check_tok_case(c: &TokCase, rng: &mut Rng, st: &mut Stats, all_partitions_max: usize) {
    let n = c.input.chars().count();
    let reference = match tok_reference(c) {
        Ok(r) => r,
        Err(m) => {
            // a panic is C04's business; here it only means no reference
            st.count("reference_panicked");
            let _ = m;
            return;
        },
    };
    let nontrivial = reference.toks.len() > 2 || n > 3;
    st.case(if nontrivial { Some(hash_str(&format!("{:?}", c))) } else { None });
    if nontrivial && st.samples.len() < 2 && rng.chance(1, 50) {
        st.sample(json!({"case": c.to_json(&[]), "one_piece_tokens": toks_json(&reference.toks)}));
    }
    let mut schedules: Vec<Vec<usize>> = gen::two_chunk_cuts(n);
    if n > 1 {
        schedules.push(gen::one_char_cuts(n));
    }
    if n <= all_partitions_max && n > 2 {
        schedules.extend(gen::all_partitions(n));
        st.count("inputs_with_all_partitions");
    } else {
        for _ in 0..4 {
            schedules.push(gen::random_cuts(rng, n));
        }
    }
    st.add("schedules", schedules.len() as u64);
    for cuts in &schedules {
        if let Some((sig, desc)) = tok_compare(c, cuts, &reference, st) {
            report_tok(c, cuts, &sig, &desc, st);
            break;
        }
    }
}

/// Scaled-up inputs: too long for every split point, so: 1-character chunks, fixed-size blocks,
/// a handful of random partitions and 24 single cuts.
fn check_tok_case_big(c: &TokCase, rng: &mut Rng, st: &mut Stats) {
    let n = c.input.chars().count();
    let Ok(reference) = tok_reference(c) else {
        st.count("reference_panicked");
        return;
    };
    st.case(Some(hash_str(&format!("{:?}", c))));
    let mut schedules: Vec<Vec<usize>> = vec![gen::one_char_cuts(n)];
    for _ in 0..6 {
        schedules.push(crate::big::big_cuts(rng, n));
    }
    for _ in 0..24 {
        schedules.push(vec![rng.below(n + 1)]);
    }
    st.add("schedules", schedules.len() as u64);
    for cuts in &schedules {
        if let Some((sig, desc)) = tok_compare(c, cuts, &reference, st) {
            report_tok(c, cuts, &sig, &desc, st);
            break;
        }
    }
}

// ---------------------------------------------------------------------------------------------
// parser level

#[derive(Clone, Debug)]
pub struct TreeCase {
    pub input: String,
    pub opts: HtmlOpts,
}

fn opts_json(o: &HtmlOpts) -> Value {
    json!({
        "scripting": o.scripting, "iframe_srcdoc": o.iframe_srcdoc, "drop_doctype": o.drop_doctype,
        "quirks": format!("{:?}", o.quirks), "tok_exact": o.tok.exact_errors, "tb_exact": o.tb_exact_errors,
        "discard_bom": o.tok.discard_bom, "profile": o.tok.profile,
        "context": o.context.as_ref().map(|c| json!({"ns": c.0, "local": c.1, "attrs": c.2})),
        "context_allows_scripting": o.context_allows_scripting,
        "allow_shadow": o.allow_shadow,
        "fragment_form": o.fragment_form,
    })
}

pub fn opts_from_json(v: &Value) -> HtmlOpts {
    use html5ever::interface::QuirksMode::*;
    let mut o = HtmlOpts::default();
    o.scripting = v["scripting"].as_bool().unwrap_or(true);
    o.iframe_srcdoc = v["iframe_srcdoc"].as_bool().unwrap_or(false);
    o.drop_doctype = v["drop_doctype"].as_bool().unwrap_or(false);
    o.quirks = match v["quirks"].as_str().unwrap_or("NoQuirks") {
        "Quirks" => Quirks,
        "LimitedQuirks" => LimitedQuirks,
        _ => NoQuirks,
    };
    o.tok.exact_errors = v["tok_exact"].as_bool().unwrap_or(false);
    o.tb_exact_errors = v["tb_exact"].as_bool().unwrap_or(false);
    o.tok.discard_bom = v["discard_bom"].as_bool().unwrap_or(true);
    o.tok.profile = v["profile"].as_bool().unwrap_or(false);
    o.context_allows_scripting = v["context_allows_scripting"].as_bool().unwrap_or(true);
    o.allow_shadow = v["allow_shadow"].as_bool().unwrap_or(false);
    o.fragment_form = v["fragment_form"].as_bool().unwrap_or(false);
    if let Some(c) = v.get("context").filter(|c| !c.is_null()) {
        let attrs = c["attrs"]
            .as_array()
            .map(|a| {
                a.iter()
                    .map(|p| (p[0].as_str().unwrap_or("").to_string(), p[1].as_str().unwrap_or("").to_string()))
                    .collect()
            })
            .unwrap_or_default();
        o.context = Some((c["ns"].as_str().unwrap_or("").to_string(), c["local"].as_str().unwrap_or("").to_string(), attrs));
    }
    o
}

pub fn html_opts_json(o: &HtmlOpts) -> Value {
    opts_json(o)
}

struct TreeRef {
    dump: String,
    quirks: String,
    events: Vec<FeedEv>,
}

fn tree_result(chunks: &[String], opts: &HtmlOpts, st: Option<&mut Stats>) -> Result<TreeRef, String> {
    let r = catch(|| run_html_parse(chunks, opts, Gc::Off, true, &mut no_script))?;
    if let Some(st) = st {
        for s in &r.suspend_states {
            st.observe("hidden_states_at_suspension", s);
        }
        st.add("suspension_points", r.suspend_states.len() as u64);
    }
    if r.leftover_after_done {
        return Err("feed() returned Done with unread input".into());
    }
    Ok(TreeRef {
        dump: dump_html(&r.sink.document_tree()),
        quirks: format!("{:?}", r.sink.quirks()),
        events: r.feeds.into_iter().filter(|e| *e != FeedEv::Done).collect(),
    })
}

fn check_tree_case(c: &TreeCase, rng: &mut Rng, st: &mut Stats, max_two_split_len: usize) {
    let n = c.input.chars().count();
    let reference = match tree_result(&[c.input.clone()], &c.opts, None) {
        Ok(r) => r,
        Err(_) => {
            st.count("reference_panicked");
            return;
        },
    };
    st.case(if reference.dump.lines().count() > 4 { Some(hash_str(&format!("{}{}", c.input, c.opts.describe()))) } else { None });
    if st.samples.len() < 3 && rng.chance(1, 20) {
        st.sample(json!({"kind": "tree", "input": c.input, "opts": c.opts.describe(), "one_piece_tree": reference.dump}));
    }
    let mut schedules: Vec<Vec<usize>> = Vec::new();
    if n <= max_two_split_len {
        schedules.extend(gen::two_chunk_cuts(n));
    } else {
        for _ in 0..12 {
            schedules.push(vec![rng.below(n + 1)]);
        }
    }
    if n > 1 {
        schedules.push(gen::one_char_cuts(n));
    }
    for _ in 0..3 {
        schedules.push(gen::random_cuts(rng, n));
    }
    st.add("schedules", schedules.len() as u64);
    for cuts in &schedules {
        let chunks = split_at_chars(&c.input, cuts);
        let res = tree_result(&chunks, &c.opts, Some(st));
        let problem = match res {
            Err(m) => Some(("panic-or-leftover".to_string(), m)),
            Ok(r) => {
                if r.dump != reference.dump {
                    Some(("tree-differs".into(), dump_diff(&reference.dump, &r.dump)))
                } else if r.quirks != reference.quirks {
                    Some(("quirks-differ".into(), format!("{} vs {}", reference.quirks, r.quirks)))
                } else if r.events != reference.events {
                    Some(("suspensions-differ".into(), format!("{:?} vs {:?}", reference.events, r.events)))
                } else {
                    None
                }
            },
        };
        if let Some((sig, desc)) = problem {
            st.violation(
                &format!("tree:{sig}"),
                &format!("input={} cuts={cuts:?} {}: {desc}", show(&c.input), c.opts.describe()),
                json!({"kind": "tree", "input": c.input, "cuts": cuts, "opts": opts_json(&c.opts)}),
            );
            break;
        }
    }
}

// ---------------------------------------------------------------------------------------------
// script pauses and document.write-style injection

const INJECTIONS: &[&str] = &["<b>", "\n", "\u{feff}", "&am", "</scr", "x", "\r", "<!--", "<script>y</script>", "\u{feff}<i>", ""];

/// Parse with injection of `inj` at the `k`-th script pause; returns (dump, consumed-prefix-len, remainder) or None when
/// there is no k-th pause.
/// Returns (tree dump, (consumed prefix, unread rest incl. not yet pushed chunks), remainder-is-not-a-suffix).
fn parse_with_injection(input: &str, cuts: &[usize], opts: &HtmlOpts, k: u32, inj: &str) -> Result<Option<(String, (String, String), bool)>, String> {
    let chunks = split_at_chars(input, cuts);
    let total_chars: Vec<char> = input.chars().collect();
    let r = catch(|| {
        let mut spliced: Option<(String, String)> = None;
        let mut bad_suffix = false;
        let mut pushed_chars = 0usize;
        let mut script_no = 0u32;
        let sink = crate::msink::MSink::new();
        let tok = make_html_parser(sink, opts);
        let q = BufferQueue::default();
        for c in &chunks {
            q.push_back(StrTendril::from_slice(c));
            pushed_chars += c.chars().count();
            loop {
                match tok.feed(&q) {
                    html5ever::TokenizerResult::Done => break,
                    html5ever::TokenizerResult::Script(_) => {
                        script_no += 1;
                        if spliced.is_none() && script_no == k {
                            // measure the unread remainder
                            let mut rest = String::new();
                            while let Some(ch) = q.next() {
                                rest.push(ch);
                            }
                            let pushed: String = total_chars[..pushed_chars].iter().collect();
                            if !pushed.ends_with(&rest) {
                                bad_suffix = true;
                            }
                            let consumed_len = pushed_chars.saturating_sub(rest.chars().count());
                            let consumed: String = total_chars[..consumed_len].iter().collect();
                            let unpushed: String = total_chars[pushed_chars..].iter().collect();
                            spliced = Some((consumed, format!("{rest}{unpushed}")));
                            if !rest.is_empty() {
                                q.push_front(StrTendril::from_slice(&rest));
                            }
                            if !inj.is_empty() {
                                q.push_front(StrTendril::from_slice(inj));
                            }
                        }
                    },
                    html5ever::TokenizerResult::EncodingIndicator(_) => {},
                }
            }
        }
        tok.end();
        (dump_html(&tok.sink.sink.document_tree()), spliced, bad_suffix)
    });
    let (dump, spliced, bad_suffix) = r?;
    Ok(spliced.map(|s| (dump, s, bad_suffix)))
}

fn check_injection(input: &str, opts: &HtmlOpts, rng: &mut Rng, st: &mut Stats) {
    let n = input.chars().count();
    let cuts = if rng.chance(1, 2) { vec![] } else { gen::random_cuts(rng, n) };
    let k = rng.range(1, 3) as u32;
    let inj = *rng.pick(INJECTIONS);
    st.case(Some(hash_str(&format!("inj{input}{k}{inj}{cuts:?}"))));
    match parse_with_injection(input, &cuts, opts, k, inj) {
        Err(m) => {
            st.count("injection_run_panicked");
            let _ = m;
        },
        Ok(None) => st.count("injection_no_kth_pause"),
        Ok(Some((dump, spliced, bad_suffix))) => {
            st.count("injections_performed");
            if st.samples.len() < 4 {
                st.sample(json!({"kind": "inject", "input": input, "cuts": cuts, "pause": k, "inject": inj}));
            }
            let rep = json!({"kind": "inject", "input": input, "cuts": cuts, "k": k, "inject": inj, "opts": opts_json(opts)});
            if bad_suffix {
                st.violation("inject:remainder-not-suffix", &format!("input={} k={k}: unread input at script pause is not a suffix of what was fed", show(input)), rep.clone());
                return;
            }
            let (consumed, rest) = (spliced.0.as_str(), spliced.1.as_str());
            st.count("pauses_measured");
            if !consumed.ends_with('>') {
                st.violation("inject:pause-not-after-end-tag", &format!("input={} k={k}: consumed prefix {} does not end with '>'", show(input), show(consumed)), rep.clone());
                return;
            }
            let whole = format!("{consumed}{inj}{rest}");
            match tree_result(&[whole.clone()], opts, None) {
                Err(_) => st.count("reference_panicked"),
                Ok(r) => {
                    if r.dump != dump {
                        st.violation(
                            "inject:tree-differs",
                            &format!("input={} cuts={cuts:?} k={k} inject={} {}: {}", show(input), show(inj), opts.describe(), dump_diff(&r.dump, &dump)),
                            rep,
                        );
                    }
                },
            }
        },
    }
}

// ---------------------------------------------------------------------------------------------

fn enum_cases() -> Vec<TokCase> {
    let mut v = Vec::new();
    for (start, last, prefix, _name) in gen::state_prefixes() {
        for c1 in gen::CLASS_CHARS {
            for suf in gen::SUFFIXES {
                v.push(TokCase {
                    input: format!("{prefix}{c1}{suf}"),
                    start,
                    last_tag: last.map(|s| s.to_string()),
                    exact_errors: false,
                    discard_bom: true,
                    policy: Policy::TreeBuilderLike,
                });
            }
        }
    }
    v
}

fn targeted_inputs() -> Vec<&'static str> {
    vec![
        "a\u{feff}b", "\u{feff}a", "\u{feff}\u{feff}a", "a\r\nb", "\r\n", "\r", "<!DOCTYPE html\r\nPUBLIC \"x\"><b>", "<!DOCTYPE html\rPUBLIC \"x\">\n<b>",
        "<!\r\n--x-->", "<!\r--x-->", "<!DOCTYPE a\rSYSTEM 'x'>", "<!doc\rtype>", "<a x=\r\n\"v\">\n<b>", "<pre>\r\nx</pre>", "<pre>\nx", "<textarea>\r\n\r\nx</textarea>",
        "<script>a</script>b", "<script>a</scr\nipt>", "&am\r\np;", "&amp\r\nx", "&#\r\n1;", "&#x\r4;", "x&notit;y", "&notin\r\n;", "<svg><![CDATA[a\r\nb]]\r>]]></svg>",
        "<!DOCTYPE a\r\n\n>\n<b>", "<!DOCTYPE a\r\n\nPUBLIC 'x'>\n<b>", "<!DOCTYPE a\rPUB\nLIC>\n<b>", "<!DOCTYPE a\rsys\n\ntem>\n<b>", "<!\r\n\n--x-->\n<b>", "<!-\n-x-->\n<b>", "<svg><![CD\n\nATA[x]]>\n<b>", "<!DOC\r\n\nTYPE a>\n<b>",
        "<a x=\r \n'v'>\n<b>", "<a x=\r\n\n'v'>\n<b>", "&#13;\n<b>", "&#xd\n\n<b>", "<a b=&#13;\n>\n<b>",
        "<![CD\rATA[x]]>", "<title>a</tit\rle></title>", "<!--a\r\n-\r\n-\r\n>-->", "<a\r\nb\r\n=\r\nc\r\n>", "<a b='\r\n'>", "</a\r\n>", "<a/\r\n>",
    ]
}

pub fn run(args: &Args) -> (Meta, Stats) {
    if let Some(p) = &args.replay {
        return replay(args, p);
    }
    let nt = nthreads();
    let seed = args.seed;
    let enumerated = enum_cases();
    let quick = args.quick();
    let deadline_tok = args.phase_deadline(0.35);
    let deadline_tree = args.phase_deadline(0.85);
    let deadline_inj = args.deadline();
    let contexts = gen::fragment_contexts();
    let st = par_run(nt, |shard, nshards, st| {
        let mut rng = Rng::new(mix(seed, shard as u64));
        // phase 1: enumerated single transitions (complete regardless of seed)
        for (i, c) in enumerated.iter().enumerate() {
            if i % nshards != shard {
                continue;
            }
            check_tok_case(c, &mut rng, st, if quick { 0 } else { 9 });
            st.count("enumerated_cases");
        }
        // targeted inputs with all partitions (n <= 12) under several option sets
        for (i, t) in targeted_inputs().iter().enumerate() {
            if i % nshards != shard {
                continue;
            }
            for (ee, bom) in [(false, true), (true, true), (false, false)] {
                let c = TokCase { input: t.to_string(), start: StartState::Data, last_tag: None, exact_errors: ee, discard_bom: bom, policy: Policy::TreeBuilderLike };
                check_tok_case(&c, &mut rng, st, 12);
                st.count("targeted_cases");
            }
        }
        // phase 2: random token soup
        let mut k = 0u64;
        while !expired(deadline_tok) {
            k += 1;
            if k % 150 == 0 {
                let c = TokCase { input: crate::big::big_html(&mut rng), start: StartState::Data, last_tag: None, exact_errors: rng.chance(1, 4), discard_bom: true, policy: Policy::TreeBuilderLike };
                check_tok_case_big(&c, &mut rng, st);
                st.count("scaled_up_cases");
                continue;
            }
            let mut input = gen::tok_soup(&mut rng, 8);
            if input.chars().count() > 160 {
                continue;
            }
            // one case in four: line breaks dropped at random places (inside look-ahead keywords, after `=`, inside
            // references ...) and a line-numbered token at the end, so that a break lost or counted twice around a
            // suspension shows in the lines that follow
            if k % 4 == 1 {
                let mut chars: Vec<char> = input.chars().collect();
                for _ in 0..rng.range(1, 4) {
                    let at = rng.below(chars.len() + 1);
                    for (i, ch) in rng.pick_s(&["\r", "\n", "\r\n", "\r\n\n", "\n\n", "\r\r\n", "\r \n", "\r\t\n"]).chars().enumerate() {
                        chars.insert(at + i, ch);
                    }
                }
                input = chars.into_iter().collect();
                input.push_str("\n<b>");
                st.count("soup_cases_with_sprinkled_line_breaks");
            }
            let start = if rng.chance(1, 3) { *rng.pick(&gen::START_STATES) } else { StartState::Data };
            let last_tag = if start != StartState::Data { Some(rng.pick(&["title", "script", "style", "xmp", "textarea"]).to_string()) } else { None };
            let policy = match rng.below(6) {
                0 => Policy::Hashed { salt: rng.next_u64(), foreign_salt: rng.next_u64() },
                1 => Policy::Const { start: *rng.pick(&crate::tokrec::ALL_ANSWERS), end: crate::tokrec::Answer::Continue, foreign: rng.chance(1, 2) },
                _ => Policy::TreeBuilderLike,
            };
            let c = TokCase { input, start, last_tag, exact_errors: rng.chance(1, 4), discard_bom: !rng.chance(1, 5), policy };
            check_tok_case(&c, &mut rng, st, 0);
            st.count("soup_cases");
        }
        let _ = k;
        // phase 3: full parser
        while !expired(deadline_tree) {
            let input = if rng.chance(1, 5) { gen::tok_soup(&mut rng, 8) } else { gen::html_doc(&mut rng, &[], 14) };
            if input.chars().count() > 400 {
                continue;
            }
            let mut opts = HtmlOpts::default();
            opts.scripting = !rng.chance(1, 3);
            if rng.chance(1, 4) {
                opts.context = Some(rng.pick(&contexts).clone());
                opts.fragment_form = rng.chance(1, 4);
            }
            opts.tok.exact_errors = rng.chance(1, 6);
            opts.tok.discard_bom = !rng.chance(1, 8);
            let c = TreeCase { input, opts };
            check_tree_case(&c, &mut rng, st, if quick { 60 } else { 120 });
            st.count("tree_cases");
        }
        // phase 4: script pauses + injection
        while !expired(deadline_inj) {
            let mut input = String::new();
            let parts = rng.range(1, 4);
            for _ in 0..parts {
                match rng.below(5) {
                    0 => input.push_str(&gen::html_doc(&mut rng, &[], 6)),
                    1 => input.push_str(rng.pick_s(&["<script>a</script>", "<script>a</script >", "<script></script\n>", "<script></script x=y>", "<svg><script>s</script></svg>", "<script><!--</script>-->x</script>", "<script>a</script/>"])),
                    2 => input.push_str(rng.pick_s(&["\u{feff}", "\r\n", "\n", "x", "&amp;", "<p>", "</p>", "<table>", "<b>"])),
                    _ => input.push_str("<script>1</script>"),
                }
            }
            let mut opts = HtmlOpts::default();
            opts.scripting = !rng.chance(1, 4);
            if rng.chance(1, 6) {
                opts.context = Some(rng.pick(&contexts).clone());
                opts.fragment_form = rng.chance(1, 4);
            }
            check_injection(&input, &opts, &mut rng, st);
        }
    });
    let mut m = super::meta(
        args,
        "inputs: every (tokenizer state prefix x next-character class x suffix) combination, a targeted CR/BOM/look-ahead list, random markup soup and grammar-generated documents; \
         schedules per input: every 2-chunk split, all-1-character chunks, random partitions with empty chunks (all partitions for short inputs); \
         each chunked run of the real code is compared with its one-piece run (coalesced tokens incl. parse errors, line of every non-character token and of the end of each character run, \
         suspension sequence, final tree, quirks mode); script pauses: unread remainder measured and a string injected with push_front must parse as if spliced into the source. \
         A case is non-trivial when the one-piece run yields more than EOF plus one token (or a tree beyond the empty skeleton); distinct by hash of input+options.",
        &[
            "oracle is the real code on the unchunked input (metamorphic), so a defect that affects both runs equally is invisible here (C01/C02 cover that)",
            "character tokens may legitimately be split differently; only coalesced runs and the line at the end of each run are compared",
        ],
    );
    m.require = vec![
        ("enumerated_cases".into(), enumerated.len() as u64),
        ("tree_cases".into(), 200),
        ("injections_performed".into(), 50),
        ("scaled_up_cases".into(), 40),
        ("hidden_states_at_suspension".into(), 60),
    ];
    (m, st)
}

fn replay(args: &Args, path: &std::path::Path) -> (Meta, Stats) {
    let mut st = Stats::new();
    let v: Value = serde_json::from_str(&std::fs::read_to_string(path).unwrap_or_default()).unwrap_or(Value::Null);
    let cuts: Vec<usize> = v["cuts"].as_array().map(|a| a.iter().filter_map(|x| x.as_u64()).map(|x| x as usize).collect()).unwrap_or_default();
    let mut rng = Rng::new(1);
    match v["kind"].as_str().unwrap_or("") {
        "tok" => {
            let c = TokCase {
                input: v["input"].as_str().unwrap_or("").to_string(),
                start: parse_start_state(v["start"].as_str().unwrap_or("Data")),
                last_tag: v["last_tag"].as_str().map(|s| s.to_string()),
                exact_errors: v["exact_errors"].as_bool().unwrap_or(false),
                discard_bom: v["discard_bom"].as_bool().unwrap_or(true),
                policy: policy_from_json(&v["policy"]),
            };
            st.case(Some(1));
            if let Ok(r) = tok_reference(&c) {
                if let Some((sig, d)) = tok_compare(&c, &cuts, &r, &mut st) {
                    report_tok(&c, &cuts, &sig, &d, &mut st);
                }
            }
        },
        "tree" => {
            let c = TreeCase { input: v["input"].as_str().unwrap_or("").to_string(), opts: opts_from_json(&v["opts"]) };
            check_tree_case(&c, &mut rng, &mut st, 1000);
        },
        "inject" => {
            let input = v["input"].as_str().unwrap_or("").to_string();
            let opts = opts_from_json(&v["opts"]);
            let k = v["k"].as_u64().unwrap_or(1) as u32;
            let inj = v["inject"].as_str().unwrap_or("");
            st.case(Some(1));
            if let Ok(Some((dump, spliced, _))) = parse_with_injection(&input, &cuts, &opts, k, inj) {
                let (consumed, rest) = spliced;
                let whole = format!("{consumed}{inj}{rest}");
                if let Ok(r) = tree_result(&[whole], &opts, None) {
                    if r.dump != dump {
                        st.violation("inject:tree-differs", &dump_diff(&r.dump, &dump), v.clone());
                    }
                }
            }
        },
        _ => st.inconclusive("unrecognised replay file"),
    }
    let m = super::meta(args, "replay of one recorded case", &[]);
    (m, st)
}
