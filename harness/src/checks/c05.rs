//! C05 — tree builders honour the documented TreeSink calling contract (contract monitor in MSink).

use super::common::*;
use super::parse_common::*;
use crate::drive::*;
use crate::gen;
use crate::prng::{hash_str, mix, Rng};
use crate::report::{catch, nthreads, par_run, Meta, Stats};
use crate::xdrive::{run_xml_parse, XmlOpts};
use crate::Args;
use serde_json::{json, Value};

fn absorb(sink: &crate::msink::MSink, st: &mut Stats) -> Vec<(String, String)> {
    let i = sink.inner.borrow();
    for (k, v) in &i.calls {
        st.add(&format!("call:{k}"), *v);
    }
    for (k, v) in &i.checks {
        st.add(&format!("rule_evaluations:{k}"), *v);
    }
    st.add("handle_arguments_checked", i.handle_uses_checked);
    i.violations.clone()
}

pub fn check_html(input: &str, cuts: &[usize], opts: &HtmlOpts, st: &mut Stats) {
    let chunks = split_at_chars(input, cuts);
    let r = catch(|| run_html_parse(&chunks, opts, Gc::Off, false, &mut no_script));
    match r {
        Err(_) => st.count("run_panicked(C04's business)"),
        Ok(r) => {
            let nodes = r.sink.node_count();
            st.case(if nodes > 4 { Some(hash_str(&format!("{input}{}", opts.describe()))) } else { None });
            for (rule, detail) in absorb(&r.sink, st) {
                st.violation(
                    &format!("html:{rule}"),
                    &format!("input={} {}: {detail}", show(input), opts.describe()),
                    json!({"kind": "html", "input": input, "cuts": cuts, "opts": super::c03::html_opts_json(opts)}),
                );
            }
        },
    }
}

pub fn check_xml(input: &str, cuts: &[usize], st: &mut Stats) {
    let chunks = split_at_chars(input, cuts);
    let r = catch(|| run_xml_parse(&chunks, &XmlOpts::default(), false, false));
    match r {
        Err(_) => st.count("run_panicked(C04's business)"),
        Ok(r) => {
            let nodes = r.sink.node_count();
            st.case(if nodes > 2 { Some(hash_str(&format!("x{input}"))) } else { None });
            for (rule, detail) in absorb(&r.sink, st) {
                st.violation(&format!("xml:{rule}"), &format!("xml input={}: {detail}", show(input)), json!({"kind": "xml", "input": input, "cuts": cuts}));
            }
        },
    }
}

pub fn run(args: &Args) -> (Meta, Stats) {
    if let Some(p) = &args.replay {
        let mut st = Stats::new();
        let v: Value = serde_json::from_str(&std::fs::read_to_string(p).unwrap_or_default()).unwrap_or(Value::Null);
        let cuts: Vec<usize> = v["cuts"].as_array().map(|a| a.iter().filter_map(|x| x.as_u64()).map(|x| x as usize).collect()).unwrap_or_default();
        if v["kind"] == "xml" {
            check_xml(v["input"].as_str().unwrap_or(""), &cuts, &mut st);
        } else {
            check_html(v["input"].as_str().unwrap_or(""), &cuts, &super::c03::opts_from_json(&v["opts"]), &mut st);
        }
        return (super::meta(args, "replay of one recorded case", &[]), st);
    }
    let seed = args.seed;
    let contexts = gen::fragment_contexts();
    let deadline = args.deadline();
    let st = par_run(nthreads(), |shard, _n, st| {
        let mut rng = Rng::new(mix(seed ^ 0xC05, shard as u64));
        let mut k = 0u64;
        while !expired(deadline) {
            k += 1;
            if k % 40 == 7 {
                // scaled-up inputs: wide tags (duplicates at a distance), long runs, many siblings
                if rng.chance(1, 2) {
                    let input = crate::big::big_xml(&mut rng);
                    let cuts = crate::big::big_cuts(&mut rng, input.chars().count());
                    check_xml(&input, &cuts, st);
                    st.count("big_xml_runs");
                } else {
                    let input = crate::big::big_html(&mut rng);
                    let cuts = crate::big::big_cuts(&mut rng, input.chars().count());
                    check_html(&input, &cuts, &HtmlOpts::default(), st);
                    st.count("big_html_runs");
                }
                continue;
            }
            if k % 5 == 0 {
                let input = if rng.chance(1, 3) { gen::xml_ns_doc(&mut rng) } else { gen::xml_doc(&mut rng, 16) };
                let n = input.chars().count();
                let cuts = random_schedule(&mut rng, n);
                check_xml(&input, &cuts, st);
                st.count("xml_runs");
            } else {
                let (input, opts) = random_html_case(&mut rng, &contexts, &[], false);
                let n = input.chars().count();
                let cuts = if rng.chance(1, 3) { random_schedule(&mut rng, n) } else { vec![] };
                check_html(&input, &cuts, &opts, st);
                st.count(if opts.context.is_some() { "html_fragment_runs" } else { "html_document_runs" });
                if st.samples.len() < 2 && rng.chance(1, 300) {
                    st.sample(json!({"input": input, "opts": opts.describe()}));
                }
            }
        }
    });
    let mut m = super::meta(
        args,
        "every TreeSink call made by the HTML tree builder (documents and ~60 fragment contexts, both scripting settings) and the XML tree builder on grammar/soup/scenario inputs is validated by a monitoring sink against the contract documented in markup5ever/interface/tree_builder.rs before being applied to an abstract DOM: element-only operations get elements of the right kind, append's child has no parent, no insertion under self/descendant, insert-before reference is an attached non-text node, doctype once and before elements, no attribute list with a repeated QualName. Non-trivial = the parse created more than the skeleton's nodes; distinct by hash of input+options.",
        &["the contract is the documented one; nothing stricter is asserted (e.g. append_before_sibling may receive a node that still has a parent)"],
    );
    m.require = vec![
        ("call:append".into(), 10000),
        ("call:append_based:before_sibling".into(), 20),
        ("call:append_based_on_parent_node".into(), 50),
        ("call:reparent_children".into(), 50),
        ("call:add_attrs_if_missing".into(), 50),
        ("call:remove_from_parent".into(), 50),
        ("call:get_template_contents".into(), 50),
        ("call:associate_with_form".into(), 10),
        ("call:create_pi".into(), 10),
        ("call:append_doctype_to_document".into(), 50),
    ];
    (m, st)
}
