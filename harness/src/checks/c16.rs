//! C16 — XML namespaces resolve by lexical scope and lose no attribute.
//!
//! Oracle: an independent resolver. Element nesting is taken from the tree the sink built, the
//! raw (prefix, local, value) attribute lists from a tokenizer-only run of the same input; scope(E) =
//! declarations on E's own tag over scope(parent(E)).

use super::common::*;
use crate::gen;
use crate::msink::Kind;
use crate::prng::{hash_str, mix, Rng};
use crate::report::{catch, nthreads, par_run, Meta, Stats};
use crate::tree::{NS_XML, NS_XMLNS};
use crate::xdrive::{parse_xml_simple, run_xml_tokenizer, XName, XTok, XmlOpts};
use crate::Args;
use serde_json::{json, Value};
use std::collections::HashMap;

type Scope = HashMap<Option<String>, Option<String>>;

fn is_decl(n: &XName) -> bool {
    (n.prefix.is_none() && n.local == "xmlns") || n.prefix.as_deref() == Some("xmlns")
}

/// declarations of one tag applied over the parent's scope
fn extend_scope(parent: &Scope, attrs: &[(XName, String)], st: &mut Stats) -> Scope {
    let mut s = parent.clone();
    let mut seen: Vec<Option<String>> = vec![];
    for (n, v) in attrs {
        if !is_decl(n) {
            continue;
        }
        let key: Option<String> = if n.prefix.is_none() { None } else { Some(n.local.clone()) };
        // `xml` and `xmlns` are fixed
        if key.as_deref() == Some("xml") || key.as_deref() == Some("xmlns") {
            st.count("decl:fixed-prefix-ignored");
            continue;
        }
        // nothing may be bound to the xmlns namespace
        if v == NS_XMLNS {
            st.count("decl:xmlns-uri-ignored");
            continue;
        }
        if seen.contains(&key) {
            continue;
        }
        seen.push(key.clone());
        if v.is_empty() {
            st.count("decl:undeclare");
            s.insert(key, None);
        } else {
            st.count(if n.prefix.is_none() { "decl:default" } else { "decl:prefix" });
            s.insert(key, Some(v.clone()));
        }
    }
    s
}

fn lookup(scope: &Scope, prefix: &Option<String>, is_attr: bool) -> String {
    match prefix.as_deref() {
        Some("xml") => NS_XML.to_string(),
        Some("xmlns") => NS_XMLNS.to_string(),
        None if is_attr => String::new(),
        _ => scope.get(prefix).cloned().flatten().unwrap_or_default(),
    }
}

pub type TagSpec = (XName, Vec<(XName, String)>);

/// Returns the first problem found as (signature, description). `specs` = the start/empty tags of
/// the document as the generator wrote them (independent of the tokenizer); when None they are
/// taken from a tokenizer-only run (soup inputs, where no structure is known).
pub fn check_input(input: &str, specs: Option<&[TagSpec]>, st: &mut Stats) -> Option<(String, String)> {
    let run = catch(|| parse_xml_simple(input, &XmlOpts::default())).ok()?;
    check_sink(&run.sink, input, specs, st)
}

/// The oracle proper, over a sink filled by any front end (the XML tokenizer, or tokens handed to the
/// tree builder directly).
pub fn check_sink(sink: &crate::msink::MSink, input: &str, specs: Option<&[TagSpec]>, st: &mut Stats) -> Option<(String, String)> {
    let tok_tags: Vec<TagSpec>;
    let tags: Vec<(&XName, &Vec<(XName, String)>)> = match specs {
        Some(sp) => sp.iter().map(|t| (&t.0, &t.1)).collect(),
        None => {
            let toks = catch(|| run_xml_tokenizer(&[input.to_string()], &XmlOpts::default(), false)).ok()?;
            tok_tags = toks
                .raw
                .iter()
                .filter_map(|t| match t {
                    XTok::Tag { kind, name, attrs } if *kind == "start" || *kind == "empty" => Some((name.clone(), attrs.clone())),
                    _ => None,
                })
                .collect();
            tok_tags.iter().map(|t| (&t.0, &t.1)).collect()
        },
    };
    for (_, attrs) in &tags {
        let decls: Vec<&XName> = attrs.iter().map(|a| &a.0).filter(|n| is_decl(n)).collect();
        for (i, d) in decls.iter().enumerate() {
            if decls[..i].iter().any(|e| e.prefix == d.prefix && e.local == d.local) {
                st.count("skipped:same-prefix-declared-twice-in-one-tag");
                return None;
            }
        }
    }
    let inner = sink.inner.borrow();
    let elems = &inner.created_elems;
    if elems.len() > tags.len() {
        return Some(("alignment".into(), format!("{} elements created from {} start/empty tags", elems.len(), tags.len())));
    }
    st.add("elements_checked", elems.len() as u64);
    let mut scopes: HashMap<usize, Scope> = HashMap::new();
    for (k, &id) in elems.iter().enumerate() {
        let (tname, tattrs) = tags[k];
        if tattrs.len() >= 33 {
            st.count("tags_with_33_or_more_attributes");
        }
        let node = &inner.nodes[id];
        let h = &node.handle.name;
        // sanity of the alignment itself
        if *h.local != *tname.local || h.prefix.as_ref().map(|p| p.to_string()) != tname.prefix {
            return Some(("alignment".into(), format!("element #{k} is {:?} but tag #{k} is {:?}", h, tname)));
        }
        let parent_scope = match node.parent {
            Some(p) if matches!(inner.nodes[p].kind, Kind::Element { .. }) => scopes.get(&p).cloned().unwrap_or_default(),
            _ => Scope::new(),
        };
        let scope = extend_scope(&parent_scope, tattrs, st);
        // element name
        let want_ns = lookup(&scope, &tname.prefix, false);
        st.count(match (&tname.prefix, want_ns.is_empty()) {
            (None, true) => "elem:no-namespace",
            (None, false) => "elem:default-namespace",
            (Some(_), true) => "elem:unbound-prefix",
            (Some(_), false) => "elem:prefixed",
        });
        if *h.ns != want_ns {
            return Some((
                "element-namespace".into(),
                format!("element #{k} <{}{}> is in namespace {:?}, lexical scope says {:?}", tname.prefix.as_ref().map(|p| format!("{p}:")).unwrap_or_default(), tname.local, &*h.ns, want_ns),
            ));
        }
        // attributes
        let got: Vec<(Option<String>, String, String, String)> = match &node.kind {
            Kind::Element { attrs, .. } => attrs
                .iter()
                .map(|(q, v)| (q.prefix.as_ref().map(|p| p.to_string()), q.ns.to_string(), q.local.to_string(), v.clone()))
                .collect(),
            _ => vec![],
        };
        // declarations may be kept or dropped, anywhere in the list: take them out first
        let mut got = got;
        for (an, av) in tattrs.iter().filter(|a| is_decl(&a.0)) {
            if let Some(pos) = got.iter().position(|g| g.0 == an.prefix && g.2 == an.local && g.3 == *av) {
                got.remove(pos);
            }
        }
        let mut used = vec![false; got.len()];
        let mut seen_expanded: Vec<(String, String)> = vec![];
        for (an, av) in tattrs.iter() {
            if is_decl(an) {
                continue;
            }
            let want = lookup(&scope, &an.prefix, true);
            let expanded = (want.clone(), an.local.clone());
            st.count(match (&an.prefix, want.is_empty()) {
                (None, _) => "attr:unprefixed",
                (Some(_), true) => "attr:unbound-prefix",
                (Some(_), false) => "attr:prefixed",
            });
            // attribute order is not part of the property: match by name and value
            let found = (0..got.len()).find(|&g| !used[g] && got[g].0 == an.prefix && got[g].2 == an.local && got[g].3 == *av);
            match found {
                Some(g) => {
                    used[g] = true;
                    if got[g].1 != want {
                        return Some((
                            "attribute-namespace".into(),
                            format!("attribute {:?}:{} of element #{k} <{}> is in namespace {:?}, lexical scope says {:?}", an.prefix, an.local, tname.local, got[g].1, want),
                        ));
                    }
                },
                None if seen_expanded.contains(&expanded) => st.count("attr:dropped-as-duplicate-expanded-name"),
                None => {
                    return Some((
                        "attribute-lost".into(),
                        format!("attribute {}{}={:?} of element #{k} <{}> is missing although no earlier attribute has its expanded name", an.prefix.as_ref().map(|p| format!("{p}:")).unwrap_or_default(), an.local, av, tname.local),
                    ));
                },
            }
            seen_expanded.push(expanded);
        }
        if let Some(g) = used.iter().position(|u| !u) {
            return Some(("attribute-extra".into(), format!("element #{k} <{}> carries an attribute not in its tag: {:?}", tname.local, got[g])));
        }
        scopes.insert(id, scope);
    }
    None
}

// ---------------------------------------------------------------------------------------------
// structured generator: the document text together with its start/empty tags as written

#[derive(Clone, Debug)]
struct GAttr {
    prefix: Option<String>,
    local: String,
    src: &'static str,
    val: &'static str,
}

#[derive(Clone, Debug)]
enum GNode {
    Elem { prefix: Option<String>, local: String, attrs: Vec<GAttr>, kids: Vec<GNode>, empty: bool, end: u8 /* 0 normal, 1 short </>, 2 omitted */ },
    Raw(&'static str),
}

const VALUES: &[(&str, &str)] = &[("1", "1"), ("2", "2"), ("a&amp;b", "a&b"), ("&lt;", "<"), ("'", "'"), ("&quot;", "\""), ("é", "é"), ("a b", "a b"), ("&#10;", "\n"), ("&#9;", "\t"), ("", "")];
const URIS: &[(&str, &str)] = &[("u", "u"), ("v", "v"), ("w", "w"), ("", ""), ("u1", "u1"), ("u2", "u2"), ("a", "a"), ("b", "b"), (" u", " u"), ("u ", "u "), ("http://www.w3.org/XML/1998/namespace", "http://www.w3.org/XML/1998/namespace"), ("a&amp;b", "a&b"),
    // near misses of the two reserved names: namespace names are opaque strings, so a different case, a missing or extra
    // slash, or white space around one is an ordinary URI; and names made of white space only
    ("HTTP://WWW.W3.ORG/2000/xmlns/", "HTTP://WWW.W3.ORG/2000/xmlns/"), ("http://www.w3.org/2000/XMLNS/", "http://www.w3.org/2000/XMLNS/"), ("http://www.w3.org/2000/xmlns", "http://www.w3.org/2000/xmlns"), ("http://www.w3.org/2000/xmlns/ ", "http://www.w3.org/2000/xmlns/ "),
    ("http://www.w3.org/XML/1998/NAMESPACE", "http://www.w3.org/XML/1998/NAMESPACE"), ("http://www.w3.org/xml/1998/namespace", "http://www.w3.org/xml/1998/namespace"), ("http://www.w3.org/XML/1998/namespace/", "http://www.w3.org/XML/1998/namespace/"),
    (" ", " "), ("&#x20;&#x20;", "  "), ("\u{a0}", "\u{a0}"), ("&#9;", "\t"), ("U", "U"), ("V", "V")];

fn gen_elem(rng: &mut Rng, depth: usize, budget: &mut usize) -> GNode {
    *budget = budget.saturating_sub(1);
    let prefixes = ["", "", "p", "q", "r", "xml", "xmlns"];
    let p = *rng.pick(&prefixes);
    let local = *rng.pick(&["a", "b", "c", "script", "d"]);
    let mut attrs: Vec<GAttr> = vec![];
    let mut names: Vec<String> = vec![];
    let nd = [0, 0, 1, 1, 2, 3][rng.below(6)];
    for _ in 0..nd {
        let (pre, loc) = if rng.chance(1, 3) { (None, "xmlns".to_string()) } else { (Some("xmlns".to_string()), rng.pick(&["p", "q", "r", "xml", "xmlns"]).to_string()) };
        let raw = format!("{:?}:{loc}", pre);
        if names.contains(&raw) {
            continue;
        }
        names.push(raw);
        let (src, val) = *rng.pick(URIS);
        attrs.push(GAttr { prefix: pre, local: loc, src, val });
    }
    // one element in 25 is wide: dozens of attributes (look-back windows, hashing, reallocation)
    let wide = rng.chance(1, 25);
    const WIDE_LOCALS: [&str; 48] = ["w0", "w1", "w2", "w3", "w4", "w5", "w6", "w7", "w8", "w9", "w10", "w11", "w12", "w13", "w14", "w15", "w16", "w17", "w18", "w19", "w20", "w21", "w22", "w23", "w24", "w25", "w26", "w27", "w28", "w29", "w30", "w31", "w32", "w33", "w34", "w35", "w36", "w37", "w38", "w39", "w40", "w41", "w42", "w43", "w44", "w45", "w46", "w47"];
    let na = if wide { rng.range(20, 90) } else { [0, 0, 1, 2, 3, 4][rng.below(6)] };
    if wide {
        *budget = budget.saturating_sub(3);
    }
    for _ in 0..na {
        let ap = *rng.pick(&["", "", "p", "q", "r", "xml"]);
        let al = if wide && !rng.chance(1, 8) { *rng.pick(&WIDE_LOCALS) } else { *rng.pick(&["x", "y", "z", "xmlns", "lang", "p", "q", "X", "Y", "Z", "xo", "xP", "y1", "Z0"]) };
        if ap.is_empty() && al == "xmlns" {
            continue;
        }
        let pre = if ap.is_empty() { None } else { Some(ap.to_string()) };
        let raw = format!("{:?}:{al}", pre);
        if names.contains(&raw) {
            continue;
        }
        names.push(raw);
        let (src, val) = *rng.pick(VALUES);
        attrs.push(GAttr { prefix: pre, local: al.to_string(), src, val });
    }
    rng.shuffle(&mut attrs);
    let empty = rng.chance(1, 5);
    let mut kids = vec![];
    if !empty && depth < 5 {
        let n = [0, 1, 1, 2, 3][rng.below(5)];
        for _ in 0..n {
            if *budget == 0 {
                break;
            }
            match rng.below(6) {
                0 => kids.push(GNode::Raw(rng.pick_s(&["t", "a&amp;b", "&lt;x&gt;", " ", "é", "x\ny"]))),
                1 => kids.push(GNode::Raw(rng.pick_s(&["<!-- c -->", "<?pi d?>", "<![CDATA[<&>]]>"]))),
                _ => kids.push(gen_elem(rng, depth + 1, budget)),
            }
        }
    }
    let end = match rng.below(12) {
        0 => 1,
        1 => 2,
        _ => 0,
    };
    GNode::Elem { prefix: if p.is_empty() { None } else { Some(p.to_string()) }, local: local.to_string(), attrs, kids, empty, end }
}

fn render(n: &GNode, out: &mut String, specs: &mut Vec<TagSpec>, rng: Option<&mut Rng>) {
    match n {
        GNode::Raw(s) => out.push_str(s),
        GNode::Elem { prefix, local, attrs, kids, empty, end } => {
            let name = match prefix {
                Some(p) => format!("{p}:{local}"),
                None => local.clone(),
            };
            out.push('<');
            out.push_str(&name);
            let mut attrs = attrs.clone();
            let mut rng = rng;
            if let Some(r) = rng.as_deref_mut() {
                r.shuffle(&mut attrs);
            }
            for a in &attrs {
                out.push(' ');
                if let Some(p) = &a.prefix {
                    out.push_str(p);
                    out.push(':');
                }
                out.push_str(&a.local);
                out.push_str("=\"");
                out.push_str(a.src);
                out.push('"');
            }
            specs.push((
                XName { prefix: prefix.clone(), ns: String::new(), local: local.clone() },
                attrs.iter().map(|a| (XName { prefix: a.prefix.clone(), ns: String::new(), local: a.local.clone() }, a.val.to_string())).collect(),
            ));
            if *empty {
                out.push_str("/>");
                return;
            }
            out.push('>');
            for k in kids {
                render(k, out, specs, rng.as_deref_mut());
            }
            match end {
                1 => out.push_str("</>"),
                2 => {},
                _ => {
                    out.push_str("</");
                    out.push_str(&name);
                    out.push('>');
                },
            }
        },
    }
}

/// summary of (element ns, sorted attr expanded names) used to compare permutations
fn shape(input: &str) -> Option<Vec<(String, String, Vec<(String, String)>)>> {
    let run = catch(|| parse_xml_simple(input, &XmlOpts::default())).ok()?;
    let inner = run.sink.inner.borrow();
    let mut v = vec![];
    for &id in &inner.created_elems {
        let n = &inner.nodes[id];
        if let Kind::Element { attrs, .. } = &n.kind {
            let mut a: Vec<(String, String)> = attrs.iter().map(|(q, _)| (q.ns.to_string(), q.local.to_string())).collect();
            a.sort();
            a.dedup();
            v.push((n.handle.name.ns.to_string(), n.handle.name.local.to_string(), a));
        }
    }
    Some(v)
}

fn check_doc(doc: &GNode, rng: &mut Rng, st: &mut Stats) {
    let mut input = String::new();
    let mut specs = vec![];
    render(doc, &mut input, &mut specs, None);
    st.case(if input.contains("xmlns") { Some(hash_str(&input)) } else { None });
    if let Some((sig, d)) = check_input(&input, Some(&specs), st) {
        st.violation(&sig, &format!("xml input={}: {d}", show(&input)), json!({"input": input}));
        return;
    }
    if st.samples.len() < 2 && rng.chance(1, 400) {
        st.sample(json!({"input": input}));
    }
    // the same document as tokens
    if rng.chance(1, 3) {
        check_doc_as_tokens(doc, &input, &specs, st);
    }
    // attribute order must not matter
    let mut p = String::new();
    let mut pspecs = vec![];
    render(doc, &mut p, &mut pspecs, Some(rng));
    if p != input {
        st.count("permutation_runs");
        if let (Some(a), Some(b)) = (shape(&input), shape(&p)) {
            if a != b {
                st.violation("order-dependent", &format!("xml input={} vs attribute-permuted {}: element namespaces / attribute expanded names differ", show(&input), show(&p)), json!({"input": input, "permuted": p}));
                return;
            }
        }
        if let Some((sig, d)) = check_input(&p, Some(&pspecs), st) {
            st.violation(&sig, &format!("xml input={}: {d}", show(&p)), json!({"input": p}));
        }
    }
}

/// The tree builder is a public TokenSink: hand it the document as tokens, attributes in the order
/// the generator wrote them (the bundled tokenizer happens to move xmlns attributes to the front,
/// another tokenizer need not). The same oracle applies.
fn tokens_of(n: &GNode, out: &mut Vec<xml5ever::tokenizer::Token>) {
    use xml5ever::tokenizer::{Tag, TagKind, Token};
    use xml5ever::{Attribute, LocalName, Prefix, QualName};
    let q = |prefix: &Option<String>, local: &str| QualName::new(prefix.as_ref().map(|p| Prefix::from(p.as_str())), xml5ever::ns!(), LocalName::from(local));
    match n {
        GNode::Raw(s) => {
            if !s.starts_with('<') && !s.contains('&') {
                out.push(Token::Characters(xml5ever::tendril::StrTendril::from_slice(s)));
            }
        },
        GNode::Elem { prefix, local, attrs, kids, empty, end } => {
            let name = q(prefix, local);
            let attrs: Vec<Attribute> = attrs.iter().map(|a| Attribute { name: q(&a.prefix, &a.local), value: xml5ever::tendril::StrTendril::from_slice(a.val) }).collect();
            out.push(Token::Tag(Tag { kind: if *empty { TagKind::EmptyTag } else { TagKind::StartTag }, name: name.clone(), attrs }));
            if *empty {
                return;
            }
            for k in kids {
                tokens_of(k, out);
            }
            match end {
                1 => out.push(Token::Tag(Tag { kind: TagKind::ShortTag, name: q(&None, ""), attrs: vec![] })),
                2 => {},
                _ => out.push(Token::Tag(Tag { kind: TagKind::EndTag, name, attrs: vec![] })),
            }
        },
    }
}

fn check_doc_as_tokens(doc: &GNode, input: &str, specs: &[TagSpec], st: &mut Stats) {
    use xml5ever::tokenizer::{Token, TokenSink};
    let mut toks = vec![];
    tokens_of(doc, &mut toks);
    toks.push(Token::EndOfFile);
    let r = catch(|| {
        let tb = xml5ever::tree_builder::XmlTreeBuilder::new(crate::msink::MSink::new(), Default::default());
        for t in toks {
            let _ = tb.process_token(t);
        }
        tb.end();
        tb.sink
    });
    let Ok(sink) = r else {
        st.count("token_fed_runs_that_panicked(C04's business)");
        return;
    };
    st.count("token_fed_runs");
    if let Some((sig, d)) = check_sink(&sink, input, Some(specs), st) {
        st.violation(&format!("tokens:{sig}"), &format!("the tags of {} handed to XmlTreeBuilder::process_token directly (attributes in source order): {d}", show(input)), json!({"input": input, "note": "replay re-parses the text; the token-fed run is regenerated from the seed"}));
    }
}

fn check_text(input: &str, st: &mut Stats) {
    st.case(if input.contains("xmlns") { Some(hash_str(input)) } else { None });
    if let Some((sig, d)) = check_input(input, None, st) {
        let min = minimize_str(input, &mut |s| check_input(s, None, &mut Stats::new()).map(|x| x.0) == Some(sig.clone()), 300);
        let d2 = check_input(&min, None, &mut Stats::new()).map(|x| x.1).unwrap_or(d.clone());
        st.violation(&format!("soup:{sig}"), &format!("xml input={}: {d2} (original {}: {d})", show(&min), show(input)), json!({"input": min, "original": input}));
    }
}

fn targeted() -> Vec<&'static str> {
    vec![
        "<r xmlns:p=\"u\" p:xmlns=\"v\" q=\"1\"/>",
        "<r xmlns=\"u\"><a/><b xmlns=\"\"><c/></b><d/></r>",
        "<r><p:a xmlns:p=\"u\"/><p:b/></r>",
        "<r xmlns:p=\"u\"><a xmlns:p=\"\"><p:b/></a><p:c/></r>",
        "<r xmlns:p=\"u\"><a xmlns:p=\"v\"><p:b p:x=\"1\"/></a><p:c p:x=\"2\"/></r>",
        "<p:r xmlns:p=\"u\" p:a=\"1\" xmlns:q=\"u\" q:a=\"2\"/>",
        "<r xmlns:q=\"u\" q:a=\"2\" xmlns:p=\"u\" p:a=\"1\"/>",
        "<r xml:lang=\"en\" xmlns:xml=\"v\"><xml:a/></r>",
        "<r xmlns:xmlns=\"v\"><xmlns:a/></r>",
        "<r><script xmlns=\"u\"/><a/></r>",
        "<r><p:script xmlns:p=\"u\"/><p:a/></r>",
        "<r><script xmlns:p=\"u\"></script><p:a/></r>",
        "<r><a xmlns:p=\"u\"><b><c></a><p:d/></r>",
        "<r><a xmlns:p=\"u\"><b xmlns:q=\"v\"></><q:c/></a><p:d/></r>",
        "<r><a xmlns=\"u\"><b></r><c/>",
        "<r xmlns=\"u\" a=\"1\"><s a=\"2\" xmlns=\"v\"/></r>",
        "<q:r q:a=\"1\"/>",
        "<r a=\"1\" q:a=\"2\"/>",
        "<r p:x=\"1\" x=\"2\"/>",
        "<r xmlns:r=\"u\" r=\"1\"/>",
        "<r xmlns:p=\"http://www.w3.org/2000/xmlns/\"><p:a/></r>",
        "<r xmlns=\"u\"></r xmlns=\"v\"><a/>",
        "<r><a xmlns:p=\"u\"/></a xmlns:p=\"v\"><p:b/></r>",
    ]
}

pub fn run(args: &Args) -> (Meta, Stats) {
    if let Some(p) = &args.replay {
        let mut st = Stats::new();
        let v: Value = serde_json::from_str(&std::fs::read_to_string(p).unwrap_or_default()).unwrap_or(Value::Null);
        let input = v["input"].as_str().unwrap_or("");
        if input.len() > 20000 {
            // the deep document: no minimisation (each probe costs seconds)
            st.case(Some(hash_str(input)));
            if let Some((sig, d)) = check_input(input, None, &mut st) {
                st.violation(&format!("deep:{sig}"), &d, v.clone());
            }
        } else {
            check_text(input, &mut st);
        }
        st.distinct.insert(1);
        st.distinct.insert(2);
        return (super::meta(args, "replay of one recorded case (attribute lists taken from a tokenizer-only run)", &[]), st);
    }
    let seed = args.seed;
    let deadline = args.deadline();
    let st = par_run(nthreads(), |shard, nshards, st| {
        let mut rng = Rng::new(mix(seed ^ 0xC16, shard as u64));
        for (i, t) in targeted().iter().enumerate() {
            if i % nshards == shard {
                check_text(t, st);
                st.count("targeted_cases");
            }
        }
        if shard == nshards.min(2) - 1 {
            // one very deep document (more than 2^16 open elements between a declaration and its use):
            // scope bookkeeping kept in a narrower integer would wrap here
            let depth = 65536 + (seed % 2) as usize;
            let mut deep = String::from("<r xmlns:p=\"u\" xmlns=\"d\">");
            deep.push_str(&"<a>".repeat(depth));
            // closing elements 65535, 65536 and 65537 levels below the declaring one, then using its bindings
            deep.push_str("<b></b></a></a></a><p:x p:k=\"1\"/><y/>");
            // (the tags are given to the oracle directly; no second, tokenizer-only pass over 200 KB)
            let xn = |p: Option<&str>, l: &str| XName { prefix: p.map(|s| s.to_string()), ns: String::new(), local: l.to_string() };
            let mut specs: Vec<TagSpec> = vec![(xn(None, "r"), vec![(xn(Some("xmlns"), "p"), "u".to_string()), (xn(None, "xmlns"), "d".to_string())])];
            specs.extend(std::iter::repeat((xn(None, "a"), vec![])).take(depth));
            specs.push((xn(None, "b"), vec![]));
            specs.push((xn(Some("p"), "x"), vec![(xn(Some("p"), "k"), "1".to_string())]));
            specs.push((xn(None, "y"), vec![]));
            if let Some((sig, d)) = check_input(&deep, Some(&specs), st) {
                st.violation(&format!("deep:{sig}"), &format!("<r xmlns:p=\"u\" xmlns=\"d\"> + {depth} x <a> + <b></b></a></a></a><p:x p:k=\"1\"/><y/>: {d}"), json!({"input": deep}));
            }
            st.count("deep_documents(65535+ open elements)");
        }
        while !expired(deadline) {
            let mut budget = rng.range(1, 14);
            let doc = gen_elem(&mut rng, 0, &mut budget);
            check_doc(&doc, &mut rng, st);
            st.count("shape_cases");
            if rng.chance(1, 6) {
                let soup = gen::xml_doc(&mut rng, 10);
                check_text(&soup, st);
                st.count("soup_cases");
            }
            if rng.chance(1, 60) {
                // scaled-up documents: wide tags with lexical and resolved duplicates at a distance, deep
                // namespace scopes, long URIs (attribute lists from the tokenizer, signatures soup:...)
                let big = crate::big::big_xml(&mut rng);
                check_text(&big, st);
                st.count("big_xml_cases");
            }
        }
    });
    let mut m = super::meta(
        args,
        "namespace-shape documents generated together with their tag/attribute lists (nested elements with xmlns / xmlns:p declarations, un-declarations, shadowing, unbound prefixes, xml/xmlns prefixes, the special-cased <script/>, empty and short tags, omitted end tags so one end tag pops several elements, attribute names that collide only by local name or only after resolution, shuffled attribute order; one element in 25 carries 20-90 attributes) plus XML soup and scaled-up documents (wide tags with duplicates 31-33 or more positions apart, 100-deep namespace scopes). For every element the sink receives, an independent resolver computes the namespace of the element and of each attribute from the declarations on the element's own tag (as the generator wrote it, not as the tokenizer reported it) over the scope of its parent in the built tree; a non-declaration attribute may be missing only if an earlier attribute of the same tag has the same expanded name; the same documents are also handed to the tree builder as tokens (it is a public TokenSink) with the attributes in source order, xmlns declarations not moved to the front; attribute-permuted renderings must give the same element namespaces and attribute expanded names. Non-trivial = the input contains a declaration; distinct by input hash.",
        &[
            "nesting is read from the tree the builder produced, so the oracle shares none of its push/pop bookkeeping; a wrong nesting itself is outside C16",
            "declarations that try to rebind xml/xmlns or bind a prefix to the xmlns namespace are treated as ignored; a tag never declares the same prefix twice (not well-formed, outcome undefined)",
            "for soup inputs the raw attribute lists come from a tokenizer-only run (signatures prefixed soup:)",
        ],
    );
    m.require = vec![
        ("shape_cases".into(), 5000),
        ("elements_checked".into(), 20000),
        ("decl:undeclare".into(), 200),
        ("elem:unbound-prefix".into(), 200),
        ("attr:prefixed".into(), 500),
        ("permutation_runs".into(), 500),
        ("tags_with_33_or_more_attributes".into(), 100),
        ("token_fed_runs".into(), 1000),
        ("deep_documents(65535+ open elements)".into(), 1),
    ];
    (m, st)
}
