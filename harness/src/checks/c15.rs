//! C15 — XML5 parse result is independent of chunking and diagnostic options; CR/NUL normalised on
//! every path (metamorphic: real code vs itself, and vs itself on the pre-normalised source).

use super::common::*;
use crate::drive::split_at_chars;
use crate::gen;
use crate::prng::{hash_str, mix, Rng};
use crate::report::{catch, nthreads, par_run, Meta, Stats};
use crate::tree::dump_xml;
use crate::xdrive::{run_xml_parse, run_xml_tokenizer, xcoalesce, XTok, XmlOpts};
use crate::Args;
use serde_json::{json, Value};

pub fn normalise(s: &str) -> String {
    let mut out = String::with_capacity(s.len());
    let mut it = s.chars().peekable();
    while let Some(c) = it.next() {
        match c {
            '\r' => {
                out.push('\n');
                if it.peek() == Some(&'\n') {
                    it.next();
                }
            },
            '\0' => out.push('\u{fffd}'),
            c => out.push(c),
        }
    }
    out
}

struct Res {
    toks: Vec<XTok>,
    dump: String,
}

fn result(input: &str, cuts: &[usize], o: &XmlOpts, st: Option<&mut Stats>) -> Result<Res, String> {
    let chunks = split_at_chars(input, cuts);
    let t = catch(|| run_xml_tokenizer(&chunks, o, true))?;
    if let Some(st) = st {
        for s in &t.suspend_states {
            st.observe("hidden_states_at_suspension", s);
        }
    }
    if t.leftover_after_done {
        return Err("feed() returned Done with unread input".into());
    }
    let p = catch(|| run_xml_parse(&chunks, o, false, false))?;
    Ok(Res { toks: xcoalesce(&t.raw, false), dump: dump_xml(&p.sink.document_tree()) })
}

fn tokdiff(a: &[XTok], b: &[XTok]) -> String {
    let i = a.iter().zip(b.iter()).position(|(x, y)| x != y).unwrap_or(a.len().min(b.len()));
    format!("token #{i}: {:?} vs {:?}", a.get(i), b.get(i))
}

/// classify what kind of character is involved, so that different root causes get different
/// signatures
fn char_class_sig(input: &str) -> &'static str {
    if input.contains('\0') {
        "nul"
    } else if input.contains('\r') {
        "cr"
    } else if input.contains('\u{feff}') {
        "bom"
    } else {
        "plain"
    }
}

fn check(input: &str, rng: &mut Rng, st: &mut Stats, exhaustive_two: bool) {
    let n = input.chars().count();
    let base = XmlOpts::default();
    let reference = match result(input, &[], &base, None) {
        Ok(r) => r,
        Err(m) => {
            st.count("reference_panicked");
            st.violation(&format!("panic:{}", crate::report::panic_signature(&m)), &format!("xml input={}: the one-piece default parse panicked: {m}", show(input)), json!({"kind": "panic", "input": input}));
            return;
        },
    };
    st.case(if reference.toks.len() > 2 { Some(hash_str(input)) } else { None });
    if st.samples.len() < 2 && reference.toks.len() > 5 && rng.chance(1, 40) {
        st.sample(json!({"input": input, "one_piece_tree": reference.dump}));
    }
    let cls = char_class_sig(input);
    // (a) pre-normalised source
    if input.contains('\r') || input.contains('\0') {
        st.count("normalisation_cases");
        let norm = normalise(input);
        if let Ok(r) = result(&norm, &[], &base, None) {
            let rep = json!({"kind": "normalise", "input": input});
            if r.toks != reference.toks {
                st.violation(&format!("normalise:tokens:{cls}"), &format!("xml input={} vs its CR/NUL-normalised form: {}", show(input), tokdiff(&reference.toks, &r.toks)), rep);
            } else if r.dump != reference.dump {
                st.violation(&format!("normalise:tree:{cls}"), &format!("xml input={} vs normalised: {}", show(input), dump_diff(&reference.dump, &r.dump)), rep);
            }
        }
    }
    // (b) exact_errors, one piece
    {
        let mut o = base;
        o.exact_errors = true;
        st.count("exact_errors_cases");
        if let Ok(r) = result(input, &[], &o, None) {
            let rep = json!({"kind": "exact", "input": input});
            if r.toks != reference.toks {
                st.violation(&format!("exact_errors:tokens:{cls}"), &format!("xml input={}: default vs exact_errors: {}", show(input), tokdiff(&reference.toks, &r.toks)), rep);
            } else if r.dump != reference.dump {
                st.violation(&format!("exact_errors:tree:{cls}"), &format!("xml input={}: {}", show(input), dump_diff(&reference.dump, &r.dump)), rep);
            }
        }
    }
    // (b') profile: a diagnostic option too (it makes the library print timing tables, nothing else)
    {
        let mut o = base;
        o.profile = true;
        st.count("profile_cases");
        if let Ok(r) = result(input, &[], &o, None) {
            let rep = json!({"kind": "profile", "input": input});
            if r.toks != reference.toks {
                st.violation(&format!("profile:tokens:{cls}"), &format!("xml input={}: default vs profile: {}", show(input), tokdiff(&reference.toks, &r.toks)), rep);
            } else if r.dump != reference.dump {
                st.violation(&format!("profile:tree:{cls}"), &format!("xml input={}: default vs profile: {}", show(input), dump_diff(&reference.dump, &r.dump)), rep);
            }
        }
    }
    // (c) schedules
    let mut schedules: Vec<Vec<usize>> = vec![];
    if exhaustive_two || n <= 40 {
        schedules.extend(gen::two_chunk_cuts(n));
    } else {
        for _ in 0..10 {
            schedules.push(vec![rng.below(n + 1)]);
        }
    }
    if n > 1 {
        schedules.push(gen::one_char_cuts(n));
    }
    for _ in 0..3 {
        schedules.push(gen::random_cuts(rng, n));
    }
    st.add("schedules", schedules.len() as u64);
    for cuts in &schedules {
        let o = if rng.chance(1, 4) { XmlOpts { exact_errors: true, ..base } } else { base };
        match result(input, cuts, &o, Some(st)) {
            Err(m) => {
                st.violation("chunked:panic-or-leftover", &format!("xml input={} cuts={cuts:?}: {m}", show(input)), json!({"kind": "chunk", "input": input, "cuts": cuts, "exact_errors": o.exact_errors}));
                break;
            },
            Ok(r) => {
                let rep = json!({"kind": "chunk", "input": input, "cuts": cuts, "exact_errors": o.exact_errors});
                if r.toks != reference.toks {
                    st.violation(&format!("chunked:tokens:{cls}"), &format!("xml input={} cuts={:?} exact={}: one piece vs chunked: {}", show(input), &cuts[..cuts.len().min(8)], o.exact_errors, tokdiff(&reference.toks, &r.toks)), rep);
                    break;
                } else if r.dump != reference.dump {
                    st.violation(&format!("chunked:tree:{cls}"), &format!("xml input={} cuts={:?}: {}", show(input), &cuts[..cuts.len().min(8)], dump_diff(&reference.dump, &r.dump)), rep);
                    break;
                }
            },
        }
    }
}

fn targeted() -> Vec<String> {
    let mut v: Vec<String> = Vec::new();
    // CR / CRLF / NUL / BOM placed in every tokenizer context
    let templates = [
        "<a>x{}y</a>", "<a{}b>t</a{}b>", "<a {}b='1'/>", "<a b{}='1'/>", "<a b={}'1'/>", "<a b='x{}y'/>", "<a b=\"x{}y\"/>", "<a b=x{}y />", "<a b='1'{}/>", "<a/{}>",
        "<!--x{}y-->", "<!--{}-->", "<!--x-{}->", "<?pi{}d?>", "<?p{}i d?>", "<?pi d{}e?>", "<?pi d?{}>", "<![CDATA[x{}y]]>", "<![CDATA[x]{}]>", "<![CD{}ATA[x]]>",
        "<!DOCTYPE{}a>", "<!DOCTYPE a{}>", "<!DOCTYPE a{}PUBLIC 'p' 's'>", "<!DOCTYPE a PUBLIC{}'p'>", "<!DOCTYPE a PUBLIC 'p{}q'>", "<!DOCTYPE a PUBLIC \"p\"{}\"s\">", "<!DOCTYPE a SYSTEM 's{}t'>", "<!DOC{}TYPE a>",
        "<a>&amp{}x</a>", "<a>&amp;{}x</a>", "<a>&{}amp;</a>", "<a>&#{}65;</a>", "<a>&#65{};</a>", "<a>&#x{}41;</a>", "<a>&am{}p;</a>", "<a>{}&amp;</a>", "<a b='&amp{}x'/>", "<a b='&#65{}'/>", "<a b=&amp{}x />",
        "<a>&unknown{};</a>", "<a>&unk{}nown;</a>", "{}<a/>", "<a/>{}", "</{}>", "<{}a>", "</a{}>", "<a></{}a>", "<a><{}/a>",
    ];
    let fills = ["\r", "\r\n", "\n", "\0", "\u{feff}", "\r\r", "\n\r", "\r\0", "\r\n\r\n"];
    for t in templates {
        for f in fills {
            v.push(t.replace("{}", f));
        }
    }
    v
}

pub fn run(args: &Args) -> (Meta, Stats) {
    if let Some(p) = &args.replay {
        let mut st = Stats::new();
        let v: Value = serde_json::from_str(&std::fs::read_to_string(p).unwrap_or_default()).unwrap_or(Value::Null);
        let mut rng = Rng::new(1);
        check(v["input"].as_str().unwrap_or(""), &mut rng, &mut st, true);
        return (super::meta(args, "replay of one recorded case", &[]), st);
    }
    let seed = args.seed;
    let deadline = args.deadline();
    let targeted = targeted();
    let st = par_run(nthreads(), |shard, nshards, st| {
        let mut rng = Rng::new(mix(seed ^ 0xC15, shard as u64));
        for (i, t) in targeted.iter().enumerate() {
            if i % nshards == shard {
                check(t, &mut rng, st, true);
                st.count("targeted_cases");
            }
        }
        while !expired(deadline) {
            let mut input = match rng.below(4) {
                0 => gen::xml_ns_doc(&mut rng),
                _ => gen::xml_doc(&mut rng, 12),
            };
            // sprinkle CR / NUL
            if rng.chance(1, 2) {
                let mut chars: Vec<char> = input.chars().collect();
                let k = rng.range(1, 3);
                for _ in 0..k {
                    let pos = rng.below(chars.len() + 1);
                    let ins = *rng.pick(&['\r', '\0', '\n', '\u{feff}']);
                    chars.insert(pos, ins);
                    if ins == '\r' && rng.chance(1, 2) {
                        chars.insert(pos + 1, '\n');
                    }
                }
                input = chars.into_iter().collect();
            }
            if input.chars().count() > 300 {
                continue;
            }
            check(&input, &mut rng, st, false);
            st.count("random_cases");
            if rng.chance(1, 150) {
                let big = crate::big::big_xml(&mut rng);
                check(&big, &mut rng, st, false);
                st.count("scaled_up_cases");
            }
        }
    });
    let mut m = super::meta(
        args,
        "xml5ever on (a) a targeted matrix placing CR, CRLF, NUL and U+FEFF in every tokenizer context (text, names, three attribute-value styles, comments, PIs, CDATA, doctype ids, next to and inside character references) and (b) XML soup / namespace shapes with sprinkled CR/NUL/BOM; for each input the one-piece default run is compared with: every 2-chunk split, all-1-character chunks, random partitions with empty chunks, exact_errors on, and the run on the CR/NUL-pre-normalised source (tokens minus parse errors and final tree). Non-trivial = more than EOF+1 token; distinct by input hash.",
        &["no XML5 specification is needed: every oracle is the real code on a related execution (metamorphic)"],
    );
    m.require = vec![("targeted_cases".into(), targeted.len() as u64), ("random_cases".into(), 1000), ("normalisation_cases".into(), 300), ("hidden_states_at_suspension".into(), 40)];
    (m, st)
}
