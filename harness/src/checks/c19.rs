//! C19 — encoding indicators are raised exactly for meta-declared encodings (history vs model).

use super::common::*;
use super::parse_common::*;
use crate::drive::*;
use crate::gen;
use crate::msink::Kind;
use crate::prng::{hash_str, mix, Rng};
use crate::report::{catch, nthreads, par_run, Meta, Stats};
use crate::tree::dump_html;
use crate::Args;
use serde_json::{json, Value};

fn is_ws(c: char) -> bool {
    matches!(c, '\t' | '\n' | '\x0C' | '\r' | ' ')
}

/// Independent implementation of "extract a character encoding from a meta element" (without the
/// final label lookup). Some(s) = the substring handed to "get an encoding".
pub fn extract(s: &str) -> Option<String> {
    let chars: Vec<char> = s.chars().collect();
    let lower: Vec<char> = chars.iter().map(|c| c.to_ascii_lowercase()).collect();
    let word: Vec<char> = "charset".chars().collect();
    let mut pos = 0usize;
    loop {
        // find "charset" at or after pos
        let mut found = None;
        let mut i = pos;
        while i + word.len() <= lower.len() {
            if lower[i..i + word.len()] == word[..] {
                found = Some(i);
                break;
            }
            i += 1;
        }
        let at = found?;
        let mut p = at + word.len();
        while p < chars.len() && is_ws(chars[p]) {
            p += 1;
        }
        if p >= chars.len() {
            return None;
        }
        if chars[p] != '=' {
            pos = p;
            continue;
        }
        p += 1;
        while p < chars.len() && is_ws(chars[p]) {
            p += 1;
        }
        if p >= chars.len() {
            return None;
        }
        let c = chars[p];
        if c == '"' || c == '\'' {
            let rest = &chars[p + 1..];
            let end = rest.iter().position(|&x| x == c)?;
            return Some(rest[..end].iter().collect());
        }
        let rest = &chars[p..];
        let end = rest.iter().position(|&x| is_ws(x) || x == ';').unwrap_or(rest.len());
        return Some(rest[..end].iter().collect());
    }
}

/// Expected indicator for a meta element with these attributes: Some(Some(label)) exactly that label,
/// Some(None) = none expected, None = either (empty extraction result: "get an encoding" of the empty
/// string fails in the spec, html5ever documents that it does not validate labels).
fn expected_for(attrs: &[(String, String)]) -> Option<Option<String>> {
    if let Some((_, v)) = attrs.iter().find(|a| a.0 == "charset") {
        return Some(Some(v.clone()));
    }
    let he = attrs.iter().find(|a| a.0 == "http-equiv");
    let content = attrs.iter().find(|a| a.0 == "content");
    if let (Some((_, h)), Some((_, c))) = (he, content) {
        if h.eq_ignore_ascii_case("content-type") {
            return match extract(c) {
                Some(s) if s.is_empty() => None,
                Some(s) => Some(Some(s)),
                None => Some(None),
            };
        }
    }
    Some(None)
}

fn check(input: &str, cuts: &[usize], opts: &HtmlOpts, st: &mut Stats) -> Option<(String, String)> {
    let chunks = split_at_chars(input, cuts);
    let r = catch(|| run_html_parse(&chunks, opts, Gc::Off, false, &mut no_script)).ok()?;
    // expected list from the observed create_element calls
    let mut expected: Vec<(usize, Option<Option<String>>)> = vec![]; // (index in creation order, expectation)
    {
        let i = r.sink.inner.borrow();
        for (k, &id) in i.created_elems.iter().enumerate() {
            let n = &i.nodes[id];
            if n.handle.name.ns == markup5ever::ns!(html) && &*n.handle.name.local == "meta" {
                if opts.context.is_some() && k == 0 {
                    continue; // the fragment context element itself is created by the driver, not by a token
                }
                if let Kind::Element { attrs, .. } = &n.kind {
                    let a: Vec<(String, String)> = attrs.iter().filter(|(q, _)| q.ns.is_empty()).map(|(q, v)| (q.local.to_string(), v.clone())).collect();
                    expected.push((k, expected_for(&a)));
                    st.count("meta_elements_created");
                }
            }
        }
    }
    let events = &r.encoding_events;
    st.add("indicators_observed", events.len() as u64);
    let mut ei = 0;
    for (k, exp) in &expected {
        let here = events.get(ei).filter(|e| e.1 == k + 1);
        match (exp, here) {
            (Some(Some(label)), Some(e)) => {
                if &e.0 != label {
                    return Some(("label".into(), format!("meta #{k}: indicator label {:?}, expected {label:?}", e.0)));
                }
                if !e.2 {
                    return Some(("meta-not-attached".into(), format!("meta #{k}: indicator raised before the element was inserted")));
                }
                st.count("indicators_matched");
                ei += 1;
            },
            (Some(Some(label)), None) => {
                return Some(("missing".into(), format!("meta #{k} declares {label:?} but no indicator was raised right after its creation (events: {events:?})")));
            },
            (Some(None), Some(e)) => {
                return Some(("spurious".into(), format!("meta #{k} declares no encoding but an indicator {:?} was raised", e.0)));
            },
            (Some(None), None) => st.count("metas_without_declaration"),
            (None, Some(_)) => {
                st.count("empty_label_either_way");
                ei += 1;
            },
            (None, None) => st.count("empty_label_either_way"),
        }
    }
    if ei != events.len() {
        return Some(("spurious".into(), format!("indicator {:?} does not belong to any created html meta element (or was raised late)", events[ei])));
    }
    // resuming changes nothing: same tree as a run that is never chunked
    if !cuts.is_empty() {
        if let Ok(one) = catch(|| run_html_parse(&[input.to_string()], opts, Gc::Off, false, &mut no_script)) {
            let (a, b) = (dump_html(&one.sink.document_tree()), dump_html(&r.sink.document_tree()));
            if a != b {
                return Some(("tree".into(), format!("tree differs between schedules: {}", dump_diff(&a, &b))));
            }
            if one.encoding_events.iter().map(|e| &e.0).collect::<Vec<_>>() != events.iter().map(|e| &e.0).collect::<Vec<_>>() {
                return Some(("schedule-dependent".into(), "indicator sequence depends on the feed schedule".into()));
            }
        }
    }
    None
}

fn run_case(input: &str, cuts: &[usize], opts: &HtmlOpts, st: &mut Stats) {
    st.case(if input.contains("meta") { Some(hash_str(&format!("{input}{cuts:?}{}", opts.describe()))) } else { None });
    if let Some((sig, d)) = check(input, cuts, opts, st) {
        st.violation(&sig, &format!("input={} cuts={:?} {}: {d}", show(input), &cuts[..cuts.len().min(6)], opts.describe()), json!({"input": input, "cuts": cuts, "opts": super::c03::html_opts_json(opts)}));
    }
}

const CONTENT_TOKENS: &[&str] = &["charset", "CHARSET", "chars", "Charset", " ", "\t", "\n", "\x0C", "\r", "=", "\"", "'", ";", "x", "utf-8", "é", "text/html", ",", "charset=", "\u{130}", "\u{212a}", "\u{212b}", "\u{1e9e}", "char\u{17f}et", "CHAR\u{17f}ET=", "&#13;", "&#xD;", "&#12;", "&#9;", "&#10;", "&#32;", "&#xA0;", "&#x2028;", "\u{10ffff}", "日", "\u{130}\u{130}\u{130}\u{130}"];

/// meta placed in every insertion mode
const PLACEMENTS: &[&str] = &[
    "{}", "<head>{}</head>", "<body>{}", "<head></head>{}", "<template>{}</template>", "<table>{}</table>", "<table><tr>{}", "<table><tr><td>{}", "<select>{}</select>",
    "<frameset>{}</frameset>", "<head><noscript>{}</noscript>", "<svg>{}</svg>", "<math><mi>{}</mi></math>", "<svg><foreignObject>{}", "<p><b>{}</b>", "</html>{}", "<body></body>{}",
    "<frameset></frameset>{}", "<title>{}</title>", "<textarea>{}</textarea>", "<script>{}</script>", "<!--{}-->", "<table><caption>{}", "<table><colgroup>{}", "<ul><li>{}", "x{}y",
];

pub fn run(args: &Args) -> (Meta, Stats) {
    if let Some(p) = &args.replay {
        let mut st = Stats::new();
        let v: Value = serde_json::from_str(&std::fs::read_to_string(p).unwrap_or_default()).unwrap_or(Value::Null);
        let cuts: Vec<usize> = v["cuts"].as_array().map(|a| a.iter().filter_map(|x| x.as_u64()).map(|x| x as usize).collect()).unwrap_or_default();
        run_case(v["input"].as_str().unwrap_or(""), &cuts, &super::c03::opts_from_json(&v["opts"]), &mut st);
        st.distinct.insert(1);
        st.distinct.insert(2);
        return (super::meta(args, "replay of one recorded case", &[]), st);
    }
    let seed = args.seed;
    let contexts = gen::fragment_contexts();
    let deadline = args.deadline();
    // enumerated content strings: all sequences of up to 4 tokens over a small alphabet (sharded), longer ones random
    // U+0130 and U+212A change their UTF-8 length under Unicode lower-casing (offsets computed on a
    // lower-cased copy would shift); U+212A lower-cases to the ASCII letter k
    let alpha: Vec<&str> = vec!["charset", "CharSet", "chars", " ", "\t", "=", "\"", "'", ";", "x", "é", "\u{130}", "\u{212a}", "&#13;"];
    let st = par_run(nthreads(), |shard, nshards, st| {
        let mut rng = Rng::new(mix(seed ^ 0xC19, shard as u64));
        let mut idx = 0usize;
        for len in 0..=4usize {
            let total = alpha.len().pow(len as u32);
            for code in 0..total {
                idx += 1;
                if idx % nshards != shard {
                    continue;
                }
                let mut c = code;
                let mut content = String::new();
                for _ in 0..len {
                    content.push_str(alpha[c % alpha.len()]);
                    c /= alpha.len();
                }
                if content.contains('"') && content.contains('\'') {
                    continue; // cannot be written as one attribute value without character references
                }
                let q = if content.contains('"') { '\'' } else { '"' };
                let input = format!("<meta http-equiv=content-type content={q}{content}{q}>");
                run_case(&input, &[], &HtmlOpts::default(), st);
                st.count("enumerated_content_strings");
                if let Some(Some(l)) = expected_for(&[("http-equiv".into(), "content-type".into()), ("content".into(), content.clone())]) {
                    st.observe("labels_extracted", &l);
                }
            }
        }
        // placements x chunkings
        let metas = [
            "<meta charset=utf-8>", "<meta charset=\"\">", "<meta CHARSET='x y'>", "<meta http-equiv=Content-Type content='text/html; charset=koi8-r'>", "<meta http-equiv=content-type content=charset=x>",
            "<meta http-equiv=refresh content='charset=x'>", "<meta content='charset=x'>", "<meta http-equiv='content-type'>", "<meta http-equiv=' content-type' content='charset=x'>", "<meta name=x>",
            "<meta charset=a charset=b>", "<meta http-equiv=content-type content='charset=a' charset=b>", "<meta charset=utf-8/>", "<META CHARSET=UTF-8>", "<meta http-equiv=content-type content='chArSet = \"q\" '>",
        ];
        for (pi, p) in PLACEMENTS.iter().enumerate() {
            for (mi, m) in metas.iter().enumerate() {
                if (pi * metas.len() + mi) % nshards != shard {
                    continue;
                }
                let input = p.replace("{}", m);
                let n = input.chars().count();
                for scripting in [true, false] {
                    let mut o = HtmlOpts::default();
                    o.scripting = scripting;
                    run_case(&input, &[], &o, st);
                    for cut in gen::two_chunk_cuts(n) {
                        run_case(&input, &cut, &o, st);
                    }
                    run_case(&input, &gen::one_char_cuts(n), &o, st);
                }
                st.count("placement_cases");
                // fragments
                for _ in 0..3 {
                    let mut o = HtmlOpts::default();
                    o.context = Some(rng.pick(&contexts).clone());
                    o.fragment_form = rng.chance(1, 4);
                    run_case(&input, &[], &o, st);
                }
            }
        }
        while !expired(deadline) {
            // random documents with random metas sprinkled in
            let (mut input, mut opts) = random_html_case(&mut rng, &contexts, &[], false);
            let k = rng.range(1, 3);
            for _ in 0..k {
                let mut content = String::new();
                for _ in 0..rng.below(8) {
                    content.push_str(rng.pick_s(CONTENT_TOKENS));
                }
                let content = content.replace('"', "&quot;");
                let m = match rng.below(5) {
                    0 => format!("<meta charset=\"{}\">", rng.pick_s(&["utf-8", "", "x", "a b", "é"])),
                    1 => format!("<meta http-equiv=\"{}\" content=\"{content}\">", rng.pick_s(&["content-type", "Content-Type", "CONTENT-TYPE", "content-typ", "refresh"])),
                    2 => format!("<meta content=\"{content}\" http-equiv=content-type>"),
                    3 => format!("<meta content=\"{content}\">"),
                    _ => format!("<meta http-equiv=content-type content=\"{content}\" charset=z>"),
                };
                let chars: Vec<char> = input.chars().collect();
                let at = rng.below(chars.len() + 1);
                input = chars[..at].iter().chain(m.chars().collect::<Vec<_>>().iter()).chain(chars[at..].iter()).collect();
            }
            opts.tok.profile = false;
            let n = input.chars().count();
            let cuts = random_schedule(&mut rng, n);
            run_case(&input, &cuts, &opts, st);
            st.count("random_cases");
            if st.samples.len() < 2 && rng.chance(1, 200) {
                st.sample(json!({"input": input, "cuts": cuts, "opts": opts.describe()}));
            }
        }
    });
    let mut m = super::meta(
        args,
        "the sequence of EncodingIndicator results of feed() is compared with an expectation derived from the html-namespace meta elements the sink was asked to create: charset attribute -> its value; else http-equiv ~ content-type plus content -> an independent implementation of 'extract a character encoding from a meta element'; exactly one indicator per such element, raised while that meta is still the most recently created element and already attached; none otherwise; the final tree and the indicator sequence must not depend on the feed schedule. Inputs: every content string of up to 4 tokens over {charset, CharSet, chars, space, TAB, =, \", ', ;, x, é}, 15 meta variants in 26 placements (every insertion mode, foreign content, raw text, comments, framesets) x all 2-chunk splits x scripting x fragment contexts, and random documents with sprinkled metas. Non-trivial = the input contains a meta; distinct by hash of input+schedule+options.",
        &["an empty extraction result is accepted either way (the spec's label lookup fails on it; html5ever documents that it does not validate labels)", "expectations key on html-namespace meta elements actually created, so they do not depend on predicting insertion modes"],
    );
    m.require = vec![("enumerated_content_strings".into(), 35000), ("placement_cases".into(), 300), ("indicators_matched".into(), 5000), ("metas_without_declaration".into(), 2000), ("random_cases".into(), 1000)];
    (m, st)
}
