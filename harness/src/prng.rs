//! Small deterministic PRNG (splitmix64 seeding + xoshiro256**).

#[derive(Clone, Debug)]
pub struct Rng {
    s: [u64; 4],
}

fn splitmix(x: &mut u64) -> u64 {
    *x = x.wrapping_add(0x9E3779B97F4A7C15);
    let mut z = *x;
    z = (z ^ (z >> 30)).wrapping_mul(0xBF58476D1CE4E5B9);
    z = (z ^ (z >> 27)).wrapping_mul(0x94D049BB133111EB);
    z ^ (z >> 31)
}

/// 64-bit mix of two values (used to derive per-shard / per-case seeds).
pub fn mix(a: u64, b: u64) -> u64 {
    let mut x = a ^ b.wrapping_mul(0xD6E8FEB86659FD93).rotate_left(17);
    splitmix(&mut x)
}

impl Rng {
    pub fn new(seed: u64) -> Rng {
        let mut x = seed;
        Rng {
            s: [splitmix(&mut x), splitmix(&mut x), splitmix(&mut x), splitmix(&mut x)],
        }
    }
    pub fn next_u64(&mut self) -> u64 {
        let r = self.s[1].wrapping_mul(5).rotate_left(7).wrapping_mul(9);
        let t = self.s[1] << 17;
        self.s[2] ^= self.s[0];
        self.s[3] ^= self.s[1];
        self.s[1] ^= self.s[2];
        self.s[0] ^= self.s[3];
        self.s[2] ^= t;
        self.s[3] = self.s[3].rotate_left(45);
        r
    }
    /// Uniform in 0..n (n > 0).
    pub fn below(&mut self, n: usize) -> usize {
        debug_assert!(n > 0);
        ((self.next_u64() >> 11) % (n as u64)) as usize
    }
    /// Inclusive range.
    pub fn range(&mut self, lo: usize, hi: usize) -> usize {
        lo + self.below(hi - lo + 1)
    }
    /// True with probability num/den.
    pub fn chance(&mut self, num: usize, den: usize) -> bool {
        self.below(den) < num
    }
    pub fn pick<'a, T>(&mut self, xs: &'a [T]) -> &'a T {
        &xs[self.below(xs.len())]
    }
    pub fn pick_s<'a>(&mut self, xs: &[&'a str]) -> &'a str {
        xs[self.below(xs.len())]
    }
    pub fn pick_weighted<'a, T>(&mut self, xs: &'a [(usize, T)]) -> &'a T {
        let total: usize = xs.iter().map(|x| x.0).sum();
        let mut r = self.below(total);
        for (w, t) in xs {
            if r < *w {
                return t;
            }
            r -= *w;
        }
        &xs[xs.len() - 1].1
    }
    pub fn shuffle<T>(&mut self, xs: &mut [T]) {
        for i in (1..xs.len()).rev() {
            let j = self.below(i + 1);
            xs.swap(i, j);
        }
    }
    pub fn state(&self) -> [u64; 4] {
        self.s
    }
}

/// FNV-1a 64-bit hash for distinct-case counting.
pub fn hash_bytes(b: &[u8]) -> u64 {
    let mut h: u64 = 0xcbf29ce484222325;
    for &x in b {
        h ^= x as u64;
        h = h.wrapping_mul(0x100000001b3);
    }
    // final avalanche
    let mut x = h;
    splitmix(&mut x)
}

pub fn hash_str(s: &str) -> u64 {
    hash_bytes(s.as_bytes())
}
