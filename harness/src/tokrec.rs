//! Recording TokenSink for the HTML tokenizer plus the sink policies shared with the reference
//! tokenizer (model::reftok).

use html5ever::tokenizer::states::{RawKind, ScriptEscapeKind};
use html5ever::tokenizer::{Tag, TagKind, Token, TokenSink, TokenSinkResult};
use std::cell::{Cell, RefCell};

/// Tokenizer-neutral token representation (what the property talks about).
#[derive(Clone, Debug, PartialEq, Eq)]
pub enum RTok {
    Doctype { name: Option<String>, public_id: Option<String>, system_id: Option<String>, force_quirks: bool },
    Start { name: String, attrs: Vec<(String, String)>, self_closing: bool, dup: bool },
    End { name: String, attrs: Vec<(String, String)>, self_closing: bool, dup: bool },
    Comment(String),
    Chars(String),
    Null,
    Eof,
    Error(String),
}

impl RTok {
    pub fn is_error(&self) -> bool {
        matches!(self, RTok::Error(_))
    }
    pub fn short(&self) -> String {
        match self {
            RTok::Doctype { name, public_id, system_id, force_quirks } => {
                format!("DOCTYPE({name:?},{public_id:?},{system_id:?},fq={force_quirks})")
            },
            RTok::Start { name, attrs, self_closing, dup } => {
                format!("Start({name},{attrs:?},sc={self_closing},dup={dup})")
            },
            RTok::End { name, attrs, self_closing, dup } => {
                format!("End({name},{attrs:?},sc={self_closing},dup={dup})")
            },
            RTok::Comment(c) => format!("Comment({c:?})"),
            RTok::Chars(c) => format!("Chars({c:?})"),
            RTok::Null => "Null".into(),
            RTok::Eof => "EOF".into(),
            RTok::Error(e) => format!("Error({e:?})"),
        }
    }
}

/// What a sink answers to a tag token.
#[derive(Clone, Copy, Debug, PartialEq, Eq)]
pub enum Answer {
    Continue,
    Rcdata,
    Rawtext,
    ScriptData,
    ScriptDataEscaped,
    ScriptDataDoubleEscaped,
    Plaintext,
    /// `TokenSinkResult::Script`: tokenizer goes to the data state and suspends.
    Script,
}

pub const ALL_ANSWERS: [Answer; 8] = [
    Answer::Continue,
    Answer::Rcdata,
    Answer::Rawtext,
    Answer::ScriptData,
    Answer::ScriptDataEscaped,
    Answer::ScriptDataDoubleEscaped,
    Answer::Plaintext,
    Answer::Script,
];

/// Deterministic sink behaviour shared by the recording sink and the reference tokenizer.
#[derive(Clone, Debug, PartialEq, Eq)]
pub enum Policy {
    /// Like the tree builder: title/textarea -> RCDATA, style/xmp/iframe/noembed/noframes ->
    /// RAWTEXT, script -> script data (and Script on its end tag), plaintext -> PLAINTEXT,
    /// "foreign" while inside svg/math.
    TreeBuilderLike,
    /// Always the same answer for start tags / end tags and a fixed foreign answer.
    Const { start: Answer, end: Answer, foreign: bool },
    /// Pseudo-random but deterministic map from (kind, name) to an answer.
    Hashed { salt: u64, foreign_salt: u64 },
}

/// Mutable policy state (foreign depth).
#[derive(Clone, Debug, Default)]
pub struct PolicyState {
    pub foreign_depth: i64,
    pub tags_seen: u64,
}

impl Policy {
    pub fn on_tag(&self, st: &mut PolicyState, is_start: bool, name: &str, self_closing: bool) -> Answer {
        st.tags_seen += 1;
        match self {
            Policy::TreeBuilderLike => {
                if is_start {
                    match name {
                        "svg" | "math" if !self_closing => {
                            st.foreign_depth += 1;
                            Answer::Continue
                        },
                        _ if st.foreign_depth > 0 => Answer::Continue,
                        "title" | "textarea" => Answer::Rcdata,
                        "style" | "xmp" | "iframe" | "noembed" | "noframes" => Answer::Rawtext,
                        "script" => Answer::ScriptData,
                        "plaintext" => Answer::Plaintext,
                        _ => Answer::Continue,
                    }
                } else {
                    match name {
                        "svg" | "math" => {
                            if st.foreign_depth > 0 {
                                st.foreign_depth -= 1;
                            }
                            Answer::Continue
                        },
                        "script" if st.foreign_depth == 0 => Answer::Script,
                        _ => Answer::Continue,
                    }
                }
            },
            Policy::Const { start, end, .. } => {
                if is_start {
                    *start
                } else {
                    *end
                }
            },
            Policy::Hashed { salt, .. } => {
                let h = crate::prng::mix(*salt, crate::prng::hash_str(name) ^ (is_start as u64));
                // mostly Continue so that inputs still produce varied tokens
                match h % 16 {
                    0 => Answer::Rcdata,
                    1 => Answer::Rawtext,
                    2 => Answer::ScriptData,
                    3 => Answer::ScriptDataEscaped,
                    4 => Answer::ScriptDataDoubleEscaped,
                    5 => Answer::Plaintext,
                    6 => Answer::Script,
                    _ => Answer::Continue,
                }
            },
        }
    }
    pub fn foreign(&self, st: &PolicyState) -> bool {
        match self {
            Policy::TreeBuilderLike => st.foreign_depth > 0,
            Policy::Const { foreign, .. } => *foreign,
            Policy::Hashed { foreign_salt, .. } => crate::prng::mix(*foreign_salt, st.tags_seen) % 2 == 0,
        }
    }
    pub fn describe(&self) -> String {
        format!("{self:?}")
    }
}

pub fn answer_to_result(a: Answer) -> TokenSinkResult<()> {
    match a {
        Answer::Continue => TokenSinkResult::Continue,
        Answer::Rcdata => TokenSinkResult::RawData(RawKind::Rcdata),
        Answer::Rawtext => TokenSinkResult::RawData(RawKind::Rawtext),
        Answer::ScriptData => TokenSinkResult::RawData(RawKind::ScriptData),
        Answer::ScriptDataEscaped => TokenSinkResult::RawData(RawKind::ScriptDataEscaped(ScriptEscapeKind::Escaped)),
        Answer::ScriptDataDoubleEscaped => {
            TokenSinkResult::RawData(RawKind::ScriptDataEscaped(ScriptEscapeKind::DoubleEscaped))
        },
        Answer::Plaintext => TokenSinkResult::Plaintext,
        Answer::Script => TokenSinkResult::Script(()),
    }
}

pub fn conv_tag(t: &Tag) -> RTok {
    let attrs: Vec<(String, String)> =
        t.attrs.iter().map(|a| (a.name.local.to_string(), a.value.to_string())).collect();
    match t.kind {
        TagKind::StartTag => RTok::Start {
            name: t.name.to_string(),
            attrs,
            self_closing: t.self_closing,
            dup: t.had_duplicate_attributes,
        },
        TagKind::EndTag => RTok::End {
            name: t.name.to_string(),
            attrs,
            self_closing: t.self_closing,
            dup: t.had_duplicate_attributes,
        },
    }
}

pub fn conv_token(t: &Token) -> RTok {
    match t {
        Token::DoctypeToken(d) => RTok::Doctype {
            name: d.name.as_ref().map(|s| s.to_string()),
            public_id: d.public_id.as_ref().map(|s| s.to_string()),
            system_id: d.system_id.as_ref().map(|s| s.to_string()),
            force_quirks: d.force_quirks,
        },
        Token::TagToken(t) => conv_tag(t),
        Token::CommentToken(c) => RTok::Comment(c.to_string()),
        Token::CharacterTokens(c) => RTok::Chars(c.to_string()),
        Token::NullCharacterToken => RTok::Null,
        Token::EOFToken => RTok::Eof,
        Token::ParseError(e) => RTok::Error(e.to_string()),
    }
}

/// Recording sink. Raw (uncoalesced) deliveries with their line numbers.
pub struct RecSink {
    pub policy: Policy,
    pub pstate: RefCell<PolicyState>,
    pub toks: RefCell<Vec<(RTok, u64)>>,
    pub ended: Cell<u32>,
    pub empty_char_tokens: Cell<u32>,
    pub nul_in_chars: Cell<u32>,
}

impl RecSink {
    pub fn new(policy: Policy) -> RecSink {
        RecSink {
            policy,
            pstate: RefCell::new(PolicyState::default()),
            toks: RefCell::new(Vec::new()),
            ended: Cell::new(0),
            empty_char_tokens: Cell::new(0),
            nul_in_chars: Cell::new(0),
        }
    }
}

impl TokenSink for RecSink {
    type Handle = ();
    fn process_token(&self, token: Token, line_number: u64) -> TokenSinkResult<()> {
        let rt = conv_token(&token);
        if let RTok::Chars(c) = &rt {
            if c.is_empty() {
                self.empty_char_tokens.set(self.empty_char_tokens.get() + 1);
            }
            if c.contains('\0') {
                self.nul_in_chars.set(self.nul_in_chars.get() + 1);
            }
        }
        let res = match &rt {
            RTok::Start { name, self_closing, .. } => {
                let a = self.policy.on_tag(&mut self.pstate.borrow_mut(), true, name, *self_closing);
                answer_to_result(a)
            },
            RTok::End { name, self_closing, .. } => {
                let a = self.policy.on_tag(&mut self.pstate.borrow_mut(), false, name, *self_closing);
                answer_to_result(a)
            },
            _ => TokenSinkResult::Continue,
        };
        self.toks.borrow_mut().push((rt, line_number));
        res
    }
    fn end(&self) {
        self.ended.set(self.ended.get() + 1);
    }
    fn adjusted_current_node_present_but_not_in_html_namespace(&self) -> bool {
        self.policy.foreign(&self.pstate.borrow())
    }
}

/// Coalesce adjacent character tokens; optionally drop errors. Lines: for a coalesced run the
/// line of its last piece is kept.
pub fn coalesce(raw: &[(RTok, u64)], keep_errors: bool) -> Vec<(RTok, u64)> {
    let mut out: Vec<(RTok, u64)> = Vec::new();
    for (t, l) in raw {
        match t {
            RTok::Error(_) if !keep_errors => {},
            RTok::Chars(c) => {
                if c.is_empty() {
                    continue;
                }
                if let Some((RTok::Chars(prev), pl)) = out.last_mut() {
                    prev.push_str(c);
                    *pl = *l;
                } else {
                    out.push((RTok::Chars(c.clone()), *l));
                }
            },
            other => out.push((other.clone(), *l)),
        }
    }
    out
}
