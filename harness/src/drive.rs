//! Drivers: run the real tokenizers / parsers over chunk schedules and record what happened.

use crate::msink::{IdTracer, MSink};
use crate::tokrec::{Policy, RTok, RecSink};
use html5ever::buffer_queue::BufferQueue;
use html5ever::tendril::StrTendril;
use html5ever::tokenizer::states::State as HState;
use html5ever::tokenizer::{Tokenizer, TokenizerOpts};
use html5ever::TokenizerResult;
use html5ever::tree_builder::{TreeBuilder, TreeBuilderOpts, TreeSink};
use html5ever::{Attribute, QualName};
use std::cell::RefCell;

/// Split `s` at the given char offsets (sorted, may repeat => empty chunks).
pub fn split_at_chars(s: &str, cuts: &[usize]) -> Vec<String> {
    let chars: Vec<char> = s.chars().collect();
    let mut out = Vec::new();
    let mut prev = 0;
    for &c in cuts {
        let c = c.min(chars.len()).max(prev);
        out.push(chars[prev..c].iter().collect());
        prev = c;
    }
    out.push(chars[prev..].iter().collect());
    out
}

#[derive(Clone, Debug, PartialEq, Eq)]
pub enum FeedEv {
    Done,
    Script,
    Encoding(String),
}

#[derive(Clone, Debug)]
pub struct HtmlTokOpts {
    pub exact_errors: bool,
    pub discard_bom: bool,
    pub profile: bool,
    pub initial_state: Option<HState>,
    pub last_start_tag: Option<String>,
    /// call Tokenizer::set_plaintext_state() before the first feed (the public way for an embedder to
    /// switch to PLAINTEXT), instead of / on top of `initial_state`
    pub set_plaintext_first: bool,
}

impl Default for HtmlTokOpts {
    fn default() -> Self {
        HtmlTokOpts { exact_errors: false, discard_bom: true, profile: false, initial_state: None, last_start_tag: None, set_plaintext_first: false }
    }
}

impl HtmlTokOpts {
    pub fn to_real(&self) -> TokenizerOpts {
        TokenizerOpts {
            exact_errors: self.exact_errors,
            discard_bom: self.discard_bom,
            profile: self.profile,
            initial_state: self.initial_state,
            last_start_tag_name: self.last_start_tag.clone(),
        }
    }
}

pub struct TokRun {
    pub raw: Vec<(RTok, u64)>,
    pub feeds: Vec<FeedEv>,
    /// hidden-state tuples observed at suspension points (Debug-formatted)
    pub suspend_states: Vec<String>,
    /// feed() returned Done but left input in the queue
    pub leftover_after_done: bool,
    pub sink_end_calls: u32,
    pub empty_char_tokens: u32,
    pub nul_in_chars: u32,
}

/// Run the HTML tokenizer alone over the given chunks.
pub fn run_html_tokenizer(chunks: &[String], opts: &HtmlTokOpts, policy: &Policy, record_states: bool) -> TokRun {
    let sink = RecSink::new(policy.clone());
    let tok = Tokenizer::new(sink, opts.to_real());
    if opts.set_plaintext_first {
        tok.set_plaintext_state();
    }
    let q = BufferQueue::default();
    let mut feeds = Vec::new();
    let mut suspend_states = Vec::new();
    let mut leftover = false;
    for c in chunks {
        q.push_back(StrTendril::from_slice(c));
        loop {
            match tok.feed(&q) {
                TokenizerResult::Done => {
                    feeds.push(FeedEv::Done);
                    if !q.is_empty() {
                        leftover = true;
                    }
                    break;
                },
                TokenizerResult::Script(_) => feeds.push(FeedEv::Script),
                TokenizerResult::EncodingIndicator(e) => feeds.push(FeedEv::Encoding(e.to_string())),
            }
        }
        if record_states {
            suspend_states.push(format!("{:?}", tok.verif_state()));
        }
    }
    tok.end();
    let raw = std::mem::take(&mut *tok.sink.toks.borrow_mut());
    TokRun {
        raw,
        feeds,
        suspend_states,
        leftover_after_done: leftover,
        sink_end_calls: tok.sink.ended.get(),
        empty_char_tokens: tok.sink.empty_char_tokens.get(),
        nul_in_chars: tok.sink.nul_in_chars.get(),
    }
}

#[derive(Clone, Debug)]
pub struct HtmlOpts {
    pub tok: HtmlTokOpts,
    pub tb_exact_errors: bool,
    pub scripting: bool,
    pub iframe_srcdoc: bool,
    pub drop_doctype: bool,
    pub quirks: html5ever::interface::QuirksMode,
    /// fragment context: (namespace uri, local name, attributes (name,value))
    pub context: Option<(String, String, Vec<(String, String)>)>,
    pub context_allows_scripting: bool,
    /// the sink's answer to allow_declarative_shadow_roots (MSink's attach_declarative_shadow always
    /// fails, so the tree must come out as without shadow roots)
    pub allow_shadow: bool,
    /// fragment case only: hand `new_for_fragment` a (detached) HTML `form` element as the form element pointer, as
    /// `parse_fragment_for_element` does for a context element that has a form ancestor
    pub fragment_form: bool,
}

impl Default for HtmlOpts {
    fn default() -> Self {
        HtmlOpts {
            tok: HtmlTokOpts::default(),
            tb_exact_errors: false,
            scripting: true,
            iframe_srcdoc: false,
            drop_doctype: false,
            quirks: html5ever::interface::QuirksMode::NoQuirks,
            context: None,
            context_allows_scripting: true,
            allow_shadow: false,
            fragment_form: false,
        }
    }
}

impl HtmlOpts {
    pub fn tb_opts(&self) -> TreeBuilderOpts {
        TreeBuilderOpts {
            exact_errors: self.tb_exact_errors,
            scripting_enabled: self.scripting,
            iframe_srcdoc: self.iframe_srcdoc,
            drop_doctype: self.drop_doctype,
            quirks_mode: self.quirks,
        }
    }
    pub fn describe(&self) -> String {
        format!(
            "ctx={:?} scripting={} srcdoc={} drop_doctype={} quirks={:?} exact=({},{}) bom={} profile={} shadow={} fragment_form={}",
            self.context.as_ref().map(|c| format!("{}:{}{:?}", short_ns(&c.0), c.1, c.2)),
            self.scripting,
            self.iframe_srcdoc,
            self.drop_doctype,
            self.quirks,
            self.tok.exact_errors,
            self.tb_exact_errors,
            self.tok.discard_bom,
            self.tok.profile,
            self.allow_shadow,
            self.fragment_form
        )
    }
}

pub fn short_ns(ns: &str) -> &str {
    match ns {
        crate::tree::NS_HTML => "html",
        crate::tree::NS_SVG => "svg",
        crate::tree::NS_MATHML => "math",
        o => o,
    }
}

pub fn qual(ns: &str, local: &str) -> QualName {
    QualName::new(None, html5ever::Namespace::from(ns), html5ever::LocalName::from(local))
}

pub fn attr_list(attrs: &[(String, String)]) -> Vec<Attribute> {
    attrs
        .iter()
        .map(|(k, v)| Attribute { name: qual("", k), value: StrTendril::from_slice(v) })
        .collect()
}

pub type HtmlTok<S> = Tokenizer<TreeBuilder<<S as TreeSink>::Handle, S>>;

/// Build tokenizer+tree builder over any sink, like html5ever::driver does.
pub fn make_html_parser<S: TreeSink>(sink: S, opts: &HtmlOpts) -> HtmlTok<S> {
    match &opts.context {
        None => {
            let tb = TreeBuilder::new(sink, opts.tb_opts());
            Tokenizer::new(tb, opts.tok.to_real())
        },
        Some((ns, local, attrs)) => {
            let ctx = html5ever::tree_builder::create_element(&sink, qual(ns, local), attr_list(attrs));
            // "the nearest node to the context element that is a form element (going straight up the ancestor chain,
            // and including the element itself)": the context itself when it is an HTML form, else a form outside the fragment
            let form = fragment_form_handle(&sink, opts, &ctx);
            let tb = TreeBuilder::new_for_fragment(sink, ctx, form, opts.tb_opts());
            let mut to = opts.tok.to_real();
            to.initial_state = Some(tb.tokenizer_state_for_context_elem(opts.context_allows_scripting));
            Tokenizer::new(tb, to)
        },
    }
}

/// The form element pointer handed to `new_for_fragment` when `opts.fragment_form` is set.
pub fn fragment_form_handle<S: TreeSink>(sink: &S, opts: &HtmlOpts, ctx: &S::Handle) -> Option<S::Handle> {
    let (ns, local, _) = opts.context.as_ref()?;
    if !opts.fragment_form {
        None
    } else if ns == crate::tree::NS_HTML && local == "form" {
        Some(ctx.clone())
    } else {
        Some(html5ever::tree_builder::create_element(sink, qual(crate::tree::NS_HTML, "form"), vec![]))
    }
}

/// What a GC-simulating run should do at suspension points.
#[derive(Clone, Copy, PartialEq, Eq)]
pub enum Gc {
    Off,
    /// trace + collect at every feed() return
    EverySuspension,
}

pub struct ParseRun {
    pub sink: MSink,
    pub feeds: Vec<FeedEv>,
    pub leftover_after_done: bool,
    pub suspend_states: Vec<String>,
    /// number of nodes newly poisoned by collections
    pub poisoned: u64,
    /// ids of html:meta-style bookkeeping for C19: at each Encoding event, (label, snapshot of created elems count)
    pub encoding_events: Vec<(String, usize, bool)>,
    pub scripts: u32,
    /// DOM mutations performed by the simulated page script
    pub script_actions: u32,
}

/// Run the full HTML parser (tokenizer + tree builder) into an MSink.
/// `on_script` is invoked at each script suspension with the input queue (may push_front).
pub fn run_html_parse(
    chunks: &[String],
    opts: &HtmlOpts,
    gc: Gc,
    record_states: bool,
    on_script: &mut dyn FnMut(&BufferQueue, u32),
) -> ParseRun {
    run_html_parse_scripted(chunks, opts, gc, record_states, on_script, None)
}

/// Like `run_html_parse`; with `script_seed` a few random DOM mutations (remove / move of attached
/// elements, as a page script could do) are performed at every suspension point, before the
/// collection. The mutations depend only on the seed, the suspension index and the attached tree.
pub fn run_html_parse_scripted(
    chunks: &[String],
    opts: &HtmlOpts,
    gc: Gc,
    record_states: bool,
    on_script: &mut dyn FnMut(&BufferQueue, u32),
    script_seed: Option<u64>,
) -> ParseRun {
    let mut sink = MSink::new();
    sink.allow_shadow = opts.allow_shadow;
    let tok = make_html_parser(sink, opts);
    let q = BufferQueue::default();
    let mut feeds = Vec::new();
    let mut leftover = false;
    let mut suspend_states = Vec::new();
    let mut poisoned = 0;
    let mut encoding_events = Vec::new();
    let mut scripts = 0;
    let mut suspension_no = 0u64;
    let mut script_actions = 0u32;
    let do_gc = |tok: &HtmlTok<MSink>| -> u64 {
        let tr = IdTracer { ids: RefCell::new(Vec::new()) };
        tok.sink.trace_handles(&tr);
        let ids = tr.ids.into_inner();
        tok.sink.sink.collect(&ids)
    };
    for c in chunks {
        q.push_back(StrTendril::from_slice(c));
        loop {
            let r = tok.feed(&q);
            suspension_no += 1;
            if let Some(ss) = script_seed {
                script_actions += tok.sink.sink.run_script(crate::prng::mix(ss, suspension_no));
            }
            if gc == Gc::EverySuspension {
                poisoned += do_gc(&tok);
            }
            match r {
                TokenizerResult::Done => {
                    feeds.push(FeedEv::Done);
                    if !q.is_empty() {
                        leftover = true;
                    }
                    break;
                },
                TokenizerResult::Script(_h) => {
                    feeds.push(FeedEv::Script);
                    scripts += 1;
                    on_script(&q, scripts);
                },
                TokenizerResult::EncodingIndicator(e) => {
                    let s = &tok.sink.sink;
                    let (n, attached) = {
                        let i = s.inner.borrow();
                        let n = i.created_elems.len();
                        let attached = i.created_elems.last().map(|&id| i.nodes[id].parent.is_some()).unwrap_or(false);
                        (n, attached)
                    };
                    encoding_events.push((e.to_string(), n, attached));
                    feeds.push(FeedEv::Encoding(e.to_string()));
                },
            }
        }
        if record_states {
            suspend_states.push(format!("{:?}", tok.verif_state()));
        }
    }
    tok.end();
    let sink = tok.sink.sink;
    ParseRun { sink, feeds, leftover_after_done: leftover, suspend_states, poisoned, encoding_events, scripts, script_actions }
}

pub fn no_script(_: &BufferQueue, _: u32) {}

/// Simple one-shot parse to MSink with default handling.
pub fn parse_html_simple(input: &str, opts: &HtmlOpts) -> ParseRun {
    run_html_parse(&[input.to_string()], opts, Gc::Off, false, &mut no_script)
}
