//! vcheck: runtime monitors for servo/html5ever properties C01..C20.
//!
//! usage: vcheck <ID> [--tier quick|thorough] [--seed N] [--root /verif] [--replay file]

pub mod big;
pub mod checks;
pub mod drive;
pub mod gen;
pub mod model;
pub mod msink;
pub mod prng;
pub mod report;
pub mod tokrec;
pub mod tree;
pub mod valloc;
pub mod xdrive;

#[cfg(not(any(miri, feature = "no_valloc")))]
#[global_allocator]
static GLOBAL: valloc::VAlloc = valloc::VAlloc;

use std::io::Write;
use std::path::PathBuf;
use std::sync::Mutex;
use std::time::{Duration, Instant};

extern "C" {
    fn dup(fd: i32) -> i32;
    fn dup2(a: i32, b: i32) -> i32;
    fn open(path: *const u8, flags: i32, ...) -> i32;
}

static REAL_STDOUT: Mutex<Option<std::fs::File>> = Mutex::new(None);

/// The library prints to stdout when `profile` is on; fd 1 is therefore pointed at /dev/null
/// and the harness reports through a saved duplicate of the original stdout.
fn redirect_stdout() {
    use std::os::fd::FromRawFd;
    unsafe {
        let saved = dup(1);
        let devnull = open(b"/dev/null\0".as_ptr(), 1);
        if saved >= 0 && devnull >= 0 {
            dup2(devnull, 1);
            *REAL_STDOUT.lock().unwrap() = Some(std::fs::File::from_raw_fd(saved));
        }
    }
}

pub fn stdout_real(f: impl FnOnce(&mut dyn Write)) {
    let mut g = REAL_STDOUT.lock().unwrap();
    match g.as_mut() {
        Some(file) => f(file),
        None => f(&mut std::io::stdout()),
    }
}

#[derive(Clone, Copy, PartialEq, Eq, Debug)]
pub enum Tier {
    Quick,
    Thorough,
    /// small workloads for Miri / ASan / TSan legs
    Sanitizer,
}

#[derive(Clone, Debug)]
pub struct Args {
    pub id: String,
    pub tier: Tier,
    pub seed: u64,
    pub root: PathBuf,
    pub replay: Option<PathBuf>,
    pub started: Instant,
    /// workload time budget (seconds)
    pub budget: f64,
    pub rest: Vec<String>,
}

impl Args {
    /// workload size for the sanitizer tier (histories per process), overridable by VERIF_SAN_N
    pub fn san_n(&self, default: u64) -> u64 {
        std::env::var("VERIF_SAN_N").ok().and_then(|s| s.parse().ok()).unwrap_or(default)
    }
    pub fn tier_name(&self) -> &'static str {
        match self.tier {
            Tier::Quick => "quick",
            Tier::Thorough => "thorough",
            Tier::Sanitizer => "sanitizer",
        }
    }
    pub fn deadline(&self) -> Instant {
        self.started + Duration::from_secs_f64(self.budget)
    }
    /// deadline for a phase that may use `frac` of the total budget, counted from now
    pub fn phase_deadline(&self, frac: f64) -> Instant {
        let d = Instant::now() + Duration::from_secs_f64(self.budget * frac);
        d.min(self.deadline())
    }
    pub fn quick(&self) -> bool {
        self.tier == Tier::Quick
    }
}

fn main() {
    let argv: Vec<String> = std::env::args().collect();
    if argv.len() < 2 {
        eprintln!("usage: vcheck <ID> [--tier quick|thorough] [--seed N] [--root DIR] [--replay FILE]");
        std::process::exit(2);
    }
    let mut args = Args {
        id: argv[1].clone(),
        tier: match std::env::var("VERIF_TIER").as_deref() {
            Ok("thorough") => Tier::Thorough,
            Ok("sanitizer") => Tier::Sanitizer,
            _ => Tier::Quick,
        },
        seed: std::env::var("VERIF_SEED").ok().and_then(|s| s.parse::<i64>().ok()).map(|x| x as u64).unwrap_or(1),
        root: std::env::var("VERIF_ROOT").map(PathBuf::from).unwrap_or_else(|_| std::env::current_dir().unwrap()),
        replay: None,
        started: Instant::now(),
        budget: 0.0,
        rest: vec![],
    };
    let mut i = 2;
    while i < argv.len() {
        match argv[i].as_str() {
            "--tier" => {
                i += 1;
                args.tier = match argv[i].as_str() {
                    "thorough" => Tier::Thorough,
                    "sanitizer" => Tier::Sanitizer,
                    _ => Tier::Quick,
                };
            },
            "--seed" => {
                i += 1;
                args.seed = argv[i].parse::<i64>().map(|x| x as u64).unwrap_or(1);
            },
            "--root" => {
                i += 1;
                args.root = PathBuf::from(&argv[i]);
            },
            "--replay" => {
                i += 1;
                args.replay = Some(PathBuf::from(&argv[i]));
            },
            other => args.rest.push(other.to_string()),
        }
        i += 1;
    }
    args.budget = std::env::var("VERIF_BUDGET_S")
        .ok()
        .and_then(|s| s.parse().ok())
        .unwrap_or(match args.tier {
            Tier::Quick => 20.0,
            Tier::Thorough => 300.0,
            Tier::Sanitizer => 1.0e9,
        });

    if !cfg!(miri) {
        redirect_stdout();
    }
    report::install_panic_hook();
    let code = checks::dispatch(&args);
    std::process::exit(code);
}
