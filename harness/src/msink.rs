//! MSink: an abstract arena DOM driven purely by TreeSink calls, with built-in monitors:
//!  * contract monitor (C05): every call is validated against the documented TreeSink contract;
//!  * GC simulation (C18): `collect()` poisons everything not reachable from a root set, any later
//!    use of a poisoned handle is recorded;
//!  * call statistics, quirks-mode / line / parse-error bookkeeping.

use crate::tree::{TAttr, TData, TNode, NS_HTML};
use html5ever::interface::{ElementFlags, NodeOrText, QuirksMode, TreeSink};
use html5ever::tendril::StrTendril;
use html5ever::{Attribute, ExpandedName, QualName};
use markup5ever::{local_name, ns};
use std::borrow::Cow;
use std::cell::RefCell;
use std::collections::BTreeMap;
use std::rc::Rc;

pub struct HNode {
    pub id: usize,
    pub name: QualName,
    pub is_elem: bool,
}
pub type H = Rc<HNode>;

#[derive(Clone, Debug)]
pub enum Kind {
    Document,
    Fragment { host: usize },
    Doctype { name: String, public_id: String, system_id: String },
    Text(String),
    Comment(String),
    Pi { target: String, data: String },
    Element {
        attrs: Vec<(QualName, String)>,
        contents: Option<usize>,
        mathml_ip: bool,
        dup: bool,
        script_started: bool,
    },
}

pub struct N {
    pub kind: Kind,
    pub parent: Option<usize>,
    pub children: Vec<usize>,
    pub handle: H,
    pub poisoned: bool,
}

#[derive(Default)]
pub struct Inner {
    pub nodes: Vec<N>,
    pub quirks: Option<QuirksMode>,
    pub quirks_calls: u32,
    pub errors: Vec<String>,
    /// (rule id, detail)
    pub violations: Vec<(String, String)>,
    pub calls: BTreeMap<&'static str, u64>,
    pub checks: BTreeMap<&'static str, u64>,
    pub lines: Vec<u64>,
    pub doctypes: u32,
    pub created_elems: Vec<usize>,
    pub poisoned_total: u64,
    pub collections: u64,
    pub handle_uses_checked: u64,
    pub pops: Vec<usize>,
    pub clone_calls: Vec<usize>,
    /// how many option -> selectedcontent mirrorings actually copied at least one node
    pub mirrorings_with_copies: u64,
    pub form_assoc: Vec<(usize, usize)>,
}

pub struct MSink {
    pub inner: RefCell<Inner>,
    pub doc: H,
    /// answer of allow_declarative_shadow_roots
    pub allow_shadow: bool,
    /// perform the option -> selectedcontent cloning (abstract semantics)
    pub do_clone: bool,
}

fn dummy_name() -> QualName {
    QualName::new(None, ns!(), local_name!(""))
}

impl Default for MSink {
    fn default() -> Self {
        MSink::new()
    }
}

impl MSink {
    pub fn new() -> MSink {
        let doc = Rc::new(HNode { id: 0, name: dummy_name(), is_elem: false });
        let mut inner = Inner::default();
        inner.nodes.push(N {
            kind: Kind::Document,
            parent: None,
            children: vec![],
            handle: doc.clone(),
            poisoned: false,
        });
        MSink { inner: RefCell::new(inner), doc, allow_shadow: false, do_clone: true }
    }

    fn new_node(&self, kind: Kind, name: Option<QualName>) -> H {
        let mut i = self.inner.borrow_mut();
        let id = i.nodes.len();
        let is_elem = name.is_some();
        let h = Rc::new(HNode { id, name: name.unwrap_or_else(dummy_name), is_elem });
        i.nodes.push(N { kind, parent: None, children: vec![], handle: h.clone(), poisoned: false });
        h
    }

    fn call(&self, m: &'static str) {
        *self.inner.borrow_mut().calls.entry(m).or_insert(0) += 1;
    }
    fn checked(&self, rule: &'static str) {
        *self.inner.borrow_mut().checks.entry(rule).or_insert(0) += 1;
    }
    fn violate(&self, rule: &str, detail: String) {
        let mut i = self.inner.borrow_mut();
        if i.violations.len() < 16 {
            i.violations.push((rule.to_string(), detail));
        }
    }
    /// every handle argument of every call goes through here
    fn use_handle(&self, method: &'static str, h: &H) {
        let mut i = self.inner.borrow_mut();
        i.handle_uses_checked += 1;
        if h.id >= i.nodes.len() || !Rc::ptr_eq(&i.nodes[h.id].handle, h) {
            drop(i);
            self.violate("foreign-handle", format!("{method}: handle not created by this sink"));
            return;
        }
        if i.nodes[h.id].poisoned {
            let d = describe(&i, h.id);
            drop(i);
            self.violate("use-after-collect", format!("{method}: {d} was not traced/reachable at an earlier suspension"));
        }
    }

    pub fn describe(&self, id: usize) -> String {
        describe(&self.inner.borrow(), id)
    }

    fn is_elem(&self, id: usize) -> bool {
        matches!(self.inner.borrow().nodes[id].kind, Kind::Element { .. })
    }
    fn is_html_named(&self, id: usize, local: &str) -> bool {
        let i = self.inner.borrow();
        let n = &i.nodes[id];
        matches!(n.kind, Kind::Element { .. }) && n.handle.name.ns == ns!(html) && &*n.handle.name.local == local
    }
    fn can_have_children(&self, id: usize) -> bool {
        matches!(
            self.inner.borrow().nodes[id].kind,
            Kind::Document | Kind::Fragment { .. } | Kind::Element { .. }
        )
    }
    /// Is `anc` an inclusive ancestor of `node` (following parent links and fragment hosts)?
    fn is_inclusive_ancestor(&self, anc: usize, node: usize) -> bool {
        let i = self.inner.borrow();
        let mut cur = Some(node);
        let mut guard = 0;
        while let Some(c) = cur {
            if c == anc {
                return true;
            }
            guard += 1;
            if guard > i.nodes.len() + 1 {
                return true; // cycle already present
            }
            cur = match (&i.nodes[c].kind, i.nodes[c].parent) {
                (_, Some(p)) => Some(p),
                (Kind::Fragment { host }, None) => Some(*host),
                _ => None,
            };
        }
        false
    }

    fn detach(&self, id: usize) {
        let mut i = self.inner.borrow_mut();
        if let Some(p) = i.nodes[id].parent.take() {
            if let Some(pos) = i.nodes[p].children.iter().position(|&c| c == id) {
                i.nodes[p].children.remove(pos);
            }
        }
    }

    fn check_attr_list(&self, method: &'static str, attrs: &[Attribute]) {
        self.checked("no-duplicate-attr-qualname");
        for (k, a) in attrs.iter().enumerate() {
            if attrs[..k].iter().any(|b| b.name == a.name) {
                self.violate(
                    "duplicate-attribute",
                    format!("{method}: attribute list contains {:?} twice", a.name),
                );
            } else if !a.name.ns.is_empty() && attrs[..k].iter().any(|b| b.name.ns == a.name.ns && b.name.local == a.name.local) {
                // two names that differ only in the prefix they were written with: in a namespace-aware
                // attribute list these are one and the same name (Namespaces in XML, section 6.3)
                self.violate(
                    "duplicate-attribute-expanded-name",
                    format!("{method}: attribute list contains two attributes with namespace {:?} and local name {:?} (prefixes differ)", &*a.name.ns, &*a.name.local),
                );
            }
        }
    }

    /// common validation for inserting `child` below `parent`
    fn check_insert(&self, method: &'static str, parent: usize, child: &NodeOrText<H>, may_have_parent: bool) {
        self.checked("parent-can-have-children");
        if !self.can_have_children(parent) {
            self.violate("bad-parent-kind", format!("{method}: parent {} cannot have children", self.describe(parent)));
        }
        if let NodeOrText::AppendNode(c) = child {
            if !may_have_parent {
                self.checked("append-child-has-no-parent");
                if self.inner.borrow().nodes[c.id].parent.is_some() {
                    self.violate(
                        "child-has-parent",
                        format!("{method}: child {} already has a parent", self.describe(c.id)),
                    );
                }
            }
            self.checked("no-insert-under-self-or-descendant");
            if self.is_inclusive_ancestor(c.id, parent) {
                self.violate(
                    "cycle",
                    format!("{method}: inserting {} under itself or a descendant", self.describe(c.id)),
                );
            }
            let ck = self.inner.borrow().nodes[c.id].kind.clone();
            if matches!(ck, Kind::Document | Kind::Fragment { .. }) {
                self.violate("bad-child-kind", format!("{method}: child is a document/fragment"));
            }
        }
    }

    fn append_impl(&self, parent: usize, child: NodeOrText<H>) {
        match child {
            NodeOrText::AppendText(t) => {
                let mut i = self.inner.borrow_mut();
                if let Some(&last) = i.nodes[parent].children.last() {
                    if let Kind::Text(ref mut s) = i.nodes[last].kind {
                        s.push_str(&t);
                        return;
                    }
                }
                drop(i);
                let h = self.new_node(Kind::Text(t.to_string()), None);
                let mut i = self.inner.borrow_mut();
                i.nodes[h.id].parent = Some(parent);
                i.nodes[parent].children.push(h.id);
            },
            NodeOrText::AppendNode(c) => {
                self.detach(c.id);
                let mut i = self.inner.borrow_mut();
                i.nodes[c.id].parent = Some(parent);
                i.nodes[parent].children.push(c.id);
            },
        }
    }

    fn before_impl(&self, sibling: usize, child: NodeOrText<H>) {
        let parent = match self.inner.borrow().nodes[sibling].parent {
            Some(p) => p,
            None => return,
        };
        match child {
            NodeOrText::AppendText(t) => {
                let mut i = self.inner.borrow_mut();
                let pos = i.nodes[parent].children.iter().position(|&c| c == sibling).unwrap();
                if pos > 0 {
                    let prev = i.nodes[parent].children[pos - 1];
                    if let Kind::Text(ref mut s) = i.nodes[prev].kind {
                        s.push_str(&t);
                        return;
                    }
                }
                drop(i);
                let h = self.new_node(Kind::Text(t.to_string()), None);
                let mut i = self.inner.borrow_mut();
                i.nodes[h.id].parent = Some(parent);
                i.nodes[parent].children.insert(pos, h.id);
            },
            NodeOrText::AppendNode(c) => {
                if c.id == sibling {
                    return;
                }
                self.detach(c.id);
                let mut i = self.inner.borrow_mut();
                let pos = i.nodes[parent].children.iter().position(|&x| x == sibling).unwrap();
                i.nodes[c.id].parent = Some(parent);
                i.nodes[parent].children.insert(pos, c.id);
            },
        }
    }

    // ----------------------------------------------------------------------------------------
    // GC simulation

    /// Poison every node not reachable from `roots` over parent/children/template-contents edges.
    /// Returns the number of newly poisoned nodes.
    pub fn collect(&self, roots: &[usize]) -> u64 {
        let mut i = self.inner.borrow_mut();
        let n = i.nodes.len();
        let mut mark = vec![false; n];
        let mut stack: Vec<usize> = roots.iter().copied().filter(|&r| r < n).collect();
        while let Some(x) = stack.pop() {
            if mark[x] {
                continue;
            }
            mark[x] = true;
            if let Some(p) = i.nodes[x].parent {
                stack.push(p);
            }
            for &c in &i.nodes[x].children {
                stack.push(c);
            }
            match i.nodes[x].kind {
                Kind::Element { contents: Some(c), .. } => stack.push(c),
                Kind::Fragment { host } => stack.push(host),
                _ => {},
            }
        }
        let mut newly = 0;
        for k in 0..n {
            if !mark[k] && !i.nodes[k].poisoned {
                i.nodes[k].poisoned = true;
                newly += 1;
            }
        }
        i.poisoned_total += newly;
        i.collections += 1;
        newly
    }

    // ----------------------------------------------------------------------------------------
    // "scripts": DOM mutations between parser steps, as a page script could perform them on nodes
    // it can reach from the document

    /// ids of element nodes currently connected to the document (tree order)
    pub fn attached_elements(&self) -> Vec<usize> {
        let i = self.inner.borrow();
        let mut out = vec![];
        let mut stack: Vec<usize> = i.nodes[0].children.iter().rev().copied().collect();
        while let Some(x) = stack.pop() {
            if matches!(i.nodes[x].kind, Kind::Element { .. }) {
                out.push(x);
            }
            for &c in i.nodes[x].children.iter().rev() {
                stack.push(c);
            }
        }
        out
    }

    /// node.remove()
    pub fn script_remove(&self, id: usize) {
        self.detach(id);
    }

    /// new_parent.appendChild(node); refused (false) if it would create a cycle
    pub fn script_move(&self, id: usize, new_parent: usize) -> bool {
        if id == new_parent || self.is_inclusive_ancestor(id, new_parent) || !self.can_have_children(new_parent) {
            return false;
        }
        self.detach(id);
        let mut i = self.inner.borrow_mut();
        i.nodes[id].parent = Some(new_parent);
        i.nodes[new_parent].children.push(id);
        true
    }

    /// A few random script actions, deterministic in (seed, the current shape of the attached tree).
    pub fn run_script(&self, seed: u64) -> u32 {
        let mut rng = crate::prng::Rng::new(seed);
        let mut done = 0;
        for _ in 0..rng.range(0, 2) {
            let elems = self.attached_elements();
            // never touch the root element itself
            if elems.len() < 2 {
                break;
            }
            let victim = elems[1 + rng.below(elems.len() - 1)];
            if rng.chance(1, 2) {
                self.script_remove(victim);
                done += 1;
            } else {
                let target = elems[rng.below(elems.len())];
                if self.script_move(victim, target) {
                    done += 1;
                }
            }
        }
        done
    }

    // ----------------------------------------------------------------------------------------
    // export

    pub fn to_tnode(&self, id: usize) -> TNode {
        let i = self.inner.borrow();
        to_tnode(&i, id)
    }
    pub fn document_tree(&self) -> TNode {
        self.to_tnode(0)
    }
    pub fn quirks(&self) -> Option<QuirksMode> {
        self.inner.borrow().quirks
    }
    pub fn take_violations(&self) -> Vec<(String, String)> {
        std::mem::take(&mut self.inner.borrow_mut().violations)
    }
    pub fn node_count(&self) -> usize {
        self.inner.borrow().nodes.len()
    }
    pub fn parent_of(&self, id: usize) -> Option<usize> {
        self.inner.borrow().nodes[id].parent
    }

    // option -> selectedcontent, abstract semantics (tree order, deep copies, `selected` attribute
    // standing in for selectedness, as the sink documentation does)
    fn clone_option_impl(&self, option: usize) {
        let select = {
            let i = self.inner.borrow();
            let mut seen_optgroup = false;
            let mut cur = i.nodes[option].parent;
            let mut found = None;
            while let Some(c) = cur {
                if let Kind::Element { .. } = i.nodes[c].kind {
                    let nm = &i.nodes[c].handle.name;
                    let l: &str = &nm.local;
                    if matches!(l, "datalist" | "hr" | "option") {
                        break;
                    }
                    if l == "optgroup" {
                        if seen_optgroup {
                            break;
                        }
                        seen_optgroup = true;
                    }
                    if l == "select" {
                        found = Some(c);
                        break;
                    }
                }
                cur = i.nodes[c].parent;
            }
            found
        };
        let Some(select) = select else { return };
        let target = {
            let i = self.inner.borrow();
            if let Kind::Element { attrs, .. } = &i.nodes[select].kind {
                if attrs.iter().any(|a| &*a.0.local == "multiple") {
                    return;
                }
            }
            // first selectedcontent descendant in tree order
            let mut stack: Vec<usize> = i.nodes[select].children.iter().rev().copied().collect();
            let mut found = None;
            while let Some(x) = stack.pop() {
                if matches!(i.nodes[x].kind, Kind::Element { .. }) && &*i.nodes[x].handle.name.local == "selectedcontent" {
                    found = Some(x);
                    break;
                }
                for &c in i.nodes[x].children.iter().rev() {
                    stack.push(c);
                }
            }
            found
        };
        let Some(target) = target else { return };
        let selected = {
            let i = self.inner.borrow();
            matches!(&i.nodes[option].kind, Kind::Element{attrs, ..} if attrs.iter().any(|a| &*a.0.local == "selected"))
        };
        if !selected {
            return;
        }
        // deep copy option's children
        let kids: Vec<usize> = self.inner.borrow().nodes[option].children.clone();
        let mut copies = Vec::new();
        for k in kids {
            copies.push(self.deep_copy(k));
        }
        let mut i = self.inner.borrow_mut();
        if !copies.is_empty() {
            i.mirrorings_with_copies += 1;
        }
        let old: Vec<usize> = std::mem::take(&mut i.nodes[target].children);
        for o in old {
            i.nodes[o].parent = None;
        }
        for &c in &copies {
            i.nodes[c].parent = Some(target);
        }
        i.nodes[target].children = copies;
    }

    fn deep_copy(&self, root: usize) -> usize {
        // iterative copy: (source, copy-parent)
        let mut result = None;
        let mut stack = vec![(root, None::<usize>)];
        while let Some((src, cparent)) = stack.pop() {
            let (kind, name, kids) = {
                let i = self.inner.borrow();
                let n = &i.nodes[src];
                (
                    n.kind.clone(),
                    if n.handle.is_elem { Some(n.handle.name.clone()) } else { None },
                    n.children.clone(),
                )
            };
            let src_contents = match &kind {
                Kind::Element { contents, .. } => *contents,
                _ => None,
            };
            let kind = match kind {
                Kind::Element { attrs, mathml_ip, dup, script_started, .. } => {
                    Kind::Element { attrs, contents: None, mathml_ip, dup, script_started }
                },
                k => k,
            };
            let h = self.new_node(kind, name);
            // a template's cloning steps copy its contents too
            if let Some(sc) = src_contents {
                let f = self.new_node(Kind::Fragment { host: h.id }, None);
                if let Kind::Element { ref mut contents, .. } = self.inner.borrow_mut().nodes[h.id].kind {
                    *contents = Some(f.id);
                }
                let ckids = self.inner.borrow().nodes[sc].children.clone();
                for &k in ckids.iter().rev() {
                    stack.push((k, Some(f.id)));
                }
            }
            {
                let mut i = self.inner.borrow_mut();
                i.nodes[h.id].parent = cparent;
                if let Some(p) = cparent {
                    i.nodes[p].children.push(h.id);
                }
            }
            if result.is_none() {
                result = Some(h.id);
            }
            // push children in reverse so they are appended in order
            for &k in kids.iter().rev() {
                stack.push((k, Some(h.id)));
            }
        }
        result.unwrap()
    }
}

fn describe(i: &Inner, id: usize) -> String {
    let n = &i.nodes[id];
    match &n.kind {
        Kind::Document => "#document".into(),
        Kind::Fragment { host } => format!("#fragment(of node {host})"),
        Kind::Doctype { name, .. } => format!("<!DOCTYPE {name}>"),
        Kind::Text(t) => format!("text {:?}", t.chars().take(20).collect::<String>()),
        Kind::Comment(t) => format!("comment {:?}", t.chars().take(20).collect::<String>()),
        Kind::Pi { target, .. } => format!("<?{target}?>"),
        Kind::Element { .. } => {
            let nm = &n.handle.name;
            if nm.ns == ns!(html) {
                format!("<{}>#{}", nm.local, id)
            } else {
                format!("<{{{}}}{}>#{}", nm.ns, nm.local, id)
            }
        },
    }
}

fn to_tnode(i: &Inner, root: usize) -> TNode {
    fn mk(i: &Inner, id: usize) -> TNode {
        let n = &i.nodes[id];
        let data = match &n.kind {
            Kind::Document => TData::Document,
            Kind::Fragment { .. } => TData::Fragment,
            Kind::Doctype { name, public_id, system_id } => TData::Doctype {
                name: name.clone(),
                public_id: public_id.clone(),
                system_id: system_id.clone(),
            },
            Kind::Text(t) => TData::Text(t.clone()),
            Kind::Comment(t) => TData::Comment(t.clone()),
            Kind::Pi { target, data } => TData::Pi { target: target.clone(), data: data.clone() },
            Kind::Element { attrs, dup, .. } => TData::Element {
                prefix: n.handle.name.prefix.as_ref().map(|p| p.to_string()),
                ns: n.handle.name.ns.to_string(),
                local: n.handle.name.local.to_string(),
                attrs: attrs
                    .iter()
                    .map(|(q, v)| TAttr {
                        prefix: q.prefix.as_ref().map(|p| p.to_string()),
                        ns: q.ns.to_string(),
                        local: q.local.to_string(),
                        value: v.clone(),
                    })
                    .collect(),
                dup_attrs: *dup,
            },
        };
        TNode::new(data)
    }
    struct Frame {
        id: usize,
        node: TNode,
        next: usize,
        contents_done: bool,
        is_contents: bool,
    }
    let mut stack = vec![Frame { id: root, node: mk(i, root), next: 0, contents_done: false, is_contents: false }];
    loop {
        let top = stack.last_mut().unwrap();
        if !top.contents_done {
            top.contents_done = true;
            if let Kind::Element { contents: Some(c), .. } = i.nodes[top.id].kind {
                stack.push(Frame { id: c, node: mk(i, c), next: 0, contents_done: true, is_contents: true });
                continue;
            }
        }
        if top.next < i.nodes[top.id].children.len() {
            let c = i.nodes[top.id].children[top.next];
            top.next += 1;
            stack.push(Frame { id: c, node: mk(i, c), next: 0, contents_done: false, is_contents: false });
            continue;
        }
        let done = stack.pop().unwrap();
        match stack.last_mut() {
            None => return done.node,
            Some(p) => {
                if done.is_contents {
                    p.node.contents = Some(Box::new(done.node));
                } else {
                    p.node.children.push(done.node);
                }
            },
        }
    }
}

impl TreeSink for MSink {
    type Handle = H;
    type Output = MSink;
    type ElemName<'a> = ExpandedName<'a>;

    fn finish(self) -> MSink {
        self
    }

    fn parse_error(&self, msg: Cow<'static, str>) {
        self.call("parse_error");
        self.inner.borrow_mut().errors.push(msg.into_owned());
    }

    fn get_document(&self) -> H {
        self.call("get_document");
        self.doc.clone()
    }

    fn elem_name<'a>(&'a self, target: &'a H) -> ExpandedName<'a> {
        self.call("elem_name");
        self.use_handle("elem_name", target);
        self.checked("elem_name-on-element");
        if !target.is_elem {
            self.violate("elem_name-non-element", format!("elem_name called on {}", self.describe(target.id)));
        }
        target.name.expanded()
    }

    fn create_element(&self, name: QualName, attrs: Vec<Attribute>, flags: ElementFlags) -> H {
        self.call("create_element");
        self.check_attr_list("create_element", &attrs);
        let is_template = flags.template;
        let h = self.new_node(
            Kind::Element {
                attrs: attrs.into_iter().map(|a| (a.name, a.value.to_string())).collect(),
                contents: None,
                mathml_ip: flags.mathml_annotation_xml_integration_point,
                dup: flags.had_duplicate_attributes,
                script_started: false,
            },
            Some(name),
        );
        if is_template {
            let f = self.new_node(Kind::Fragment { host: h.id }, None);
            if let Kind::Element { ref mut contents, .. } = self.inner.borrow_mut().nodes[h.id].kind {
                *contents = Some(f.id);
            }
        }
        self.inner.borrow_mut().created_elems.push(h.id);
        h
    }

    fn create_comment(&self, text: StrTendril) -> H {
        self.call("create_comment");
        self.new_node(Kind::Comment(text.to_string()), None)
    }

    fn create_pi(&self, target: StrTendril, data: StrTendril) -> H {
        self.call("create_pi");
        self.new_node(Kind::Pi { target: target.to_string(), data: data.to_string() }, None)
    }

    fn append(&self, parent: &H, child: NodeOrText<H>) {
        self.call("append");
        self.use_handle("append", parent);
        if let NodeOrText::AppendNode(c) = &child {
            self.use_handle("append", c);
        }
        self.check_insert("append", parent.id, &child, false);
        if parent.id == 0 {
            if let NodeOrText::AppendNode(_) = &child {
                // nothing: order constraints are checked at append_doctype_to_document
            }
        }
        self.append_impl(parent.id, child);
    }

    fn append_based_on_parent_node(&self, element: &H, prev_element: &H, child: NodeOrText<H>) {
        self.call("append_based_on_parent_node");
        self.use_handle("append_based_on_parent_node", element);
        self.use_handle("append_based_on_parent_node", prev_element);
        if let NodeOrText::AppendNode(c) = &child {
            self.use_handle("append_based_on_parent_node", c);
        }
        self.checked("append_based-elements");
        if !self.is_elem(element.id) || !self.is_elem(prev_element.id) {
            self.violate("append_based-non-element", "append_based_on_parent_node: element/prev_element not elements".into());
        }
        let has_parent = self.inner.borrow().nodes[element.id].parent.is_some();
        if has_parent {
            *self.inner.borrow_mut().calls.entry("append_based:before_sibling").or_insert(0) += 1;
            let p = self.inner.borrow().nodes[element.id].parent.unwrap();
            self.check_insert("append_based_on_parent_node", p, &child, true);
            self.before_impl(element.id, child);
        } else {
            *self.inner.borrow_mut().calls.entry("append_based:append").or_insert(0) += 1;
            self.check_insert("append_based_on_parent_node", prev_element.id, &child, false);
            self.append_impl(prev_element.id, child);
        }
    }

    fn append_doctype_to_document(&self, name: StrTendril, public_id: StrTendril, system_id: StrTendril) {
        self.call("append_doctype_to_document");
        self.checked("doctype-once-before-elements");
        {
            let i = self.inner.borrow();
            if i.doctypes >= 1 {
                drop(i);
                self.violate("doctype-twice", "append_doctype_to_document called more than once".into());
            } else if i.nodes[0].children.iter().any(|&c| matches!(i.nodes[c].kind, Kind::Element { .. })) {
                drop(i);
                self.violate("doctype-after-element", "doctype appended after an element child of the document".into());
            }
        }
        self.inner.borrow_mut().doctypes += 1;
        let h = self.new_node(
            Kind::Doctype {
                name: name.to_string(),
                public_id: public_id.to_string(),
                system_id: system_id.to_string(),
            },
            None,
        );
        let mut i = self.inner.borrow_mut();
        i.nodes[h.id].parent = Some(0);
        i.nodes[0].children.push(h.id);
    }

    fn mark_script_already_started(&self, node: &H) {
        self.call("mark_script_already_started");
        self.use_handle("mark_script_already_started", node);
        self.checked("mark_script-on-script");
        if !(self.is_elem(node.id) && &*node.name.local == "script") {
            self.violate("mark_script-non-script", format!("mark_script_already_started on {}", self.describe(node.id)));
        }
        if let Kind::Element { ref mut script_started, .. } = self.inner.borrow_mut().nodes[node.id].kind {
            *script_started = true;
        }
    }

    fn pop(&self, node: &H) {
        self.call("pop");
        self.use_handle("pop", node);
        self.checked("pop-element");
        if !self.is_elem(node.id) {
            self.violate("pop-non-element", format!("pop on {}", self.describe(node.id)));
        }
        self.inner.borrow_mut().pops.push(node.id);
    }

    fn get_template_contents(&self, target: &H) -> H {
        self.call("get_template_contents");
        self.use_handle("get_template_contents", target);
        self.checked("template_contents-on-template");
        let c = match self.inner.borrow().nodes[target.id].kind {
            Kind::Element { contents: Some(c), .. } => Some(c),
            _ => None,
        };
        if !self.is_html_named(target.id, "template") || c.is_none() {
            self.violate("template_contents-non-template", format!("get_template_contents on {}", self.describe(target.id)));
        }
        match c {
            Some(c) => self.inner.borrow().nodes[c].handle.clone(),
            None => target.clone(),
        }
    }

    fn same_node(&self, x: &H, y: &H) -> bool {
        self.call("same_node");
        self.use_handle("same_node", x);
        self.use_handle("same_node", y);
        Rc::ptr_eq(x, y)
    }

    fn set_quirks_mode(&self, mode: QuirksMode) {
        self.call("set_quirks_mode");
        let mut i = self.inner.borrow_mut();
        i.quirks = Some(mode);
        i.quirks_calls += 1;
    }

    fn append_before_sibling(&self, sibling: &H, new_node: NodeOrText<H>) {
        self.call("append_before_sibling");
        self.use_handle("append_before_sibling", sibling);
        if let NodeOrText::AppendNode(c) = &new_node {
            self.use_handle("append_before_sibling", c);
        }
        self.checked("before_sibling-attached-non-text");
        let (is_text, parent) = {
            let i = self.inner.borrow();
            (matches!(i.nodes[sibling.id].kind, Kind::Text(_)), i.nodes[sibling.id].parent)
        };
        if is_text {
            self.violate("before_sibling-text", "append_before_sibling: reference sibling is a text node".into());
        }
        match parent {
            None => self.violate("before_sibling-detached", "append_before_sibling: reference sibling has no parent".into()),
            Some(p) => {
                self.check_insert("append_before_sibling", p, &new_node, true);
                if let NodeOrText::AppendNode(c) = &new_node {
                    if c.id == sibling.id {
                        self.violate("before_sibling-self", "append_before_sibling: node inserted before itself".into());
                    }
                }
            },
        }
        self.before_impl(sibling.id, new_node);
    }

    fn add_attrs_if_missing(&self, target: &H, attrs: Vec<Attribute>) {
        self.call("add_attrs_if_missing");
        self.use_handle("add_attrs_if_missing", target);
        self.check_attr_list("add_attrs_if_missing", &attrs);
        self.checked("add_attrs-on-element");
        if !self.is_elem(target.id) {
            self.violate("add_attrs-non-element", format!("add_attrs_if_missing on {}", self.describe(target.id)));
            return;
        }
        if let Kind::Element { attrs: ref mut ex, .. } = self.inner.borrow_mut().nodes[target.id].kind {
            for a in attrs {
                if !ex.iter().any(|e| e.0 == a.name) {
                    ex.push((a.name, a.value.to_string()));
                }
            }
        }
    }

    fn associate_with_form(&self, target: &H, form: &H, nodes: (&H, Option<&H>)) {
        self.call("associate_with_form");
        self.use_handle("associate_with_form", target);
        self.use_handle("associate_with_form", form);
        self.use_handle("associate_with_form", nodes.0);
        if let Some(n) = nodes.1 {
            self.use_handle("associate_with_form", n);
        }
        self.checked("associate-form-kinds");
        if !self.is_elem(target.id) {
            self.violate("associate-non-element", format!("associate_with_form target {}", self.describe(target.id)));
        } else if !["button", "fieldset", "input", "object", "output", "select", "textarea", "img"].iter().any(|n| self.is_html_named(target.id, n)) {
            // "the given form-associatable element": an HTML button/fieldset/input/object/output/select/textarea/img
            self.violate("associate-non-form-associatable", format!("associate_with_form target {} is not a form-associatable HTML element", self.describe(target.id)));
        }
        if !self.is_html_named(form.id, "form") {
            self.violate("associate-non-form", format!("associate_with_form form {}", self.describe(form.id)));
        }
        self.inner.borrow_mut().form_assoc.push((target.id, form.id));
    }

    fn remove_from_parent(&self, target: &H) {
        self.call("remove_from_parent");
        self.use_handle("remove_from_parent", target);
        self.detach(target.id);
    }

    fn reparent_children(&self, node: &H, new_parent: &H) {
        self.call("reparent_children");
        self.use_handle("reparent_children", node);
        self.use_handle("reparent_children", new_parent);
        self.checked("reparent-kinds-and-no-cycle");
        if !self.can_have_children(node.id) || !self.can_have_children(new_parent.id) {
            self.violate("reparent-bad-kind", "reparent_children on a node that cannot have children".into());
            return;
        }
        if self.is_inclusive_ancestor(node.id, new_parent.id) {
            self.violate("cycle", "reparent_children: new parent is the node itself or one of its descendants".into());
            return;
        }
        let mut i = self.inner.borrow_mut();
        let kids = std::mem::take(&mut i.nodes[node.id].children);
        for &k in &kids {
            i.nodes[k].parent = Some(new_parent.id);
        }
        // text merging at the join is not specified by the trait; keep nodes as they are
        i.nodes[new_parent.id].children.extend(kids);
    }

    fn is_mathml_annotation_xml_integration_point(&self, handle: &H) -> bool {
        self.call("is_mathml_annotation_xml_integration_point");
        self.use_handle("is_mathml_annotation_xml_integration_point", handle);
        self.checked("mathml_ip-on-element");
        match self.inner.borrow().nodes[handle.id].kind {
            Kind::Element { mathml_ip, .. } => mathml_ip,
            _ => {
                drop(self.inner.borrow());
                false
            },
        }
    }

    fn set_current_line(&self, line_number: u64) {
        self.call("set_current_line");
        self.inner.borrow_mut().lines.push(line_number);
    }

    fn allow_declarative_shadow_roots(&self, intended_parent: &H) -> bool {
        self.call("allow_declarative_shadow_roots");
        self.use_handle("allow_declarative_shadow_roots", intended_parent);
        self.allow_shadow
    }

    fn attach_declarative_shadow(&self, location: &H, template: &H, _attrs: &[Attribute]) -> bool {
        self.call("attach_declarative_shadow");
        self.use_handle("attach_declarative_shadow", location);
        self.use_handle("attach_declarative_shadow", template);
        false
    }

    fn maybe_clone_an_option_into_selectedcontent(&self, option: &H) {
        self.call("maybe_clone_an_option_into_selectedcontent");
        self.use_handle("maybe_clone_an_option_into_selectedcontent", option);
        self.checked("clone_option-on-option");
        if !self.is_html_named(option.id, "option") {
            self.violate("clone_option-non-option", format!("maybe_clone_an_option_into_selectedcontent on {}", self.describe(option.id)));
            return;
        }
        self.inner.borrow_mut().clone_calls.push(option.id);
        if self.do_clone {
            self.clone_option_impl(option.id);
        }
    }
}

/// Tracer that collects ids.
pub struct IdTracer {
    pub ids: RefCell<Vec<usize>>,
}
impl html5ever::interface::Tracer for IdTracer {
    type Handle = H;
    fn trace_handle(&self, node: &H) {
        self.ids.borrow_mut().push(node.id);
    }
}

pub fn html_ns() -> &'static str {
    NS_HTML
}
