//! Counters, violation bookkeeping, known-finding classification and evidence files.

use serde_json::{json, Map, Value};
use std::cell::RefCell;
use std::collections::{BTreeMap, BTreeSet, HashSet};
use std::path::PathBuf;
use std::time::Instant;

pub struct Violation {
    /// Stable classification key (matched against known_findings.json).
    pub signature: String,
    /// One-line human description.
    pub summary: String,
    /// Everything needed to re-run exactly this case.
    pub replay: Value,
}

#[derive(Default)]
pub struct Stats {
    pub evaluations: u64,
    pub distinct: HashSet<u64>,
    pub counters: BTreeMap<String, u64>,
    pub sets: BTreeMap<String, BTreeSet<String>>,
    pub samples: Vec<Value>,
    pub violations: Vec<Violation>,
    pub inconclusive: Vec<String>,
    pub maxima: BTreeMap<String, u64>,
}

pub const MAX_SAMPLES: usize = 12;
pub const MAX_VIOLATIONS_KEPT: usize = 40;

impl Stats {
    pub fn new() -> Stats {
        Stats::default()
    }
    pub fn count(&mut self, key: &str) {
        *self.counters.entry(key.to_string()).or_insert(0) += 1;
    }
    pub fn add(&mut self, key: &str, n: u64) {
        *self.counters.entry(key.to_string()).or_insert(0) += n;
    }
    pub fn max(&mut self, key: &str, n: u64) {
        let e = self.maxima.entry(key.to_string()).or_insert(0);
        if n > *e {
            *e = n;
        }
    }
    pub fn observe(&mut self, set: &str, item: &str) {
        let s = self.sets.entry(set.to_string()).or_default();
        if s.len() < 4096 {
            s.insert(item.to_string());
        }
    }
    /// Register one executed case. `nontrivial_hash` is Some(hash of the case) when the
    /// case is non-trivial by the check's stated rule.
    pub fn case(&mut self, nontrivial_hash: Option<u64>) {
        self.evaluations += 1;
        if let Some(h) = nontrivial_hash {
            self.distinct.insert(h);
        }
    }
    pub fn sample(&mut self, v: Value) {
        if self.samples.len() < MAX_SAMPLES {
            self.samples.push(v);
        }
    }
    pub fn violation(&mut self, signature: &str, summary: &str, replay: Value) {
        self.count("violations_raw");
        // keep at most a few per signature so that one defect cannot hide another
        let same = self.violations.iter().filter(|v| v.signature == signature).count();
        if same >= 3 || self.violations.len() >= MAX_VIOLATIONS_KEPT {
            return;
        }
        self.violations.push(Violation {
            signature: signature.to_string(),
            summary: summary.to_string(),
            replay,
        });
    }
    pub fn inconclusive(&mut self, why: &str) {
        if self.inconclusive.len() < 20 {
            self.inconclusive.push(why.to_string());
        }
    }
    pub fn merge(&mut self, o: Stats) {
        self.evaluations += o.evaluations;
        self.distinct.extend(o.distinct);
        for (k, v) in o.counters {
            *self.counters.entry(k).or_insert(0) += v;
        }
        for (k, v) in o.maxima {
            let e = self.maxima.entry(k).or_insert(0);
            if v > *e {
                *e = v;
            }
        }
        for (k, v) in o.sets {
            self.sets.entry(k).or_default().extend(v);
        }
        for s in o.samples {
            if self.samples.len() < MAX_SAMPLES {
                self.samples.push(s);
            }
        }
        for v in o.violations {
            let same = self.violations.iter().filter(|x| x.signature == v.signature).count();
            if same < 3 && self.violations.len() < MAX_VIOLATIONS_KEPT {
                self.violations.push(v);
            }
        }
        self.inconclusive.extend(o.inconclusive);
    }
}

// ---------------------------------------------------------------------------------------------
// panic capture

thread_local! {
    static LAST_PANIC: RefCell<Option<String>> = const { RefCell::new(None) };
    static QUIET: std::cell::Cell<bool> = const { std::cell::Cell::new(true) };
}

pub fn install_panic_hook() {
    std::panic::set_hook(Box::new(|info| {
        let msg = if let Some(s) = info.payload().downcast_ref::<&str>() {
            s.to_string()
        } else if let Some(s) = info.payload().downcast_ref::<String>() {
            s.clone()
        } else {
            "<non-string panic>".to_string()
        };
        let loc = info
            .location()
            .map(|l| format!("{}:{}", l.file(), l.line()))
            .unwrap_or_default();
        let full = format!("{msg} @ {loc}");
        LAST_PANIC.with(|p| *p.borrow_mut() = Some(full.clone()));
        if !QUIET.with(|q| q.get()) {
            eprintln!("panic: {full}");
        }
    }));
}

/// Run `f`, converting a panic into Err(message @ file:line).
pub fn catch<T>(f: impl FnOnce() -> T) -> Result<T, String> {
    LAST_PANIC.with(|p| *p.borrow_mut() = None);
    match std::panic::catch_unwind(std::panic::AssertUnwindSafe(f)) {
        Ok(v) => Ok(v),
        Err(_) => Err(LAST_PANIC
            .with(|p| p.borrow_mut().take())
            .unwrap_or_else(|| "<panic>".to_string())),
    }
}

/// Strip things that vary between occurrences (numbers, quoted payloads) from a panic message
/// so it can serve as a signature.
pub fn panic_signature(msg: &str) -> String {
    let mut out = String::new();
    let mut last_hash = false;
    for ch in msg.chars() {
        if ch.is_ascii_digit() {
            if !last_hash {
                out.push('#');
                last_hash = true;
            }
        } else {
            out.push(ch);
            last_hash = false;
        }
    }
    // keep file:line location precise: re-append the raw location
    if let Some(idx) = msg.rfind(" @ ") {
        let head: String = out[..out.rfind(" @ ").unwrap_or(out.len())].chars().take(80).collect();
        return format!("{head} @ {}", &msg[idx + 3..]);
    }
    out.chars().take(120).collect()
}

// ---------------------------------------------------------------------------------------------
// parallel execution

/// Run `f(shard, nshards, &mut Stats)` on `n` threads and merge the results.
pub fn par_run<F>(n: usize, f: F) -> Stats
where
    F: Fn(usize, usize, &mut Stats) + Sync,
{
    let mut total = Stats::new();
    std::thread::scope(|sc| {
        let mut hs = Vec::new();
        for i in 0..n {
            let fr = &f;
            hs.push(
                std::thread::Builder::new()
                    .stack_size(16 << 20)
                    .spawn_scoped(sc, move || {
                        let mut st = Stats::new();
                        match catch(|| fr(i, n, &mut st)) {
                            Ok(()) => {},
                            Err(m) => st.inconclusive(&format!("harness worker {i} panicked: {m}")),
                        }
                        st
                    })
                    .unwrap(),
            );
        }
        for h in hs {
            match h.join() {
                Ok(st) => total.merge(st),
                Err(_) => total.inconclusive("worker thread died"),
            }
        }
    });
    total
}

pub fn nthreads() -> usize {
    std::env::var("VERIF_JOBS")
        .ok()
        .and_then(|s| s.parse().ok())
        .unwrap_or_else(|| std::thread::available_parallelism().map(|n| n.get()).unwrap_or(8))
        .clamp(1, 64)
}

// ---------------------------------------------------------------------------------------------
// finishing a check

pub struct Meta {
    pub id: String,
    pub tier: String,
    pub seed: u64,
    pub rule: String,
    pub assumptions: Vec<String>,
    pub exhaustive: bool,
    /// (counter or set name, minimum) — the run is inconclusive if it observed less.
    pub require: Vec<(String, u64)>,
    pub root: PathBuf,
    pub extra: Map<String, Value>,
}

fn load_known(root: &PathBuf) -> (Vec<(String, String, String)>, Vec<(String, String)>) {
    let mut known = Vec::new();
    let mut fixed = Vec::new();
    let p = root.join("known_findings.json");
    if let Ok(s) = std::fs::read_to_string(&p) {
        if let Ok(v) = serde_json::from_str::<Value>(&s) {
            if let Some(a) = v.get("known").and_then(|x| x.as_array()) {
                for e in a {
                    known.push((
                        e["property"].as_str().unwrap_or("").to_string(),
                        e["signature"].as_str().unwrap_or("").to_string(),
                        e["what"].as_str().unwrap_or("").to_string(),
                    ));
                }
            }
            if let Some(a) = v.get("fixed").and_then(|x| x.as_array()) {
                for e in a {
                    fixed.push((
                        e["property"].as_str().unwrap_or("").to_string(),
                        e["signature"].as_str().unwrap_or("").to_string(),
                    ));
                }
            }
        }
    }
    (known, fixed)
}

/// Final stdout (the real one; fd 1 may have been redirected to /dev/null).
pub fn out_line(s: &str) {
    crate::stdout_real(|f| {
        let _ = writeln!(f, "{s}");
    });
}

pub fn finish(meta: Meta, mut st: Stats, started: Instant) -> i32 {
    let (known, _fixed) = load_known(&meta.root);
    let wall = started.elapsed().as_secs_f64();

    let mut required = Map::new();
    for (name, min) in &meta.require {
        let got = st
            .counters
            .get(name)
            .copied()
            .or_else(|| st.sets.get(name).map(|s| s.len() as u64))
            .or_else(|| st.maxima.get(name).copied())
            .unwrap_or(0);
        required.insert(name.clone(), json!({"minimum": min, "observed": got}));
        if got < *min {
            st.inconclusive(&format!("observed too little: {name}={got} < {min}"));
        }
    }

    let mut new_violations = 0;
    let mut known_hits: BTreeMap<String, (String, u64)> = BTreeMap::new();
    let replay_dir = meta.root.join("replays").join(&meta.id);
    let mut lines = Vec::new();
    for v in &st.violations {
        if let Some(k) = known.iter().find(|k| k.0 == meta.id && k.1 == v.signature) {
            let e = known_hits.entry(v.signature.clone()).or_insert((k.2.clone(), 0));
            e.1 += 1;
            continue;
        }
        new_violations += 1;
        let _ = std::fs::create_dir_all(&replay_dir);
        let mut body = v.replay.clone();
        if let Value::Object(ref mut m) = body {
            m.insert("property".into(), json!(meta.id));
            m.insert("signature".into(), json!(v.signature));
            m.insert("summary".into(), json!(v.summary));
            m.insert("seed".into(), json!(meta.seed));
            m.insert("tier".into(), json!(meta.tier));
        }
        let text = serde_json::to_string_pretty(&body).unwrap();
        let h = crate::prng::hash_str(&format!("{}{}", v.signature, text));
        let path = replay_dir.join(format!("{:016x}.json", h));
        let _ = std::fs::write(&path, text);
        lines.push(format!(
            "VIOLATION property={} replay={} signature={:?} {}",
            meta.id,
            path.display(),
            v.signature,
            v.summary.chars().take(300).collect::<String>()
        ));
    }
    for (sig, (what, n)) in &known_hits {
        lines.push(format!(
            "KNOWN-FINDING: property={} {} [signature={} occurrences_kept={}]",
            meta.id, what, sig, n
        ));
    }

    // evidence
    let mut cov = Map::new();
    cov.insert("evaluations".into(), json!(st.evaluations));
    cov.insert("distinct_nontrivial".into(), json!(st.distinct.len()));
    cov.insert("rule".into(), json!(meta.rule));
    cov.insert("samples".into(), Value::Array(st.samples.clone()));
    cov.insert("exhaustive".into(), json!(meta.exhaustive));
    // the run is INCONCLUSIVE (exit 2), never "held", when one of these is not reached
    cov.insert("required_minimum_observations".into(), Value::Object(required));
    let mut counters = Map::new();
    for (k, v) in &st.counters {
        counters.insert(k.clone(), json!(v));
    }
    cov.insert("counters".into(), Value::Object(counters));
    let mut maxima = Map::new();
    for (k, v) in &st.maxima {
        maxima.insert(k.clone(), json!(v));
    }
    cov.insert("maxima".into(), Value::Object(maxima));
    let mut sets = Map::new();
    for (k, v) in &st.sets {
        let items: Vec<&String> = v.iter().take(400).collect();
        sets.insert(k.clone(), json!({"count": v.len(), "items": items}));
    }
    cov.insert("observed_sets".into(), Value::Object(sets));
    cov.insert(
        "known_findings_reproduced".into(),
        json!(known_hits.keys().collect::<Vec<_>>()),
    );
    cov.insert("inconclusive_reasons".into(), json!(st.inconclusive));
    for (k, v) in meta.extra {
        cov.insert(k, v);
    }
    let verdict = if new_violations > 0 {
        "violated"
    } else if !st.inconclusive.is_empty() {
        "inconclusive"
    } else {
        "held_on_observed"
    };
    cov.insert("verdict".into(), json!(verdict));
    let ev = json!({
        "property_id": meta.id,
        "tier": meta.tier,
        "seed": meta.seed,
        "level": "exploration",
        "coverage": Value::Object(cov),
        "assumptions": meta.assumptions,
        "wall_s": wall,
        "violations": new_violations,
    });
    // sanitizer legs write their own file (merged into the main evidence by ./check)
    let (evdir, evname) = match std::env::var("VERIF_LEG") {
        Ok(leg) => (meta.root.join("legs").join("out"), format!("{}.{}.json", meta.id, leg)),
        Err(_) => (meta.root.join("evidence"), format!("{}.json", meta.id)),
    };
    let _ = std::fs::create_dir_all(&evdir);
    let evpath = evdir.join(evname);
    let _ = std::fs::write(&evpath, serde_json::to_string_pretty(&ev).unwrap());

    for l in &lines {
        out_line(l);
    }
    out_line(&format!(
        "{} {} seed={} evaluations={} distinct_nontrivial={} violations={} known={} wall={:.1}s verdict={}",
        meta.id,
        meta.tier,
        meta.seed,
        st.evaluations,
        st.distinct.len(),
        new_violations,
        known_hits.len(),
        wall,
        verdict
    ));
    if new_violations > 0 {
        1
    } else if !st.inconclusive.is_empty() {
        for r in &st.inconclusive {
            out_line(&format!("INCONCLUSIVE property={} {}", meta.id, r));
        }
        2
    } else {
        0
    }
}
