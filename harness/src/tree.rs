//! Plain-data tree used to compare results of different sinks / models.

use markup5ever_rcdom::{Handle, NodeData};

#[derive(Clone, Debug, PartialEq, Eq)]
pub struct TAttr {
    pub prefix: Option<String>,
    pub ns: String,
    pub local: String,
    pub value: String,
}

#[derive(Clone, Debug, PartialEq, Eq)]
pub enum TData {
    Document,
    Fragment,
    Doctype { name: String, public_id: String, system_id: String },
    Text(String),
    Comment(String),
    Pi { target: String, data: String },
    Element {
        prefix: Option<String>,
        ns: String,
        local: String,
        attrs: Vec<TAttr>,
        dup_attrs: bool,
    },
}

#[derive(Clone, Debug, PartialEq, Eq)]
pub struct TNode {
    pub data: TData,
    pub children: Vec<TNode>,
    /// Template contents (HTML `template` elements only).
    pub contents: Option<Box<TNode>>,
}

impl TNode {
    pub fn new(data: TData) -> TNode {
        TNode { data, children: Vec::new(), contents: None }
    }
    pub fn elem(ns: &str, local: &str) -> TNode {
        TNode::new(TData::Element {
            prefix: None,
            ns: ns.to_string(),
            local: local.to_string(),
            attrs: vec![],
            dup_attrs: false,
        })
    }
    pub fn is_element(&self) -> bool {
        matches!(self.data, TData::Element { .. })
    }
    pub fn is_html(&self, name: &str) -> bool {
        matches!(&self.data, TData::Element{ns, local, ..} if ns == NS_HTML && local == name)
    }
    pub fn count_nodes(&self) -> usize {
        // iterative: trees can be deep
        let mut n = 0;
        let mut stack = vec![self];
        while let Some(x) = stack.pop() {
            n += 1;
            for c in &x.children {
                stack.push(c);
            }
            if let Some(c) = &x.contents {
                stack.push(c);
            }
        }
        n
    }
    pub fn depth(&self) -> usize {
        let mut best = 0;
        let mut stack = vec![(self, 1usize)];
        while let Some((x, d)) = stack.pop() {
            best = best.max(d);
            for c in &x.children {
                stack.push((c, d + 1));
            }
            if let Some(c) = &x.contents {
                stack.push((c, d + 1));
            }
        }
        best
    }
}

pub const NS_HTML: &str = "http://www.w3.org/1999/xhtml";
pub const NS_SVG: &str = "http://www.w3.org/2000/svg";
pub const NS_MATHML: &str = "http://www.w3.org/1998/Math/MathML";
pub const NS_XLINK: &str = "http://www.w3.org/1999/xlink";
pub const NS_XML: &str = "http://www.w3.org/XML/1998/namespace";
pub const NS_XMLNS: &str = "http://www.w3.org/2000/xmlns/";

fn ns_short(ns: &str) -> String {
    match ns {
        NS_HTML => "".into(),
        NS_SVG => "svg ".into(),
        NS_MATHML => "math ".into(),
        "" => "{} ".into(),
        other => format!("{{{other}}} "),
    }
}

/// Options for dumping; XML dumps include element prefixes.
#[derive(Clone, Copy)]
pub struct DumpOpts {
    pub elem_prefix: bool,
}

/// Canonical text rendering (iterative, so that deep trees do not overflow the stack).
pub fn dump(root: &TNode, opts: DumpOpts) -> String {
    let mut out = String::new();
    enum Item<'a> {
        Node(&'a TNode, usize),
        Contents(&'a TNode, usize),
    }
    let mut stack = vec![Item::Node(root, 0)];
    while let Some(it) = stack.pop() {
        match it {
            Item::Contents(n, d) => {
                indent(&mut out, d);
                out.push_str("content\n");
                for c in n.children.iter().rev() {
                    stack.push(Item::Node(c, d + 1));
                }
            },
            Item::Node(n, d) => {
                indent(&mut out, d);
                match &n.data {
                    TData::Document => out.push_str("#document\n"),
                    TData::Fragment => out.push_str("#fragment\n"),
                    TData::Doctype { name, public_id, system_id } => {
                        out.push_str(&format!("<!DOCTYPE {name:?} {public_id:?} {system_id:?}>\n"))
                    },
                    TData::Text(t) => out.push_str(&format!("{t:?}\n")),
                    TData::Comment(t) => out.push_str(&format!("<!-- {t:?} -->\n")),
                    TData::Pi { target, data } => out.push_str(&format!("<?{target:?} {data:?}?>\n")),
                    TData::Element { prefix, ns, local, attrs, dup_attrs } => {
                        out.push('<');
                        out.push_str(&ns_short(ns));
                        if opts.elem_prefix {
                            if let Some(p) = prefix {
                                out.push_str(p);
                                out.push(':');
                            }
                        }
                        out.push_str(local);
                        out.push('>');
                        if *dup_attrs {
                            out.push_str(" [dup]");
                        }
                        out.push('\n');
                        for a in attrs {
                            indent(&mut out, d + 1);
                            out.push('@');
                            if !a.ns.is_empty() || a.prefix.is_some() {
                                out.push_str(&format!(
                                    "{{{}}}{}:",
                                    a.ns,
                                    a.prefix.as_deref().unwrap_or("")
                                ));
                            }
                            out.push_str(&format!("{}={:?}\n", a.local, a.value));
                        }
                    },
                }
                for c in n.children.iter().rev() {
                    stack.push(Item::Node(c, d + 1));
                }
                if let Some(c) = &n.contents {
                    stack.push(Item::Contents(c, d + 1));
                }
            },
        }
    }
    out
}

fn indent(out: &mut String, d: usize) {
    for _ in 0..d {
        out.push_str("  ");
    }
}

pub fn dump_html(root: &TNode) -> String {
    dump(root, DumpOpts { elem_prefix: false })
}
pub fn dump_xml(root: &TNode) -> String {
    dump(root, DumpOpts { elem_prefix: true })
}

/// Drop a TNode without recursion (deep trees).
pub fn drop_tree(root: TNode) {
    let mut stack = vec![root];
    while let Some(mut n) = stack.pop() {
        stack.extend(std::mem::take(&mut n.children));
        if let Some(c) = n.contents.take() {
            stack.push(*c);
        }
    }
}

/// Convert an RcDom subtree into a TNode tree (iteratively).
pub fn from_rcdom(h: &Handle) -> TNode {
    // post-order construction with an explicit stack
    struct Frame {
        h: Handle,
        node: TNode,
        next_child: usize,
        contents_done: bool,
        is_contents: bool,
    }
    fn mk(h: &Handle) -> TNode {
        let data = match &h.data {
            NodeData::Document => TData::Document,
            NodeData::Doctype { name, public_id, system_id } => TData::Doctype {
                name: name.to_string(),
                public_id: public_id.to_string(),
                system_id: system_id.to_string(),
            },
            NodeData::Text { contents } => TData::Text(contents.borrow().to_string()),
            NodeData::Comment { contents } => TData::Comment(contents.to_string()),
            NodeData::ProcessingInstruction { target, contents } => TData::Pi {
                target: target.to_string(),
                data: contents.to_string(),
            },
            NodeData::Element { name, attrs, .. } => TData::Element {
                prefix: name.prefix.as_ref().map(|p| p.to_string()),
                ns: name.ns.to_string(),
                local: name.local.to_string(),
                attrs: attrs
                    .borrow()
                    .iter()
                    .map(|a| TAttr {
                        prefix: a.name.prefix.as_ref().map(|p| p.to_string()),
                        ns: a.name.ns.to_string(),
                        local: a.name.local.to_string(),
                        value: a.value.to_string(),
                    })
                    .collect(),
                dup_attrs: false,
            },
        };
        TNode::new(data)
    }
    let mut stack = vec![Frame {
        h: h.clone(),
        node: mk(h),
        next_child: 0,
        contents_done: false,
        is_contents: false,
    }];
    loop {
        let top = stack.last_mut().unwrap();
        if !top.contents_done {
            top.contents_done = true;
            if let NodeData::Element { template_contents, .. } = &top.h.data {
                let tc = template_contents.borrow().clone();
                if let Some(tc) = tc {
                    let mut n = mk(&tc);
                    n.data = TData::Fragment;
                    stack.push(Frame {
                        h: tc,
                        node: n,
                        next_child: 0,
                        contents_done: true,
                        is_contents: true,
                    });
                    continue;
                }
            }
        }
        let nchildren = top.h.children.borrow().len();
        if top.next_child < nchildren {
            let c = top.h.children.borrow()[top.next_child].clone();
            top.next_child += 1;
            let n = mk(&c);
            stack.push(Frame { h: c, node: n, next_child: 0, contents_done: false, is_contents: false });
            continue;
        }
        let done = stack.pop().unwrap();
        match stack.last_mut() {
            None => return done.node,
            Some(parent) => {
                if done.is_contents {
                    parent.node.contents = Some(Box::new(done.node));
                } else {
                    parent.node.children.push(done.node);
                }
            },
        }
    }
}
