//! Drivers for xml5ever: token recording and chunked parsing into MSink / RcDom.

use crate::drive::FeedEv;
use crate::msink::{IdTracer, MSink};
use markup5ever::buffer_queue::BufferQueue;
use markup5ever::interface::TreeSink;
use markup5ever::TokenizerResult;
use std::cell::RefCell;
use xml5ever::tendril::StrTendril;
use xml5ever::tokenizer::{ProcessResult, TagKind, Token, TokenSink, XmlTokenizer, XmlTokenizerOpts};
use xml5ever::tree_builder::{XmlTreeBuilder, XmlTreeBuilderOpts};

#[derive(Clone, Debug, PartialEq, Eq)]
pub struct XName {
    pub prefix: Option<String>,
    pub ns: String,
    pub local: String,
}

#[derive(Clone, Debug, PartialEq, Eq)]
pub enum XTok {
    Doctype { name: Option<String>, public_id: Option<String>, system_id: Option<String> },
    Tag { kind: &'static str, name: XName, attrs: Vec<(XName, String)> },
    Pi { target: String, data: String },
    Comment(String),
    Chars(String),
    Null,
    Eof,
    Error(String),
}

fn xname(q: &xml5ever::QualName) -> XName {
    XName { prefix: q.prefix.as_ref().map(|p| p.to_string()), ns: q.ns.to_string(), local: q.local.to_string() }
}

pub fn conv_xtoken(t: &Token) -> XTok {
    match t {
        Token::Doctype(d) => XTok::Doctype {
            name: d.name.as_ref().map(|s| s.to_string()),
            public_id: d.public_id.as_ref().map(|s| s.to_string()),
            system_id: d.system_id.as_ref().map(|s| s.to_string()),
        },
        Token::Tag(t) => XTok::Tag {
            kind: match t.kind {
                TagKind::StartTag => "start",
                TagKind::EndTag => "end",
                TagKind::EmptyTag => "empty",
                TagKind::ShortTag => "short",
            },
            name: xname(&t.name),
            attrs: t.attrs.iter().map(|a| (xname(&a.name), a.value.to_string())).collect(),
        },
        Token::ProcessingInstruction(p) => XTok::Pi { target: p.target.to_string(), data: p.data.to_string() },
        Token::Comment(c) => XTok::Comment(c.to_string()),
        Token::Characters(c) => XTok::Chars(c.to_string()),
        Token::EndOfFile => XTok::Eof,
        Token::NullCharacter => XTok::Null,
        Token::ParseError(e) => XTok::Error(e.to_string()),
    }
}

pub struct XRecSink {
    pub toks: RefCell<Vec<XTok>>,
    pub ended: std::cell::Cell<u32>,
}

impl TokenSink for XRecSink {
    type Handle = ();
    fn process_token(&self, token: Token) -> ProcessResult<()> {
        self.toks.borrow_mut().push(conv_xtoken(&token));
        ProcessResult::Continue
    }
    fn end(&self) {
        self.ended.set(self.ended.get() + 1);
    }
}

#[derive(Clone, Copy, Debug)]
pub struct XmlOpts {
    pub exact_errors: bool,
    pub discard_bom: bool,
    pub profile: bool,
}

impl Default for XmlOpts {
    fn default() -> Self {
        XmlOpts { exact_errors: false, discard_bom: true, profile: false }
    }
}

impl XmlOpts {
    pub fn to_real(&self) -> XmlTokenizerOpts {
        XmlTokenizerOpts { exact_errors: self.exact_errors, discard_bom: self.discard_bom, profile: self.profile, initial_state: None }
    }
}

pub struct XTokRun {
    pub raw: Vec<XTok>,
    pub feeds: Vec<FeedEv>,
    pub leftover_after_done: bool,
    pub sink_end_calls: u32,
    pub suspend_states: Vec<String>,
}

pub fn run_xml_tokenizer(chunks: &[String], opts: &XmlOpts, record_states: bool) -> XTokRun {
    let sink = XRecSink { toks: RefCell::new(vec![]), ended: std::cell::Cell::new(0) };
    let tok = XmlTokenizer::new(sink, opts.to_real());
    let q = BufferQueue::default();
    let mut feeds = vec![];
    let mut leftover = false;
    let mut suspend_states = vec![];
    for c in chunks {
        q.push_back(StrTendril::from_slice(c));
        loop {
            match tok.feed(&q) {
                TokenizerResult::Done => {
                    feeds.push(FeedEv::Done);
                    if !q.is_empty() {
                        leftover = true;
                    }
                    break;
                },
                TokenizerResult::Script(_) => feeds.push(FeedEv::Script),
                TokenizerResult::EncodingIndicator(e) => feeds.push(FeedEv::Encoding(e.to_string())),
            }
        }
        if record_states {
            suspend_states.push(format!("{:?}", tok.verif_state()));
        }
    }
    tok.end();
    let raw = std::mem::take(&mut *tok.sink.toks.borrow_mut());
    XTokRun { raw, feeds, leftover_after_done: leftover, sink_end_calls: tok.sink.ended.get(), suspend_states }
}

/// Coalesce adjacent character tokens, optionally dropping errors.
pub fn xcoalesce(raw: &[XTok], keep_errors: bool) -> Vec<XTok> {
    let mut out: Vec<XTok> = vec![];
    for t in raw {
        match t {
            XTok::Error(_) if !keep_errors => {},
            XTok::Chars(c) => {
                if c.is_empty() {
                    continue;
                }
                if let Some(XTok::Chars(p)) = out.last_mut() {
                    p.push_str(c);
                } else {
                    out.push(t.clone());
                }
            },
            o => out.push(o.clone()),
        }
    }
    out
}

pub type XmlTok<S> = XmlTokenizer<XmlTreeBuilder<<S as TreeSink>::Handle, S>>;

pub fn make_xml_parser<S: TreeSink>(sink: S, opts: &XmlOpts) -> XmlTok<S> {
    let tb = XmlTreeBuilder::new(sink, XmlTreeBuilderOpts::default());
    XmlTokenizer::new(tb, opts.to_real())
}

pub struct XParseRun<S> {
    pub sink: S,
    pub feeds: Vec<FeedEv>,
    pub leftover_after_done: bool,
    pub suspend_states: Vec<String>,
    pub poisoned: u64,
}

/// Generic chunked XML parse into any sink; `after_feed` runs at every suspension point.
pub fn run_xml_parse_with<S: TreeSink>(
    sink: S,
    chunks: &[String],
    opts: &XmlOpts,
    record_states: bool,
    after_feed: &mut dyn FnMut(&XmlTok<S>) -> u64,
) -> XParseRun<S> {
    let tok = make_xml_parser(sink, opts);
    let q = BufferQueue::default();
    let mut feeds = vec![];
    let mut leftover = false;
    let mut suspend_states = vec![];
    let mut poisoned = 0;
    for c in chunks {
        q.push_back(StrTendril::from_slice(c));
        loop {
            let r = tok.feed(&q);
            poisoned += after_feed(&tok);
            match r {
                TokenizerResult::Done => {
                    feeds.push(FeedEv::Done);
                    if !q.is_empty() {
                        leftover = true;
                    }
                    break;
                },
                TokenizerResult::Script(_) => feeds.push(FeedEv::Script),
                TokenizerResult::EncodingIndicator(e) => feeds.push(FeedEv::Encoding(e.to_string())),
            }
        }
        if record_states {
            suspend_states.push(format!("{:?}", tok.verif_state()));
        }
    }
    tok.end();
    XParseRun { sink: tok.sink.sink, feeds, leftover_after_done: leftover, suspend_states, poisoned }
}

pub fn run_xml_parse(chunks: &[String], opts: &XmlOpts, gc: bool, record_states: bool) -> XParseRun<MSink> {
    run_xml_parse_scripted(chunks, opts, gc, record_states, None)
}

pub fn run_xml_parse_scripted(chunks: &[String], opts: &XmlOpts, gc: bool, record_states: bool, script_seed: Option<u64>) -> XParseRun<MSink> {
    let mut n = 0u64;
    let mut f = |tok: &XmlTok<MSink>| -> u64 {
        n += 1;
        if let Some(ss) = script_seed {
            tok.sink.sink.run_script(crate::prng::mix(ss, n));
        }
        if !gc {
            return 0;
        }
        let tr = IdTracer { ids: RefCell::new(vec![]) };
        tok.sink.trace_handles(&tr);
        let ids = tr.ids.into_inner();
        tok.sink.sink.collect(&ids)
    };
    run_xml_parse_with(MSink::new(), chunks, opts, record_states, &mut f)
}

pub fn parse_xml_simple(input: &str, opts: &XmlOpts) -> XParseRun<MSink> {
    run_xml_parse(&[input.to_string()], opts, false, false)
}
