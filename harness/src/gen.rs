//! Workload generators: token soup, enumerated tokenizer transitions, HTML grammar + scenarios,
//! XML soup and namespace shapes, chunk schedules.

use crate::prng::Rng;

// ---------------------------------------------------------------------------------------------
// character material

pub const CLASS_CHARS: &[&str] = &[
    "\t", "\n", "\x0C", "\r", "\r\n", " ", "!", "\"", "#", "&", "'", "-", "/", "0", "9", ";", "<", "=", ">", "?",
    "A", "Z", "a", "z", "x", "X", "[", "]", "`", "\0", "\u{7f}", "\u{80}", "\u{a0}", "é", "\u{fffd}", "\u{feff}",
    "\u{fdd0}", "\u{10ffff}", "s", "S", "c", "p", "P", "D", "d",
];

pub const SUFFIXES: &[&str] = &["", ">", "x>", "\"'>", "-->", "--!>", "]]>", "</script>", ";", "=v>", " a=b>", "</x>"];

const TEXT_BITS: &[&str] = &[
    "a", "b", "x", "y", " ", "  ", "\n", "\r", "\r\n", "\t", "\x0C", "é", "\u{a0}", "\u{10ffff}", "日本", "\0", "\u{feff}",
    "\u{fffd}", "text", "0", "9", "-", "--", "=", ";", "#", "]", "]]", "`",
    // C0 controls are not white space; alone, and inside word-sized runs of real white space
    "\u{1}", "\u{b}", "\u{1f}", "       \u{1}", "    \u{b}    ", " \u{1f}       ", "\u{8}\u{e}", "\u{7f}", "\u{85}", "\u{2028}",
    // markers in the wrong case
    "<![cdata[x]]>", "<![Cdata[y]]>", "<![CDATA[\0]]>", "<![CDATA[\0\0]]>",
];

const TAG_NAMES: &[&str] = &[
    "a", "b", "p", "div", "span", "i", "br", "img", "table", "tr", "td", "script", "style", "title", "textarea",
    "xmp", "iframe", "noembed", "noframes", "noscript", "plaintext", "svg", "math", "x", "X", "Y-z", "a0", "SCRIPT",
    "sCrIpT", "TITLE", "scripts", "scrip", "foreignObject", "template", "select", "option",
];

const ATTR_NAMES: &[&str] = &["a", "b", "id", "class", "A", "x-y", "xml:lang", "a\"", "a'b", "a<", "=", "é", "a\0", "href", "charset", "content", "http-equiv", "type"];

const ATTR_VALUES: &[&str] = &[
    "", "v", "a b", "a&amp;b", "&lt", "&#65;", "&#x41", "&notit;", "&amp=", "&ampx", "x\ny", "x\ry", "x\r\ny", "x\0y", "<", ">", "\"", "'", "`", "=", "é",
    "text/html", "hidden", "utf-8", "text/html; charset=utf-8",
];

pub const ENTITY_BITS: &[&str] = &[
    "&", "&amp;", "&amp", "&am", "&lt;", "&lt", "&gt", "&not", "&noti", "&notin;", "&notit;", "&nbsp;", "&nbsp", "&copy", "&AMP", "&AMP;",
    "&Aacute", "&acE;", "&NotEqualTilde;", "&nvlt;", "&zwnj;", "&x;", "&;", "&#", "&#;", "&#x", "&#x;", "&#X", "&#0;", "&#00", "&#9;", "&#10;",
    "&#13;", "&#128;", "&#x80", "&#x9F;", "&#xD800;", "&#xDFFF", "&#xFFFE;", "&#x10FFFF;", "&#x110000;", "&#1114112", "&#xFDD0;",
    "&#99999999999;", "&#x1000000000000;", "&#65", "&#65;", "&#x41;", "&#X41", "&#x4g", "&#6a", "&abcdefgh;", "&abc1;", "&a1", "&1a;",
];

fn push_pick(rng: &mut Rng, out: &mut String, xs: &[&str]) {
    out.push_str(rng.pick_s(xs));
}

pub fn random_case(rng: &mut Rng, s: &str) -> String {
    s.chars()
        .map(|c| if rng.chance(1, 3) { c.to_ascii_uppercase() } else { c })
        .collect()
}

/// A run of plain text of the given length with one special character planted (drives the SIMD
/// loop, its scalar tail and the first-character special case).
pub fn simd_run(rng: &mut Rng) -> String {
    let len = rng.below(81);
    let mut s: Vec<char> = (0..len).map(|i| (b'a' + (i % 26) as u8) as char).collect();
    let specials = ['<', '&', '\r', '\0', '\n', 'é', '\u{10ffff}'];
    let k = rng.below(4);
    for _ in 0..k {
        if len > 0 {
            let pos = rng.below(len);
            s[pos] = *rng.pick(&specials);
        }
    }
    s.into_iter().collect()
}

fn gen_attr(rng: &mut Rng, out: &mut String) {
    let ws = [" ", "  ", "\n", "\t", "\x0C", "\r", "\r\n", "/", " / "];
    push_pick(rng, out, &ws);
    let name = rng.pick(ATTR_NAMES);
    out.push_str(&random_case(rng, name));
    match rng.below(8) {
        0 => {},
        1 => {
            out.push('=');
        },
        2 | 3 => {
            out.push_str("=\"");
            push_pick(rng, out, ATTR_VALUES);
            if rng.chance(1, 4) {
                push_pick(rng, out, ENTITY_BITS);
            }
            if !rng.chance(1, 12) {
                out.push('"');
            }
        },
        4 => {
            out.push_str("='");
            push_pick(rng, out, ATTR_VALUES);
            if rng.chance(1, 4) {
                push_pick(rng, out, ENTITY_BITS);
            }
            if !rng.chance(1, 12) {
                out.push('\'');
            }
        },
        5 => {
            out.push('=');
            let v = rng.pick(ATTR_VALUES);
            out.push_str(&v.replace(' ', ""));
            if rng.chance(1, 4) {
                push_pick(rng, out, ENTITY_BITS);
            }
        },
        6 => {
            push_pick(rng, out, &[" = ", "\n=\n", "\r=\r", "=\r\n", "= \t"]);
            push_pick(rng, out, &["\"v\"", "'v'", "v", "\"a\nb\"", "\"\r\"", "&amp;"]);
        },
        _ => {
            out.push_str("=\"");
            push_pick(rng, out, ENTITY_BITS);
            push_pick(rng, out, &["", "=", "x", "1", ";", " "]);
            out.push('"');
        },
    }
}

/// Markup token soup for tokenizer-level checks.
pub fn tok_soup(rng: &mut Rng, max_items: usize) -> String {
    let n = rng.range(1, max_items.max(1));
    let mut out = String::new();
    for _ in 0..n {
        match rng.below(26) {
            0..=4 => push_pick(rng, &mut out, TEXT_BITS),
            5 => out.push_str(&simd_run(rng)),
            6..=9 => {
                // start tag
                out.push('<');
                let name = rng.pick(TAG_NAMES);
                out.push_str(&random_case(rng, name));
                let na = [0, 0, 1, 1, 2, 3][rng.below(6)];
                for _ in 0..na {
                    gen_attr(rng, &mut out);
                }
                push_pick(rng, &mut out, &[">", ">", ">", "/>", " >", " />", "/ >", "", "\n>", "\r>"]);
            },
            10..=12 => {
                out.push_str("</");
                let name = rng.pick(TAG_NAMES);
                out.push_str(&random_case(rng, name));
                if rng.chance(1, 8) {
                    gen_attr(rng, &mut out);
                }
                push_pick(rng, &mut out, &[">", ">", ">", " >", "/>", "", "\n>"]);
            },
            13 => {
                // comment variants
                push_pick(
                    rng,
                    &mut out,
                    &["<!--", "<!---", "<!---->", "<!-->", "<!--->", "<!-- x -->", "<!--x--!>", "<!--<!-->", "<!--<!--x-->", "<!--x--y-->", "<!-- \r\n -->", "<!--\0-->", "<!--x-", "<!--x--", "<!--x--!", "<!--<", "<!--<!", "<!--<!-", "<!--<!--"],
                );
            },
            14 => push_pick(rng, &mut out, &["-->", "--!>", "->", "--", ">", "]]>", "?>"]),
            15 => {
                // doctype variants
                let dt = [
                    "<!DOCTYPE html>", "<!doctype html>", "<!DOCTYPE>", "<!DOCTYPE >", "<!DOCTYPE html PUBLIC \"-//W3C//DTD HTML 4.01//EN\" \"http://www.w3.org/TR/html4/strict.dtd\">",
                    "<!DOCTYPE html SYSTEM \"about:legacy-compat\">", "<!DOCTYPE html PUBLIC 'a' 'b'>", "<!DOCTYPE html PUBLIC\"a\"\"b\">", "<!DOCTYPE html PUBLIC 'a'x>",
                    "<!DOCTYPE html SYSTEM'x'>", "<!DOCTYPE html public", "<!DOCTYPE html PUBLIC \"a", "<!DOCTYPE html PUBLIC \"a\" 'b", "<!DOCTYPE html bogus>", "<!DOCTYPE\nhtml\nPUBLIC\n\"a\"\n\"b\"\n>",
                    "<!DOCTYPE html\rSYSTEM\r'x'\r>", "<!DOCTYPE \0x>", "<!DOCTYPE html PUBLIC \"\0\">", "<!DOCTYPEhtml>", "<!DOCTYPE html PUBLIC>", "<!DOCTYPE html SYSTEM>", "<!DOCTYPE HTML PUBLIC \"a\">x",
                    "<!DOCTYPE html PUBLI", "<!DOCTYPE html SYST", "<!DOCTYPE html PUBLIC 'a' >", "<!DOCTYPE html PUBLIC 'a' x>", "<!DOCTYPE html SYSTEM 'a' x>", "<!DOC", "<!D",
                ];
                let s = *rng.pick(&dt);
                if rng.chance(1, 3) {
                    out.push_str(&random_case(rng, s));
                } else {
                    out.push_str(s);
                }
            },
            16 => push_pick(rng, &mut out, &["<![CDATA[", "<![CDATA[x]]>", "<![CDATA[]]>", "<![CDATA[]]]>", "<![CDATA[]]x]]>", "<![CDATA[\0]]>", "<![CDATA[\r\n]]>", "<![cdata[x]]>", "<![CDATA", "<![", "<![CDATA[]", "<![CDATA[]]"]),
            17 | 18 => push_pick(rng, &mut out, ENTITY_BITS),
            19 => push_pick(rng, &mut out, &["<", "</", "<!", "<?", "<?x?>", "</>", "</ >", "<>", "< ", "<1", "</1>", "<!x>", "<!->", "<a", "<a ", "<a b", "<a b=", "<a b='", "<a/", "</a "]),
            20 => {
                // script-data escapes
                push_pick(
                    rng,
                    &mut out,
                    &["<script>", "<script><!--", "<!--<script>", "<script><!--<script>", "</script>", "-->", "<!--<script></script>", "<script>x</scrip>", "<script></script x=y>", "<script></script/>", "<script></SCRIPT >", "<script><!-- <script> --></script>", "<script><!--<script </script>-->", "<!-", "<!--x", "--", "-", "<script><!--<script>\0</script>-->"],
                );
            },
            21 => push_pick(rng, &mut out, &["<title>", "</title>", "<textarea>", "</textarea>", "<style>", "</style>", "<xmp>", "</xmp>", "<plaintext>", "<title>&amp;</title>", "<style>&amp;</style>", "<title></titl>", "<title></title x", "<textarea>\n", "<title>\0"]),
            22 => push_pick(rng, &mut out, &["<svg>", "</svg>", "<math>", "</math>", "<svg><![CDATA[x]]></svg>", "<math><![CDATA[", "<svg/>", "<svg><title>", "<svg><script>"]),
            23 => push_pick(rng, &mut out, &["\r", "\r\n", "\n\r", "\r\r", "\n", "\u{feff}", "\0"]),
            24 => {
                let k = rng.range(1, 3);
                for _ in 0..k {
                    push_pick(rng, &mut out, CLASS_CHARS);
                }
            },
            _ => {
                // mutate: duplicate or delete a slice of what we have
                let chars: Vec<char> = out.chars().collect();
                if chars.len() > 2 {
                    let a = rng.below(chars.len());
                    let b = (a + rng.range(1, 6)).min(chars.len());
                    if rng.chance(1, 2) {
                        let dup: String = chars[a..b].iter().collect();
                        out.push_str(&dup);
                    } else {
                        out = chars[..a].iter().chain(chars[b..].iter()).collect();
                    }
                }
            },
        }
    }
    out
}

// ---------------------------------------------------------------------------------------------
// enumerated tokenizer transitions

#[derive(Clone, Copy, Debug, PartialEq, Eq, Hash)]
pub enum StartState {
    Data,
    Rcdata,
    Rawtext,
    ScriptData,
    ScriptDataEscaped,
    ScriptDataDoubleEscaped,
    Plaintext,
}

pub const START_STATES: [StartState; 7] = [
    StartState::Data,
    StartState::Rcdata,
    StartState::Rawtext,
    StartState::ScriptData,
    StartState::ScriptDataEscaped,
    StartState::ScriptDataDoubleEscaped,
    StartState::Plaintext,
];

/// (start state, last start tag, prefix) triples that drive the tokenizer into every spec state.
pub fn state_prefixes() -> Vec<(StartState, Option<&'static str>, &'static str, &'static str)> {
    use StartState::*;
    vec![
        (Data, None, "", "data"),
        (Data, None, "x", "data+text"),
        (Rcdata, Some("title"), "", "rcdata"),
        (Rawtext, Some("style"), "", "rawtext"),
        (ScriptData, Some("script"), "", "script-data"),
        (Plaintext, None, "", "plaintext"),
        (Data, None, "<", "tag-open"),
        (Data, None, "</", "end-tag-open"),
        (Data, None, "<a", "tag-name"),
        (Data, None, "</a", "tag-name(end)"),
        (Rcdata, Some("title"), "<", "rcdata-lt"),
        (Rcdata, Some("title"), "</", "rcdata-end-tag-open"),
        (Rcdata, Some("title"), "</t", "rcdata-end-tag-name"),
        (Rcdata, Some("title"), "</title", "rcdata-end-tag-name(full)"),
        (Rcdata, Some("other"), "</title", "rcdata-end-tag-name(inappropriate)"),
        (Rcdata, None, "</title", "rcdata-end-tag-name(no last)"),
        (Rawtext, Some("style"), "<", "rawtext-lt"),
        (Rawtext, Some("style"), "</", "rawtext-end-tag-open"),
        (Rawtext, Some("style"), "</style", "rawtext-end-tag-name"),
        (ScriptData, Some("script"), "<", "script-lt"),
        (ScriptData, Some("script"), "</", "script-end-tag-open"),
        (ScriptData, Some("script"), "</script", "script-end-tag-name"),
        (ScriptData, Some("script"), "</scrip", "script-end-tag-name(partial)"),
        (ScriptData, Some("script"), "<!", "script-escape-start"),
        (ScriptData, Some("script"), "<!-", "script-escape-start-dash"),
        (ScriptData, Some("script"), "<!--", "script-escaped-dash-dash"),
        (ScriptData, Some("script"), "<!--x", "script-escaped"),
        (ScriptData, Some("script"), "<!--x-", "script-escaped-dash"),
        (ScriptData, Some("script"), "<!--x--", "script-escaped-dash-dash(2)"),
        (ScriptData, Some("script"), "<!--<", "script-escaped-lt"),
        (ScriptData, Some("script"), "<!--</", "script-escaped-end-tag-open"),
        (ScriptData, Some("script"), "<!--</script", "script-escaped-end-tag-name"),
        (ScriptData, Some("script"), "<!--<s", "script-double-escape-start"),
        (ScriptData, Some("script"), "<!--<script", "script-double-escape-start(full)"),
        (ScriptData, Some("script"), "<!--<script>", "script-double-escaped"),
        (ScriptData, Some("script"), "<!--<script>-", "script-double-escaped-dash"),
        (ScriptData, Some("script"), "<!--<script>--", "script-double-escaped-dash-dash"),
        (ScriptData, Some("script"), "<!--<script><", "script-double-escaped-lt"),
        (ScriptData, Some("script"), "<!--<script></", "script-double-escape-end"),
        (ScriptData, Some("script"), "<!--<script></script", "script-double-escape-end(full)"),
        (ScriptDataEscaped, Some("script"), "", "script-escaped(start)"),
        (ScriptDataDoubleEscaped, Some("script"), "", "script-double-escaped(start)"),
        (Data, None, "<a ", "before-attr-name"),
        (Data, None, "<a b", "attr-name"),
        (Data, None, "<a b ", "after-attr-name"),
        (Data, None, "<a b=", "before-attr-value"),
        (Data, None, "<a b=\"", "attr-value-dq"),
        (Data, None, "<a b='", "attr-value-sq"),
        (Data, None, "<a b=c", "attr-value-unq"),
        (Data, None, "<a b=\"c\"", "after-attr-value-q"),
        (Data, None, "<a /", "self-closing"),
        (Data, None, "<a b=\"x\" b", "attr-name(dup)"),
        (Data, None, "</a b=\"", "attr-value-dq(end tag)"),
        (Data, None, "<?", "bogus-comment"),
        (Data, None, "<!", "markup-decl-open"),
        (Data, None, "<!-", "markup-decl-open(-)"),
        (Data, None, "<!--", "comment-start"),
        (Data, None, "<!---", "comment-start-dash"),
        (Data, None, "<!--x", "comment"),
        (Data, None, "<!--x<", "comment-lt"),
        (Data, None, "<!--x<!", "comment-lt-bang"),
        (Data, None, "<!--x<!-", "comment-lt-bang-dash"),
        (Data, None, "<!--x<!--", "comment-lt-bang-dash-dash"),
        (Data, None, "<!--x-", "comment-end-dash"),
        (Data, None, "<!--x--", "comment-end"),
        (Data, None, "<!--x--!", "comment-end-bang"),
        (Data, None, "<!DOCTYPE", "doctype"),
        (Data, None, "<!DOCTYPE ", "before-doctype-name"),
        (Data, None, "<!DOCTYPE h", "doctype-name"),
        (Data, None, "<!DOCTYPE h ", "after-doctype-name"),
        (Data, None, "<!DOCTYPE h P", "after-doctype-name(P)"),
        (Data, None, "<!DOCTYPE h PUBLI", "after-doctype-name(PUBLI)"),
        (Data, None, "<!DOCTYPE h SYSTE", "after-doctype-name(SYSTE)"),
        (Data, None, "<!DOCTYPE h PUBLIC", "after-doctype-public-kw"),
        (Data, None, "<!DOCTYPE h PUBLIC ", "before-doctype-public-id"),
        (Data, None, "<!DOCTYPE h PUBLIC \"", "doctype-public-id-dq"),
        (Data, None, "<!DOCTYPE h PUBLIC '", "doctype-public-id-sq"),
        (Data, None, "<!DOCTYPE h PUBLIC \"p\"", "after-doctype-public-id"),
        (Data, None, "<!DOCTYPE h PUBLIC \"p\" ", "between-public-and-system"),
        (Data, None, "<!DOCTYPE h SYSTEM", "after-doctype-system-kw"),
        (Data, None, "<!DOCTYPE h SYSTEM ", "before-doctype-system-id"),
        (Data, None, "<!DOCTYPE h SYSTEM \"", "doctype-system-id-dq"),
        (Data, None, "<!DOCTYPE h SYSTEM '", "doctype-system-id-sq"),
        (Data, None, "<!DOCTYPE h SYSTEM \"s\"", "after-doctype-system-id"),
        (Data, None, "<!DOCTYPE h x", "bogus-doctype"),
        (Data, None, "<![CDATA[", "cdata"),
        (Data, None, "<![CDATA[x]", "cdata-bracket"),
        (Data, None, "<![CDATA[x]]", "cdata-end"),
        (Data, None, "<![CDAT", "markup-decl-open(cdata partial)"),
        (Data, None, "&", "char-ref"),
        (Data, None, "&a", "named-char-ref"),
        (Data, None, "&am", "named-char-ref(am)"),
        (Data, None, "&amp", "named-char-ref(amp)"),
        (Data, None, "&no", "named-char-ref(no)"),
        (Data, None, "&not", "named-char-ref(not)"),
        (Data, None, "&noti", "named-char-ref(noti)"),
        (Data, None, "&xyz", "ambiguous-ampersand"),
        (Data, None, "&#", "numeric-char-ref"),
        (Data, None, "&#x", "hex-char-ref-start"),
        (Data, None, "&#x4", "hex-char-ref"),
        (Data, None, "&#6", "decimal-char-ref"),
        (Data, None, "<a b=\"&", "char-ref in attr dq"),
        (Data, None, "<a b='&am", "named ref in attr sq"),
        (Data, None, "<a b=&amp", "named ref in attr unq"),
        (Data, None, "<a b=\"&#x4", "hex ref in attr"),
        (Rcdata, Some("title"), "&am", "named ref in rcdata"),
        (Rcdata, Some("title"), "&#6", "decimal ref in rcdata"),
    ]
}

// ---------------------------------------------------------------------------------------------
// HTML document grammar

pub const STRUCTURAL: &[&str] = &["html", "head", "body", "frameset", "frame", "noframes"];
pub const HEAD_ELEMS: &[&str] = &["base", "basefont", "bgsound", "link", "meta", "title", "style", "script", "noscript", "template"];
pub const BLOCK: &[&str] = &[
    "address", "article", "aside", "blockquote", "center", "details", "dialog", "dir", "div", "dl", "fieldset", "figcaption", "figure",
    "footer", "header", "hgroup", "main", "menu", "nav", "ol", "p", "section", "summary", "ul", "pre", "listing", "form", "search",
];
pub const HEADING: &[&str] = &["h1", "h2", "h3", "h4", "h5", "h6"];
pub const LIST: &[&str] = &["li", "dd", "dt"];
pub const FORMATTING: &[&str] = &["a", "b", "big", "code", "em", "font", "i", "nobr", "s", "small", "strike", "strong", "tt", "u"];
pub const TABLE: &[&str] = &["table", "caption", "colgroup", "col", "tbody", "tfoot", "thead", "tr", "td", "th"];
pub const FORMS: &[&str] = &["button", "input", "select", "option", "optgroup", "textarea", "keygen", "label", "datalist", "selectedcontent", "hr", "output"];
pub const VOID_EMBED: &[&str] = &["area", "br", "embed", "img", "wbr", "param", "source", "track", "image", "applet", "marquee", "object", "iframe", "noembed", "xmp", "plaintext"];
pub const RUBY: &[&str] = &["ruby", "rb", "rp", "rt", "rtc"];
pub const FOREIGN: &[&str] = &["svg", "math", "mi", "mo", "mn", "ms", "mtext", "annotation-xml", "foreignObject", "desc", "title", "mglyph", "malignmark", "g", "path", "clipPath", "altGlyph"];
pub const UNKNOWN: &[&str] = &["x", "custom-el", "foo", "span", "isindex", "menuitem", "nextid", "rb"];

/// names the tree builder (or the serializer) legitimately treats specially
pub fn special_html_names() -> Vec<&'static str> {
    let mut v = Vec::new();
    for g in [STRUCTURAL, HEAD_ELEMS, BLOCK, HEADING, LIST, FORMATTING, TABLE, FORMS, VOID_EMBED, RUBY, FOREIGN] {
        v.extend_from_slice(g);
    }
    v
}

pub fn all_html_names() -> Vec<&'static str> {
    let mut v = Vec::new();
    for g in [STRUCTURAL, HEAD_ELEMS, BLOCK, HEADING, LIST, FORMATTING, TABLE, FORMS, VOID_EMBED, RUBY, FOREIGN, UNKNOWN] {
        v.extend_from_slice(g);
    }
    v
}

const HTML_TEXT: &[&str] = &[
    "x", "y", " ", "\n", " a ", "text", "\t", "\0", "é", "&amp;", "&lt", "&nbsp;", "\x0C", "\r\n", "a\0b", " \n ", "1",
    // C0 controls are not white space (table text, frameset-ok), also inside word-sized runs of white space
    "\u{1}", "       \u{1}", "    \u{b}    ", " \u{1f}       ", "        \u{8}", "\u{e}       \n",
];

pub const QUIRKS_DOCTYPES: &[&str] = &[
    "<!DOCTYPE html>",
    "<!doctype HTML>",
    "<!DOCTYPE html SYSTEM \"about:legacy-compat\">",
    "<!DOCTYPE html SYSTEM 'about:legacy-compat'>",
    "<!DOCTYPE>",
    "<!DOCTYPE foo>",
    "<!DOCTYPE html PUBLIC \"-//W3C//DTD HTML 4.01//EN\" \"http://www.w3.org/TR/html4/strict.dtd\">",
    "<!DOCTYPE html PUBLIC \"-//W3C//DTD HTML 4.01 Transitional//EN\">",
    "<!DOCTYPE html PUBLIC \"-//W3C//DTD HTML 4.01 Transitional//EN\" \"http://www.w3.org/TR/html4/loose.dtd\">",
    "<!DOCTYPE html PUBLIC \"-//W3C//DTD HTML 4.01 Frameset//EN\">",
    "<!DOCTYPE html PUBLIC \"-//W3C//DTD HTML 4.01 Frameset//EN\" \"x\">",
    "<!DOCTYPE html PUBLIC \"-//W3C//DTD XHTML 1.0 Transitional//EN\" \"http://www.w3.org/TR/xhtml1/DTD/xhtml1-transitional.dtd\">",
    "<!DOCTYPE html PUBLIC \"-//W3C//DTD XHTML 1.0 Frameset//EN\">",
    "<!DOCTYPE html PUBLIC \"-//W3C//DTD XHTML 1.0 Strict//EN\" \"http://www.w3.org/TR/xhtml1/DTD/xhtml1-strict.dtd\">",
    "<!DOCTYPE html PUBLIC \"-//W3O//DTD W3 HTML Strict 3.0//EN//\">",
    "<!DOCTYPE html PUBLIC \"-/W3C/DTD HTML 4.0 Transitional/EN\">",
    "<!DOCTYPE html PUBLIC \"HTML\">",
    "<!DOCTYPE html PUBLIC \"html\">",
    "<!DOCTYPE html SYSTEM \"http://www.ibm.com/data/dtd/v11/ibmxhtml1-transitional.dtd\">",
    "<!DOCTYPE html PUBLIC \"x\" \"http://www.ibm.com/data/dtd/v11/ibmxhtml1-transitional.dtd\">",
    "<!DOCTYPE html PUBLIC \"-//IETF//DTD HTML 2.0//EN\">",
    "<!DOCTYPE html PUBLIC \"-//ietf//dtd html 2.0//en\">",
    "<!DOCTYPE html PUBLIC \"-//IETF//DTD HTML//EN\">",
    "<!DOCTYPE html PUBLIC \"-//W3C//DTD HTML 3.2 Final//EN\">",
    "<!DOCTYPE html PUBLIC \"-//W3C//DTD HTML 3.2 Final//EN extra\">",
    "<!DOCTYPE html PUBLIC \"-//Netscape Comm. Corp.//DTD HTML//EN\">",
    "<!DOCTYPE html PUBLIC \"-//WebTechs//DTD Mozilla HTML 2.0//\">",
    "<!DOCTYPE html PUBLIC \"-//SoftQuad Software//DTD HoTMetaL PRO 6.0::19990601::extensions to HTML 4.0//\">",
    "<!DOCTYPE html PUBLIC \"-//W3C//DTD W3 HTML//\">",
    "<!DOCTYPE html PUBLIC \"+//Silmaril//dtd html Pro v0r11 19970101//\">",
    "<!DOCTYPE html PUBLIC \"-//AS//DTD HTML 3.0 asWedit + extensions//\">",
    "<!DOCTYPE html PUBLIC \"-//Microsoft//DTD Internet Explorer 3.0 Tables//\">",
    "<!DOCTYPE html PUBLIC \"\" \"\">",
    "<!DOCTYPE html PUBLIC \"-//W3C//DTD XHTML 1.1//EN\" \"http://www.w3.org/TR/xhtml11/DTD/xhtml11.dtd\">",
    "<!DOCTYPE html PUBLIC \"-//W3C//DTD HTML 4.0//EN\" \"http://www.w3.org/TR/REC-html40/strict.dtd\">",
    "<!DOCTYPE html bogus>",
    "<!DOCTYPE html PUBLIC \"-//W3C//DTD HTML 4.01 Transitional//EN\" >",
    "<!DOCTYPE html PUBLIC \"-//W3C//DTD HTML 4.01 Transitional//EN\" \"\">",
    "<!DOCTYPE HTML PUBLIC \"-//W3C//DTD HTML 4.01 Frameset//EN\" \"\">",
    "<!DOCTYPE html PUBLIC \"-//W3C//DTD XHTML 1.0 Frameset//\" 'x'>",
    "<!DOCTYPE html PUBLIC \"-//W3C//DTD XHTML 1.0 Transitional//x\">",
    "<!DOCTYPE htmlx>",
    "<!DOCTYPE html PUBLIC \"a\"",
    "<!DOCTYPE html SYSTEM \"b\">",
    "<!DOCTYPE html PUBLIC \"-//W3C//DTD HTML 4.01//EN\">",
];

pub struct HtmlGen<'a> {
    pub rng: &'a mut Rng,
    pub out: String,
    pub budget: usize,
    /// element names that must not be generated (undecided spec clauses)
    pub exclude: &'a [&'a str],
}

impl<'a> HtmlGen<'a> {
    fn name(&mut self) -> &'static str {
        let groups: [(usize, &[&'static str]); 12] = [
            (2, STRUCTURAL),
            (4, HEAD_ELEMS),
            (10, BLOCK),
            (3, HEADING),
            (4, LIST),
            (10, FORMATTING),
            (10, TABLE),
            (6, FORMS),
            (5, VOID_EMBED),
            (2, RUBY),
            (5, FOREIGN),
            (3, UNKNOWN),
        ];
        for _ in 0..8 {
            let g = *self.rng.pick_weighted(&groups);
            let n = *self.rng.pick(g);
            if !self.exclude.contains(&n) {
                return n;
            }
        }
        "div"
    }

    fn attrs(&mut self, name: &str) {
        let n = [0, 0, 0, 1, 1, 2, 3][self.rng.below(7)];
        for _ in 0..n {
            let special: &[(&str, &[&str])] = &[
                ("type", &["hidden", "HIDDEN", "text", " hidden", "", "h\u{131}dden", "h\u{130}dden", "H\u{130}DDEN", "hidden\u{0}", "hıdden"]),
                ("encoding", &["text/html", "TEXT/HTML", "application/xhtml+xml", "text/xml", ""]),
                ("color", &["red"]),
                ("face", &["x"]),
                ("size", &["1"]),
                ("id", &["a", "b"]),
                ("class", &["c"]),
                ("selected", &[""]),
                ("multiple", &[""]),
                ("charset", &["utf-8", "x"]),
                ("http-equiv", &["content-type", "Content-Type", "refresh"]),
                ("content", &["text/html; charset=utf-8", "charset=x", "x"]),
                ("xlink:href", &["#a"]),
                ("xml:lang", &["en"]),
                ("xmlns", &["http://www.w3.org/2000/svg", "x"]),
                ("xmlns:xlink", &["http://www.w3.org/1999/xlink"]),
                ("definitionurl", &["u"]),
                ("viewbox", &["0 0 1 1"]),
                ("attributename", &["x"]),
                ("shadowrootmode", &["open"]),
                ("a", &["1", "2"]),
                ("href", &["#"]),
                ("action", &["x"]),
                ("prompt", &["p"]),
                ("name", &["n"]),
            ];
            let (k, vs) = *self.rng.pick(special);
            let _ = name;
            self.out.push(' ');
            self.out.push_str(k);
            match self.rng.below(5) {
                0 => {},
                1 => {
                    self.out.push('=');
                    let v = *self.rng.pick(vs);
                    if v.is_empty() || v.contains(' ') || v.contains(';') {
                        self.out.push_str(&format!("\"{v}\""));
                    } else {
                        self.out.push_str(v);
                    }
                },
                _ => {
                    let v = *self.rng.pick(vs);
                    self.out.push_str(&format!("=\"{v}\""));
                },
            }
        }
    }

    fn start(&mut self, name: &str) {
        self.out.push('<');
        self.out.push_str(name);
        self.attrs(name);
        if self.rng.chance(1, 14) {
            self.out.push('/');
        }
        self.out.push('>');
    }

    fn end(&mut self, name: &str) {
        self.out.push_str("</");
        self.out.push_str(name);
        self.out.push('>');
    }

    fn text(&mut self) {
        let k = self.rng.range(1, 3);
        for _ in 0..k {
            let t = *self.rng.pick(HTML_TEXT);
            self.out.push_str(t);
        }
    }

    pub fn node(&mut self, depth: usize) {
        if self.budget == 0 {
            return;
        }
        self.budget -= 1;
        match self.rng.below(20) {
            0..=3 => self.text(),
            4 => {
                let c = *self.rng.pick(&["<!-- c -->", "<!---->", "<!--x--!>", "<!-->", "<?pi?>", "<!x>", "<![CDATA[cd]]>", "<![CDATA[a\0]]>"]);
                self.out.push_str(c);
            },
            5 => {
                // stray end tag
                let n = self.name();
                self.end(n);
            },
            6 => {
                let d = *self.rng.pick(QUIRKS_DOCTYPES);
                self.out.push_str(d);
            },
            _ => {
                let n = self.name();
                self.start(n);
                if depth < 9 {
                    let kids = [0, 1, 1, 2, 2, 3, 4][self.rng.below(7)];
                    for _ in 0..kids {
                        self.node(depth + 1);
                    }
                }
                // close, omit, or misnest
                match self.rng.below(10) {
                    0..=5 => self.end(n),
                    6 => {},
                    7 => {
                        let m = self.name();
                        self.end(m);
                    },
                    _ => {
                        self.end(n);
                        self.text();
                    },
                }
            },
        }
    }
}

/// Scenario templates aimed at the mechanisms C02 names. `k` parametrises sizes.
pub fn scenario(rng: &mut Rng) -> String {
    let fmt = *rng.pick(FORMATTING);
    let fmt2 = *rng.pick(FORMATTING);
    let blk = *rng.pick(&["div", "p", "li", "blockquote", "address", "h1", "td", "button", "marquee", "object", "applet", "center", "dd"]);
    let k = rng.range(1, 10);
    let rep = |s: &str, n: usize| s.repeat(n);
    match rng.below(63) {
        // frameset while a (declarative-shadow-root) template is open in head or body: frameset-ok and the second stack entry
        61 => format!("{}<template{}>{}<frameset><frame></frameset>{}", rng.pick_s(&["<head>", "", "<body>", "<head><title>t</title>", "<html><head>"]), rng.pick_s(&[" shadowrootmode=open", " shadowrootmode=closed", " shadowrootmode=x", ""]), rng.pick_s(&["", "<p>", " ", "x"]), rng.pick_s(&["", "</template>x", "</template><frameset>", "<noframes>"])),
        62 => format!("<head><template shadowrootmode={}></template>{}<frameset>{}", rng.pick_s(&["open", "closed"]), rng.pick_s(&["", "</head>", "</head> ", "<title></title>"]), rng.pick_s(&["", "<frame>", "</frameset>x"])),
        // Noah's ark (4th identical formatting element drops the oldest from the list, which stays open) and what
        // the matching end tags then see: adoption agency step 1 on an element that is no longer in the list
        56 => format!("{}x{}y<p>z", rep(&format!("<{fmt}>"), k), rep(&format!("</{fmt}>"), k)),
        57 => format!("<{fmt} a=1 b=2><{fmt} b=2 a=1><{fmt} a=1 b=2><{fmt} a=1 b='2'><{fmt} a=1 b=2 c><{fmt} a=1 b=2>x{}<{blk}>y{}", rep(&format!("</{fmt}>"), k % 4), rep(&format!("</{fmt}>"), k % 7)),
        // adoption agency: inner-loop counter above 3 (nodes leave the list), outer loop limit of 8
        58 => {
            let mut s = format!("<{fmt}>");
            for i in 0..k {
                s.push_str(&format!("<{}>", FORMATTING[(i * 5 + k) % FORMATTING.len()]));
            }
            format!("{s}<{blk}>x</{fmt}>y</{fmt2}>z")
        },
        59 => format!("<{fmt}>{}x{}y", rep(&format!("<{blk}><{fmt2}>"), k + 2), rep(&format!("</{fmt}>"), k + 2)),
        60 => format!("{}<{blk}>{}x</{fmt}></{fmt}>y</{blk}>z</{fmt}>", rep(&format!("<{fmt}>"), k % 5 + 1), rep(&format!("<{fmt}>"), k % 4)),
        54 => format!("<{blk}><form id=f></{blk}><template><script>1</script>x<p>y</template><script>2</script><input name=a><textarea>t</textarea><button>b</button><select></select>"),
        55 => format!("<div><form></div><table><template><tr><script>1</script><td>x</template><tr><td><input><script>2</script></td></tr></table><input><{fmt}><fieldset>"),
        49 => {
            // adoption agency with non-formatting, non-special elements between the formatting element and the furthest block
            let inl = *rng.pick(&["span", "sub", "kbd", "abbr", "custom-x", "cite"]);
            format!("<{fmt}>{}<{blk}>x</{fmt}>y", rep(&format!("<{inl}>"), k))
        },
        50 => format!("<frameset></frameset></html>{}<html lang=en>{}", rng.pick_s(&["", " ", "<!-- c -->", "\n"]), rng.pick_s(&["x", "<p>y", " z", "<frame>", "<noframes>n</noframes>w"])),
        51 => format!("<svg><desc><![CDATA[\0]]></desc><title><![CDATA[\0\0]]>t</title><foreignObject><![CDATA[\0]]><p></foreignObject></svg><math><mi><![CDATA[\0]]></mi><annotation-xml encoding=text/html><![CDATA[\0]]></annotation-xml></math>"),
        52 => format!("<table><input type=h\u{131}dden><input type=HIDDEN><input type=\"hidden \"></table><p><input type=h\u{130}dden><frameset>"),
        53 => format!("<svg>{}</svg><frameset><frame></frameset>", rng.pick_s(&["\0", " \0 ", "\u{1}", " ", "x", "<g>\0</g>", "<desc>\0</desc>"])),
        45..=48 => {
            // interplay soup: table structure x template x select x formatting, start and end tags in any order
            const T: &[&str] = &[
                "<table>", "<tbody>", "<thead>", "<tr>", "<td>", "<th>", "<caption>", "<colgroup>", "<col>", "<template>", "</table>", "</tbody>", "</tr>", "</td>", "</th>", "</caption>", "</colgroup>", "</template>",
                "<table>", "<tr>", "<td>", "<template>", "</template>", "</tr>", "</td>", "x", " ", "<div>", "</div>", "<select>", "</select>", "<option>", "<b>", "</b>", "<a>", "</a>", "<p>", "<form>", "</form>", "<input>", "<svg>", "</svg>",
                "<frameset>", "</frameset>", "<head>", "</head>", "<body>", "</body>", "</html>", "<html>", "<html lang=en>", "<frame>", "<noframes>", "<script></script>", "<style>", "</style>", "<br>", "</br>", "</p>", "<li>", "<dd>", "<button>", "<object>", "</object>", "<marquee>", "<nobr>",
            ];
            let n = rng.range(3, 16);
            let mut s = String::new();
            for _ in 0..n {
                push_pick(rng, &mut s, T);
            }
            s
        },
        43 => format!("<form><svg><input/><fieldset/><button/><{fmt}/></svg><math><textarea/><select/><output/><object/><img/></math><img><input></form><svg><input/></svg>"),
        44 => format!("<form id=f><{blk}><svg><g><select/><input form=f /></g><foreignObject><input><button>x</button></foreignObject></svg></{blk}><template><input></template></form>"),
        40 => format!("<{blk}><template shadowrootmode=open><p>x<{fmt}>y</template>z</{blk}><template shadowrootmode=closed>w"),
        41 => format!("<head><template shadowrootmode=open>a</template></head><body><template shadowrootmode=\"open\" shadowrootdelegatesfocus><{fmt}>b</template>c"),
        42 => format!("<template shadowrootmode=open><template shadowrootmode=open>x</template>y</template><table><template shadowrootmode=closed><tr><td>z"),
        0 => format!("<{fmt}>{}x</{fmt}>y", rep(&format!("<{blk}>"), k)),
        1 => format!("<{fmt}>{}<{blk}>x</{fmt}>y", rep(&format!("<{fmt2}>"), k)),
        2 => format!("{}<{blk}>x</{fmt}>y", rep(&format!("<{fmt} a={}>", 1), k)),
        3 => format!("{}x<p>y", rep(&format!("<{fmt}>"), k)),
        4 => format!("{}<table><td>{}x", rep(&format!("<{fmt} id=a>"), k), rep(&format!("<{fmt} id=a>"), k % 5)),
        5 => format!("<table>{}x<tr>y<td>z</table>w", rep("<b>", k % 4)),
        6 => format!("<table><tr><td>a</td>b<td>c</tr>d<tbody>e<input type=hidden><input><form><form></table>"),
        7 => format!("<table><caption>a<table><tr><td>b</caption>c</table>d"),
        8 => format!("<table><colgroup><col>x<template></template></colgroup>y<col></table>"),
        9 => format!("<template><tr><td>a</td></tr>b<col><div><template>c</template></div>"),
        10 => format!("<table><template><td>x</template><tr><template>y"),
        11 => format!("<body a=1><p>x<body b=2 a=3><html c=4>y<frameset>"),
        12 => format!("<p>x</p><frameset><frame></frameset>y<noframes>z</noframes>"),
        13 => format!("<head></head><frameset>{}<frame></frameset></html>x<noframes>", rep("<frameset>", k % 4)),
        14 => format!("</head>x<head><title>t</title><body><head>"),
        15 => format!("<head></head><meta charset=utf-8><title>a</title><script>b</script>c<link>"),
        16 => format!("<svg><{fmt}>x</{fmt}><foreignObject><p>y<svg><p>z</svg></foreignObject></svg>w"),
        17 => format!("<math><mi><p>a</mi><annotation-xml encoding=\"text/html\"><div>b</annotation-xml><annotation-xml><div>c</math>"),
        18 => format!("<svg><desc><b>x</desc><title><i>y</title><![CDATA[z]]><path/><br>w"),
        19 => format!("<math><mtext><b>x<mglyph><malignmark></mtext><ms><mglyph/>y</ms><font color=red>z"),
        20 => format!("<p>a</br>b</p>c</p>d<image>e<isindex>f"),
        21 => format!("<pre>\nx</pre><listing>\n\ny</listing><textarea>\nz</textarea><pre>\r\nw"),
        22 => format!("<ul><li>a<li>b<p>c<li>d<dl><dd>e<dt>f<dd>g</ul>"),
        23 => format!("<select><option>a<optgroup><option>b</optgroup><hr><option selected>c<selectedcontent></select>x"),
        24 => format!("<select><button><selectedcontent></selectedcontent></button><option selected>x<b>y</b></option><option>z</select>"),
        25 => format!("<button>a<button>b<form>c<form>d</form>e<nobr>f<nobr>g<a>h<a>i"),
        26 => format!("<h1>a<h2>b</h3>c<{blk}>d</h1>e"),
        27 => format!("<ruby>a<rb>b<rt>c<rtc>d<rp>e<rt>f</ruby>"),
        28 => format!("<noscript>x<p>y</noscript><head><noscript><link><style>a</style>z</noscript>"),
        29 => format!("<plaintext>x</plaintext><b>"),
        30 => format!("<{fmt}><{blk}><{fmt2}>x</{fmt}>y</{fmt2}>z</{blk}>"),
        31 => format!("<a><table><a>x</table>y</a>z"),
        32 => format!("<table><tr><td><{fmt}>x<table><tr><td>y</{fmt}>z</table>w"),
        33 => format!("<html><head></head><body></body></html><!-- c -->x<p>y</html>z"),
        34 => format!("<!-- a --><!DOCTYPE html><!-- b --><html><!-- c --><head><!-- d --></head><!-- e --><body><!-- f --></body><!-- g --></html><!-- h -->"),
        35 => format!("<table><tr><th>a<caption>b<input type=hidden><select><tr>c"),
        36 => format!("<details><summary>a<p>b</summary>c<dialog>d<search>e</details>"),
        37 => format!("<object><param><{fmt}>x</object>y<marquee><{fmt2}>z</marquee>w<applet><{fmt}>v</applet>"),
        38 => format!("<svg><foreignObject><svg><foreignObject><{fmt}>x</svg>y</{fmt}>"),
        _ => format!("<frameset><frame><noframes>x</noframes></frameset><!-- c --></html><!-- d -->y<noframes>"),
    }
}

/// A full HTML input: optional doctype + grammar nodes and/or a scenario, possibly mutated.
pub fn html_doc(rng: &mut Rng, exclude: &[&str], max_nodes: usize) -> String {
    let mut out = String::new();
    if rng.chance(1, 4) {
        out.push_str(rng.pick_s(QUIRKS_DOCTYPES));
    }
    match rng.below(10) {
        0..=2 => out.push_str(&scenario(rng)),
        3 => {
            out.push_str(&scenario(rng));
            out.push_str(&scenario(rng));
        },
        _ => {
            let budget = rng.range(1, max_nodes.max(1));
            let mut g = HtmlGen { rng, out: String::new(), budget, exclude };
            let tops = g.rng.range(1, 4);
            for _ in 0..tops {
                g.node(0);
            }
            let s = std::mem::take(&mut g.out);
            out.push_str(&s);
            if rng.chance(1, 6) {
                out.push_str(&scenario(rng));
            }
        },
    }
    if rng.chance(1, 5) {
        out = mutate(rng, &out);
    }
    // the exclusion list also applies to scenario output
    for e in exclude {
        if out.contains(&format!("<{e}")) {
            out = out.replace(&format!("<{e}"), "<div");
        }
    }
    out
}

pub fn mutate(rng: &mut Rng, s: &str) -> String {
    let mut chars: Vec<char> = s.chars().collect();
    let n = rng.range(1, 3);
    for _ in 0..n {
        if chars.is_empty() {
            break;
        }
        let a = rng.below(chars.len());
        match rng.below(4) {
            0 => {
                chars.remove(a);
            },
            1 => {
                let c = rng.pick(CLASS_CHARS).chars().next().unwrap();
                chars.insert(a, c);
            },
            2 => {
                let b = (a + rng.range(1, 8)).min(chars.len());
                let dup: Vec<char> = chars[a..b].to_vec();
                for (k, c) in dup.into_iter().enumerate() {
                    chars.insert(b + k, c);
                }
            },
            _ => {
                let b = (a + rng.range(1, 8)).min(chars.len());
                chars.drain(a..b);
            },
        }
    }
    chars.into_iter().collect()
}

/// Fragment contexts: (namespace, local name, attrs)
pub fn fragment_contexts() -> Vec<(String, String, Vec<(String, String)>)> {
    use crate::tree::{NS_HTML, NS_MATHML, NS_SVG};
    let mut v = Vec::new();
    for n in [
        "div", "p", "span", "body", "html", "head", "title", "textarea", "style", "xmp", "iframe", "noembed", "noframes", "script",
        "noscript", "plaintext", "table", "caption", "colgroup", "tbody", "thead", "tfoot", "tr", "td", "th", "select", "option",
        "optgroup", "template", "frameset", "form", "button", "a", "b", "li", "pre", "ul", "object", "marquee", "svg", "math", "x",
    ] {
        v.push((NS_HTML.to_string(), n.to_string(), vec![]));
    }
    for n in ["svg", "foreignObject", "desc", "title", "g", "script", "style", "path"] {
        v.push((NS_SVG.to_string(), n.to_string(), vec![]));
    }
    for n in ["math", "mi", "mo", "mn", "ms", "mtext", "annotation-xml", "mrow", "mglyph"] {
        v.push((NS_MATHML.to_string(), n.to_string(), vec![]));
    }
    v.push((NS_MATHML.to_string(), "annotation-xml".to_string(), vec![("encoding".to_string(), "text/html".to_string())]));
    v.push((NS_MATHML.to_string(), "annotation-xml".to_string(), vec![("encoding".to_string(), "APPLICATION/XHTML+XML".to_string())]));
    v.push((NS_MATHML.to_string(), "annotation-xml".to_string(), vec![("encoding".to_string(), "text/plain".to_string())]));
    v
}

// ---------------------------------------------------------------------------------------------
// XML

const XML_NAMES: &[&str] = &["a", "b", "c", "r", "p:a", "p:b", "q:a", "xml:a", "xmlns:a", "script", "p:script", "A", "é", "a-b", "a.b", "_a", ":a", "a:", "p:q:r"];
const XML_TEXT: &[&str] = &["x", " ", "\n", "\r", "\r\n", "\0", "é", "&amp;", "&lt;", "&#65;", "&#x41;", "&amp", "&#13;", "&#0;", "&unknown;", "&", "]]>", "\u{feff}", "y\rz", "\t"];
const XML_URIS: &[&str] = &["u", "v", "w", "", "http://www.w3.org/XML/1998/namespace", "http://www.w3.org/2000/xmlns/", "http://www.w3.org/1999/xhtml"];

fn xml_attr(rng: &mut Rng, out: &mut String) {
    push_pick(rng, out, &[" ", "\n", "\t", "\r", "  "]);
    match rng.below(10) {
        0 | 1 => {
            out.push_str("xmlns");
            out.push_str(&format!("=\"{}\"", rng.pick(XML_URIS)));
        },
        2..=4 => {
            let p = *rng.pick(&["p", "q", "xml", "xmlns", "r"]);
            out.push_str(&format!("xmlns:{p}=\"{}\"", rng.pick(XML_URIS)));
        },
        _ => {
            let n = *rng.pick(&["a", "b", "p:a", "q:a", "p:b", "xml:lang", "xml:space", "p:xmlns", "xmlns:", "A", "q:b", "r:a"]);
            out.push_str(n);
            match rng.below(6) {
                0 => {},
                1 => out.push_str(&format!("='{}'", rng.pick(XML_TEXT).replace('\'', ""))),
                2 => out.push_str(&format!("={}", rng.pick(&["v", "1", "a&amp;b", "x\0", "é"]))),
                _ => out.push_str(&format!("=\"{}\"", rng.pick(XML_TEXT).replace('"', ""))),
            }
        },
    }
}

pub fn xml_node(rng: &mut Rng, out: &mut String, depth: usize, budget: &mut usize) {
    if *budget == 0 {
        return;
    }
    *budget -= 1;
    match rng.below(16) {
        0..=3 => push_pick(rng, out, XML_TEXT),
        4 => push_pick(rng, out, &["<!-- c -->", "<!---->", "<!--a--b-->", "<!--\r\n-->", "<!--\0-->", "<!-- x", "<!-->"]),
        5 => push_pick(rng, out, &["<?pi data?>", "<?pi?>", "<?pi \r\n d?>", "<?xml version=\"1.0\"?>", "<?p\0i x?>", "<? x?>", "<?pi d"]),
        6 => push_pick(rng, out, &["<![CDATA[x]]>", "<![CDATA[]]>", "<![CDATA[a\rb]]>", "<![CDATA[\0]]>", "<![CDATA[]]]]>", "<![CDATA[x"]),
        7 => push_pick(rng, out, &["</>", "</a>", "</p:a>", "</ a>", "</b >", "<>", "< a>", "</a b='1'>", "</a b=c d>", "</ x='y'>", "</a/>", "</a xmlns='u'>"]),
        8 => push_pick(rng, out, &["<!DOCTYPE a>", "<!DOCTYPE a PUBLIC \"p\" \"s\">", "<!DOCTYPE a SYSTEM 's'>", "<!DOCTYPE a [ <!ENTITY x \"y\"> ]>", "<!DOCTYPE\ra\rPUBLIC\r'p\rq'>", "<!DOCTYPE", "<!DOCTYPE a PUBLIC 'x", "<!DOCTYPE a PUBLIC 'p'\"s\">", "<!DOCTYPE a PUBLIC \"p\"'s'>", "<!DOCTYPE a PUBLIC \"p\">", "<!DOCTYPE a PUBLIC 'p' >", "<!DOCTYPE a SYSTEM\"s\">", "<!DOCTYPE a PUBLIC\"p\" x>", "<!DOCTYPE a SYSTEM 's' x>", "<!DOCTYPE a x>", "<!DOCTYPE a PUBLIC>", "<!doctype a public 'P' system>", "<!X>", "<!"]),
        _ => {
            let n = *rng.pick(XML_NAMES);
            out.push('<');
            out.push_str(n);
            let na = [0, 0, 1, 1, 2, 3, 4][rng.below(7)];
            for _ in 0..na {
                xml_attr(rng, out);
            }
            if rng.chance(1, 4) {
                out.push_str("/>");
                return;
            }
            out.push('>');
            if depth < 7 {
                let kids = [0, 1, 1, 2, 3][rng.below(5)];
                for _ in 0..kids {
                    xml_node(rng, out, depth + 1, budget);
                }
            }
            match rng.below(8) {
                0..=4 => out.push_str(&format!("</{n}>")),
                5 => out.push_str("</>"),
                6 => {},
                _ => out.push_str(&format!("</{}>", rng.pick(XML_NAMES))),
            }
        },
    }
}

pub fn xml_doc(rng: &mut Rng, max_nodes: usize) -> String {
    let mut out = String::new();
    if rng.chance(1, 8) {
        out.push('\u{feff}');
    }
    if rng.chance(1, 5) {
        out.push_str("<?xml version=\"1.0\"?>");
    }
    let mut budget = rng.range(1, max_nodes.max(1));
    let tops = rng.range(1, 3);
    for _ in 0..tops {
        xml_node(rng, &mut out, 0, &mut budget);
    }
    if rng.chance(1, 6) {
        out = mutate(rng, &out);
    }
    out
}

/// Well-nested namespace shapes (for C16/C17): elements with declarations, un-declarations,
/// shadowing, unbound prefixes; attribute permutations.
pub fn xml_ns_doc(rng: &mut Rng) -> String {
    fn el(rng: &mut Rng, out: &mut String, depth: usize, budget: &mut usize) {
        if *budget == 0 {
            return;
        }
        *budget -= 1;
        // (prefixes that merely begin with "xml" are ordinary prefixes)
        let prefixes = ["", "", "p", "q", "r", "xml", "xmlns", "p", "q", "xmlrpc", "xmlx", "XML"];
        let p = *rng.pick(&prefixes);
        let local = *rng.pick(&["a", "b", "c", "script", "d"]);
        let name = if p.is_empty() { local.to_string() } else { format!("{p}:{local}") };
        out.push('<');
        out.push_str(&name);
        let mut attrs: Vec<String> = Vec::new();
        let nd = [0, 0, 1, 1, 2, 3][rng.below(6)];
        for _ in 0..nd {
            if rng.chance(1, 3) {
                attrs.push(format!("xmlns=\"{}\"", rng.pick(&["u", "v", "", "w"])));
            } else {
                let dp = *rng.pick(&["p", "q", "r", "xml", "xmlns", "p", "q", "xmlrpc", "xmlx", "XML"]);
                attrs.push(format!("xmlns:{dp}=\"{}\"", rng.pick(&["u", "v", "", "w", "http://www.w3.org/XML/1998/namespace", "u1", "u2", "a", "b", "u\u{85}", "urn:x y"])));
            }
        }
        let na = [0, 0, 1, 2, 3][rng.below(5)];
        for _ in 0..na {
            let ap = *rng.pick(&["", "", "p", "q", "r", "xml", "xmlrpc", "xmlx"]);
            // (upper-case and digit variants: names that differ from each other by small byte distances)
            let al = *rng.pick(&["x", "y", "z", "xmlns", "lang", "X", "Y", "Z", "xo", "xP", "y1", "Z0"]);
            let an = if ap.is_empty() { al.to_string() } else { format!("{ap}:{al}") };
            let v = *rng.pick(&["1", "2", "a&amp;b", "&lt;", "'", "&quot;", "é", "a b", "&#10;", "&#13;", "&#9;", "", "\u{85}", "a\u{85}b", "\u{2028}", "\u{80}", "\u{9f}", "&#x85;", "&#133;", "\u{a0}", "\t", "\n"]);
            attrs.push(format!("{an}=\"{v}\""));
        }
        rng.shuffle(&mut attrs);
        for a in attrs {
            out.push(' ');
            out.push_str(&a);
        }
        if rng.chance(1, 5) {
            out.push_str("/>");
            return;
        }
        out.push('>');
        if depth < 5 {
            let kids = [0, 1, 1, 2, 3][rng.below(5)];
            for _ in 0..kids {
                match rng.below(6) {
                    0 => out.push_str(rng.pick_s(&["t", "a&amp;b", "&lt;x&gt;", "]]&gt;", " ", "é", "&#13;", "&#10;", "x\ny", "--", "&#9;", "\u{85}", "\u{2028}", "\u{80}x", "&#x85;"])),
                    1 => out.push_str(rng.pick_s(&["<!-- c -->", "<?pi d?>", "<![CDATA[<&>]]>"])),
                    _ => el(rng, out, depth + 1, budget),
                }
            }
        }
        match rng.below(10) {
            0 => out.push_str("</>"),
            _ => out.push_str(&format!("</{name}>")),
        }
    }
    let mut out = String::new();
    let mut budget = rng.range(1, 14);
    el(rng, &mut out, 0, &mut budget);
    out
}

// ---------------------------------------------------------------------------------------------
// chunk schedules

/// All cut-point lists for 2-chunk splits of a string of `n` chars: [0], [1], ..., [n].
pub fn two_chunk_cuts(n: usize) -> Vec<Vec<usize>> {
    (0..=n).map(|i| vec![i]).collect()
}

pub fn one_char_cuts(n: usize) -> Vec<usize> {
    (1..n).collect()
}

/// Random k-partition (sorted cut points, may repeat => empty chunks).
pub fn random_cuts(rng: &mut Rng, n: usize) -> Vec<usize> {
    let k = rng.range(1, 6);
    let mut v: Vec<usize> = (0..k).map(|_| rng.below(n + 1)).collect();
    v.sort();
    v
}

/// All partitions of n chars as bitmasks over the n-1 interior boundaries (n <= 13).
pub fn all_partitions(n: usize) -> Vec<Vec<usize>> {
    if n <= 1 {
        return vec![vec![]];
    }
    let m = n - 1;
    (0..(1u32 << m))
        .map(|mask| (0..m).filter(|b| mask & (1 << b) != 0).map(|b| b + 1).collect())
        .collect()
}

// ---------------------------------------------------------------------------------------------
// pathological inputs for C04

pub fn deep_inputs(scale: usize) -> Vec<(String, String)> {
    let n = scale;
    let mut v: Vec<(String, String)> = Vec::new();
    let rep = |s: &str, k: usize| s.repeat(k);
    v.push(("deep-div".into(), rep("<div>", n)));
    v.push(("deep-div-closed".into(), format!("{}{}", rep("<div>", n), rep("</div>", n))));
    v.push(("deep-b".into(), rep("<b>", n)));
    v.push(("deep-b-p".into(), format!("{}{}", rep("<b>", n / 4), rep("<p>", n / 4))));
    v.push(("deep-a-div".into(), rep("<a><div>", n / 8)));
    v.push(("deep-table".into(), rep("<table><tr><td>", n / 8)));
    v.push(("deep-template".into(), rep("<template>", n / 2)));
    v.push(("deep-svg".into(), format!("<svg>{}", rep("<g>", n))));
    v.push(("deep-math".into(), format!("<math>{}", rep("<mrow>", n))));
    v.push(("deep-select-option".into(), rep("<select><option>", n / 8)));
    v.push(("deep-font-table".into(), format!("{}<table>{}", rep("<font>", n / 16), rep("x<b>", n / 16))));
    v.push(("many-attrs".into(), format!("<div {}>", (0..n / 4).map(|i| format!("a{i}=\"{i}\" ")).collect::<String>())));
    v.push(("dup-attrs".into(), format!("<div {}>", rep("a=1 ", n / 2))));
    v.push(("long-text".into(), rep("abcdefghij", n * 2)));
    v.push(("long-text-amp".into(), rep("a&b ", n)));
    v.push(("long-comment".into(), format!("<!--{}", rep("-x", n))));
    v.push(("long-attr".into(), format!("<a b=\"{}", rep("x&amp", n / 2))));
    v.push(("many-unclosed-formatting".into(), (0..n / 8).map(|i| format!("<b id={i}><i><a>")).collect::<String>()));
    v.push(("many-end-tags".into(), rep("</b></p></div></table>", n / 8)));
    v.push(("crlf-storm".into(), rep("\r\n\r\r\n", n)));
    v.push(("nul-storm".into(), rep("\0<\0", n / 2)));
    v.push(("lt-storm".into(), rep("<", n)));
    v.push(("amp-storm".into(), rep("&", n)));
    v.push(("charref-storm".into(), rep("&#x110000;&#0;&notit;", n / 8)));
    v.push(("nested-li".into(), rep("<ul><li>", n / 4)));
    v.push(("nested-dd".into(), rep("<dl><dd><dt>", n / 8)));
    v.push(("nested-button".into(), rep("<button><p>", n / 8)));
    v.push(("nested-nobr".into(), rep("<nobr>x", n / 8)));
    v.push(("deep-rawtext".into(), format!("<style>{}", rep("</styl", n / 4))));
    v.push(("deep-script-escape".into(), format!("<script>{}", rep("<!--<script>", n / 8))));
    v.push(("frameset-storm".into(), rep("<frameset>", n / 4)));
    v.push(("cdata-storm".into(), format!("<svg>{}", rep("<![CDATA[]]]]>", n / 8))));
    v
}

pub fn deep_xml_inputs(scale: usize) -> Vec<(String, String)> {
    let n = scale;
    let rep = |s: &str, k: usize| s.repeat(k);
    vec![
        ("xml-deep".into(), rep("<a>", n)),
        ("xml-deep-closed".into(), format!("{}{}", rep("<a>", n), rep("</a>", n))),
        ("xml-deep-ns".into(), rep("<p:a xmlns:p='u'>", n / 4)),
        ("xml-short-tags".into(), format!("{}{}", rep("<a>", n / 2), rep("</>", n))),
        ("xml-many-attrs".into(), format!("<a {}/>", (0..n / 4).map(|i| format!("a{i}='{i}' ")).collect::<String>())),
        ("xml-long-text".into(), rep("abc&amp;\r\n", n)),
        ("xml-pi-storm".into(), rep("<?p d?>", n / 2)),
        ("xml-comment-storm".into(), rep("<!--x-->", n / 2)),
        ("xml-lt-storm".into(), rep("<", n)),
        ("xml-mismatched-end".into(), format!("{}{}", rep("<a><b>", n / 4), rep("</a>", n / 4))),
        ("xml-doctype-long".into(), format!("<!DOCTYPE a PUBLIC '{}'", rep("x", n))),
        ("xml-cdata-long".into(), format!("<a><![CDATA[{}", rep("]]", n))),
    ]
}

// ---- customizable <select> documents (selectedcontent mirroring) ---------------------------------

fn select_option_content(rng: &mut Rng, out: &mut String) {
    let n = rng.below(4);
    for _ in 0..n {
        push_pick(
            rng,
            out,
            &[
                "x",
                "text ",
                "<b>y</b>",
                "<i>a<u>b</u></i>",
                "<div><template>a<i>b</i></template></div>",
                "<span><span><template><p>t</p></template>deep</span></span>",
                "<template>t</template>",
                "<selectedcontent>zz</selectedcontent>",
                "<selectedcontent></selectedcontent>",
                "<svg><circle r=1 /></svg>",
                "<img alt=i>",
                "<!-- c -->",
                "<span class=k>s</span>",
            ],
        );
    }
}

fn select_item(rng: &mut Rng, out: &mut String, depth: usize) {
    match rng.below(13) {
        0..=5 => {
            out.push_str("<option");
            if rng.chance(1, 2) {
                out.push_str(" selected");
            }
            if rng.chance(1, 6) {
                out.push_str(" value=v");
            }
            out.push('>');
            select_option_content(rng, out);
            if !rng.chance(1, 5) {
                out.push_str("</option>");
            }
        },
        6 if depth < 3 => {
            out.push_str("<optgroup label=g>");
            for _ in 0..rng.range(1, 2) {
                select_item(rng, out, depth + 1);
            }
            if !rng.chance(1, 4) {
                out.push_str("</optgroup>");
            }
        },
        7 if depth < 3 => {
            out.push_str("<div>");
            for _ in 0..rng.range(1, 2) {
                select_item(rng, out, depth + 1);
            }
            out.push_str("</div>");
        },
        8 => out.push_str("<hr>"),
        9 if depth < 2 => {
            // two optgroup ancestors separated by another element: no nearest select
            out.push_str("<optgroup><div><optgroup>");
            select_item(rng, out, depth + 2);
            out.push_str("</optgroup></div></optgroup>");
        },
        10 if depth < 3 => {
            out.push_str("<datalist>");
            select_item(rng, out, depth + 1);
            out.push_str("</datalist>");
        },
        11 if depth < 2 => {
            // a select nested in a select (needs a scope boundary in between), with or without a
            // selectedcontent of its own: the outer select's first selectedcontent may sit inside it
            push_pick(rng, out, &["<object>", "<marquee>", "<table><tr><td>", "<svg><foreignObject>", "<applet>"]);
            out.push_str("<select>");
            push_pick(rng, out, &["<selectedcontent>old</selectedcontent>", "<button><selectedcontent>inner</selectedcontent></button>", ""]);
            select_item(rng, out, depth + 2);
            out.push_str("</select>");
            push_pick(rng, out, &["</object>", "</marquee>", "</td></tr></table>", "</foreignObject></svg>", "</applet>", ""]);
        },
        _ => push_pick(rng, out, &["t", " ", "<span>w</span>", "<!-- x -->"]),
    }
}

// (the catch-all arm above also takes the guarded cases whose depth limit was reached)

/// `<select>` with a `selectedcontent` target (in a button, bare, inside an option, several, none),
/// options - selected or not, closed explicitly or not - whose content includes nested elements,
/// templates at depth 1..3 and nested selectedcontent, and optgroup / div / datalist / hr wrappers.
pub fn select_doc(rng: &mut Rng) -> String {
    let mut out = String::new();
    push_pick(rng, &mut out, &["", "<!DOCTYPE html>", "<p>before", "<div>"]);
    push_pick(rng, &mut out, &["<select>", "<select>", "<select>", "<select multiple>", "<select id=s size=1>"]);
    push_pick(
        rng,
        &mut out,
        &[
            "<button><selectedcontent></selectedcontent></button>",
            "<button><selectedcontent></selectedcontent></button>",
            "<selectedcontent>old<i>x</i></selectedcontent>",
            "<button><selectedcontent>t</selectedcontent></button><selectedcontent>second</selectedcontent>",
            "<button><span><selectedcontent>a</selectedcontent></span></button>",
            "",
        ],
    );
    for _ in 0..rng.range(1, 5) {
        select_item(rng, &mut out, 0);
    }
    if !rng.chance(1, 4) {
        out.push_str("</select>");
    }
    push_pick(rng, &mut out, &["", "after", "<select><option selected>2</option></select>"]);
    out
}

// ---- meta elements with hostile charset declarations ------------------------------------------------

const META_CONTENT_TOKENS: &[&str] = &[
    "charset", "CHARSET", "chars", "Charset", " ", "\t", "\n", "\x0C", "=", "&quot;", "'", ";", "x", "utf-8", "é", "text/html", ",", "charset=", "\u{130}", "\u{212a}", "日本", "\u{10ffff}", "&#13;", "&#xA0;",
    "charset=&quot;é&quot;", "charset='日'", "charset=&quot;", "charset = 'a b' ", "&quot;é", "é&quot;",
];

/// a `<meta>` start tag whose charset / http-equiv / content attributes are built from tokens that
/// stress the "extract a character encoding" scanner: quotes (matched and not), non-ASCII text inside
/// and around the quotes, white space by character reference, several `charset` words
pub fn random_meta(rng: &mut Rng) -> String {
    let mut content = String::new();
    for _ in 0..rng.below(8) {
        content.push_str(rng.pick_s(META_CONTENT_TOKENS));
    }
    // labels a decoder front end is likely to single out, in both cases
    const LABELS: &[&str] = &["utf-8", "", "x", "a b", "é", "&quot;é&quot;", "UTF-8", "utf-16", "UTF-16LE", "utf-16be", "UTF-16", "utf-7", "windows-1252", "iso-8859-1", "x-user-defined", "replacement", "iso-2022-jp", "utf8", "unicode", "ascii", "none"];
    let m = random_meta_tag(rng, &content, LABELS);
    // what directly follows the tag matters to a tokenizer that is resumed after an encoding indicator: a BOM,
    // a line break, another meta (two indicators in one chunk), an empty-valued charset
    let follower = match rng.below(12) {
        0 => "\u{feff}".to_string(),
        1 => "\u{feff}x".to_string(),
        2 => "\n".to_string(),
        3 => "\r\n".to_string(),
        4 => random_meta_tag(rng, &content, LABELS),
        5 => format!("<meta charset>{}", random_meta_tag(rng, &content, LABELS)),
        6 => "<meta charset=\"\"><meta name=a charset>".to_string(),
        _ => String::new(),
    };
    format!("{m}{follower}")
}

fn random_meta_tag(rng: &mut Rng, content: &str, labels: &[&str]) -> String {
    match rng.below(7) {
        6 => format!("<meta charset={}>", rng.pick_s(&["utf-16", "UTF-16LE", "utf-16be", "utf-8", "x-user-defined", "\"\""])),
        0 => format!("<meta charset=\"{}\">", rng.pick_s(labels)),
        1 => format!("<meta http-equiv=\"{}\" content=\"{content}\">", rng.pick_s(&["content-type", "Content-Type", "CONTENT-TYPE", "content-typ", "refresh"])),
        2 => format!("<meta content=\"{content}\" http-equiv=content-type>"),
        3 => format!("<meta content=\"{content}\">"),
        4 => format!("<meta http-equiv=content-type content=\"{content}\" charset=z>"),
        _ => format!("<meta http-equiv=content-type content=\"{content}\"/>"),
    }
}
