//! Checking global allocator (C12's native leg).
//!
//! Allocations made while the calling thread's *attribution flag* is on (the harness turns it on
//! only around tendril API calls) are served from a private bump arena that is never reused until
//! the harness resets it at a quiescent point. For those blocks the allocator checks:
//!  * every dealloc names a live block, with exactly the layout it was allocated with
//!    (double free, free of an interior/foreign pointer, wrong capacity in Buf32::destroy);
//!  * red zones before and after each block are intact when it is freed and at reset
//!    (adjacent overflow / underflow);
//!  * freed blocks are poisoned and the poison is intact at reset (write after free);
//!  * conservation: allocated = freed + live, live is reported at quiescent points.
//! Everything else goes straight to the system allocator.

use std::alloc::{GlobalAlloc, Layout, System};
use std::cell::Cell;
use std::sync::atomic::{AtomicBool, AtomicUsize, Ordering};

pub struct VAlloc;

const ARENA_SIZE: usize = 1 << 30; // virtual; pages are touched lazily
const RZ: usize = 32;
const RZ_BYTE: u8 = 0xA5;
const POISON: u8 = 0xDD;
const MAX_BLOCKS: usize = 1 << 18;

#[derive(Clone, Copy)]
struct Block {
    off: usize, // offset of the user pointer inside the arena
    size: usize,
    align: usize,
    live: bool,
}

struct State {
    base: usize,
    bump: usize,
    nblocks: usize,
    live: usize,
    live_bytes: usize,
    allocs: u64,
    frees: u64,
    peak_live: usize,
    violation: [u8; 200],
    violation_len: usize,
    violations: u64,
}

static LOCK: AtomicBool = AtomicBool::new(false);
static ARENA_BASE: AtomicUsize = AtomicUsize::new(0);
static mut STATE: State = State {
    base: 0,
    bump: 0,
    nblocks: 0,
    live: 0,
    live_bytes: 0,
    allocs: 0,
    frees: 0,
    peak_live: 0,
    violation: [0; 200],
    violation_len: 0,
    violations: 0,
};
static mut BLOCKS: [Block; MAX_BLOCKS] = [Block { off: 0, size: 0, align: 0, live: false }; MAX_BLOCKS];

thread_local! {
    static ATTR: Cell<bool> = const { Cell::new(false) };
}

fn lock() {
    while LOCK.compare_exchange_weak(false, true, Ordering::Acquire, Ordering::Relaxed).is_err() {
        std::hint::spin_loop();
    }
}
fn unlock() {
    LOCK.store(false, Ordering::Release);
}

#[allow(static_mut_refs)]
unsafe fn st() -> &'static mut State {
    &mut *std::ptr::addr_of_mut!(STATE)
}
#[allow(static_mut_refs)]
unsafe fn blocks() -> &'static mut [Block; MAX_BLOCKS] {
    &mut *std::ptr::addr_of_mut!(BLOCKS)
}

unsafe fn record(msg: &[u8], a: usize, b: usize) {
    let s = st();
    s.violations += 1;
    if s.violation_len != 0 {
        return;
    }
    let mut n = 0;
    for &c in msg {
        if n < 150 {
            s.violation[n] = c;
            n += 1;
        }
    }
    // append two numbers in hex without allocating
    for v in [a, b] {
        if n < 198 {
            s.violation[n] = b' ';
            n += 1;
        }
        let mut started = false;
        for shift in (0..16).rev() {
            let d = ((v >> (shift * 4)) & 0xf) as u8;
            if d != 0 || started || shift == 0 {
                started = true;
                if n < 199 {
                    s.violation[n] = if d < 10 { b'0' + d } else { b'a' + d - 10 };
                    n += 1;
                }
            }
        }
    }
    s.violation_len = n;
}

unsafe fn arena_base() -> usize {
    let b = ARENA_BASE.load(Ordering::Acquire);
    if b != 0 {
        return b;
    }
    let p = System.alloc(Layout::from_size_align_unchecked(ARENA_SIZE, 4096)) as usize;
    ARENA_BASE.store(p, Ordering::Release);
    st().base = p;
    p
}

fn in_arena(p: usize) -> bool {
    let b = ARENA_BASE.load(Ordering::Acquire);
    b != 0 && p >= b && p < b + ARENA_SIZE
}

unsafe fn find(off: usize) -> Option<usize> {
    // blocks are created with increasing offsets: binary search
    let s = st();
    let bl = blocks();
    let (mut lo, mut hi) = (0usize, s.nblocks);
    while lo < hi {
        let mid = (lo + hi) / 2;
        if bl[mid].off < off {
            lo = mid + 1;
        } else {
            hi = mid;
        }
    }
    if lo < s.nblocks && bl[lo].off == off {
        Some(lo)
    } else {
        None
    }
}

unsafe fn check_zones(base: usize, b: &Block) -> bool {
    let p = (base + b.off) as *const u8;
    for k in 0..RZ {
        if *p.sub(k + 1) != RZ_BYTE || *p.add(b.size + k) != RZ_BYTE {
            return false;
        }
    }
    true
}

unsafe impl GlobalAlloc for VAlloc {
    unsafe fn alloc(&self, layout: Layout) -> *mut u8 {
        if !ATTR.with(|a| a.get()) {
            return System.alloc(layout);
        }
        lock();
        let base = arena_base();
        let s = st();
        let align = layout.align().max(16);
        let start = (s.bump + RZ + align - 1) & !(align - 1);
        let end = start + layout.size() + RZ;
        if base == 0 || end > ARENA_SIZE || s.nblocks >= MAX_BLOCKS {
            unlock();
            return System.alloc(layout);
        }
        s.bump = end;
        let p = (base + start) as *mut u8;
        std::ptr::write_bytes(p.sub(RZ), RZ_BYTE, RZ);
        std::ptr::write_bytes(p.add(layout.size()), RZ_BYTE, RZ);
        blocks()[s.nblocks] = Block { off: start, size: layout.size(), align: layout.align(), live: true };
        s.nblocks += 1;
        s.live += 1;
        s.live_bytes += layout.size();
        s.allocs += 1;
        if s.live > s.peak_live {
            s.peak_live = s.live;
        }
        unlock();
        p
    }

    unsafe fn dealloc(&self, ptr: *mut u8, layout: Layout) {
        let p = ptr as usize;
        if !in_arena(p) {
            return System.dealloc(ptr, layout);
        }
        lock();
        let s = st();
        let off = p - s.base;
        match find(off) {
            None => record(b"dealloc of a pointer that is not the start of any tendril-attributed block (interior/foreign free); offset,size:", off, layout.size()),
            Some(i) => {
                let b = blocks()[i];
                if !b.live {
                    record(b"double free of a tendril-attributed block; offset,size:", off, b.size);
                } else {
                    if b.size != layout.size() || b.align != layout.align() {
                        record(b"dealloc with a layout different from the allocation's; allocated size, freed size:", b.size, layout.size());
                    }
                    if !check_zones(s.base, &b) {
                        record(b"red zone around a tendril buffer was overwritten (out-of-bounds write); offset,size:", off, b.size);
                    }
                    blocks()[i].live = false;
                    s.live -= 1;
                    s.live_bytes -= b.size;
                    s.frees += 1;
                    std::ptr::write_bytes(ptr, POISON, b.size);
                }
            },
        }
        unlock();
    }
}

// ---------------------------------------------------------------------------------------------
// harness-facing API

/// Run `f` with allocations attributed to tendril.
#[inline]
pub fn attributed<R>(f: impl FnOnce() -> R) -> R {
    let prev = ATTR.with(|a| a.replace(true));
    let r = f();
    ATTR.with(|a| a.set(prev));
    r
}

#[derive(Debug, Clone, Copy, Default)]
pub struct Snapshot {
    pub live: usize,
    pub live_bytes: usize,
    pub allocs: u64,
    pub frees: u64,
    pub peak_live: usize,
    pub violations: u64,
}

pub fn snapshot() -> Snapshot {
    lock();
    let s = unsafe { st() };
    let r = Snapshot { live: s.live, live_bytes: s.live_bytes, allocs: s.allocs, frees: s.frees, peak_live: s.peak_live, violations: s.violations };
    unlock();
    r
}

pub fn take_violation() -> Option<String> {
    lock();
    let s = unsafe { st() };
    let r = if s.violation_len > 0 { Some(String::from_utf8_lossy(&s.violation[..s.violation_len]).into_owned()) } else { None };
    // note: the String above is allocated with attribution off (harness side)
    s.violation_len = 0;
    unlock();
    r
}

/// At a quiescent point with no live attributed block: verify poison and red zones of everything
/// allocated since the last reset, then recycle the arena. Returns an error description if the
/// arena cannot be reset (live blocks) or a check failed.
pub fn reset() -> Result<usize, String> {
    lock();
    let s = unsafe { st() };
    if s.live != 0 {
        let n = s.live;
        unlock();
        return Err(format!("{n} tendril-attributed blocks still live"));
    }
    let mut bad: Option<&'static str> = None;
    let n = s.nblocks;
    unsafe {
        for i in 0..n {
            let b = blocks()[i];
            if !check_zones(s.base, &b) {
                bad = Some("red zone overwritten after the block was freed or while live");
            }
            let p = (s.base + b.off) as *const u8;
            for k in 0..b.size {
                if *p.add(k) != POISON {
                    bad = Some("freed tendril buffer was written after it was freed");
                    break;
                }
            }
        }
    }
    s.nblocks = 0;
    s.bump = 0;
    unlock();
    match bad {
        Some(b) => Err(b.to_string()),
        None => Ok(n),
    }
}

pub fn enabled() -> bool {
    cfg!(not(any(miri, feature = "no_valloc")))
}
