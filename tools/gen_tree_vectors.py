#!/usr/bin/env python3
"""Draft /verif/vectors/tree_vectors.json from tools/tree_vector_inputs.py.

usage: gen_tree_vectors.py <path to vharness> [out.json]

The expected trees are the reference model's answers (vharness C02 --fill-vectors); every one of
them was reviewed by hand against the html5lib tree-construction expectations when the file was
first written. Re-run only to ADD cases, and review the new expectations before committing;
"quirks" expectations come from tree_vector_inputs.py (they are not produced by the model).
The tool also prints the cases on which html5ever currently differs from the model.
"""
import json, os, subprocess, sys, tempfile

here = os.path.dirname(os.path.abspath(__file__))
sys.path.insert(0, here)
from tree_vector_inputs import CASES

def main():
    harness = sys.argv[1]
    out = sys.argv[2] if len(sys.argv) > 2 else os.path.join(here, "..", "vectors", "tree_vectors.json")
    tests = []
    for desc, inp, opts in CASES:
        t = {"description": desc, "input": inp}
        t.update(opts)
        tests.append(t)
    with tempfile.TemporaryDirectory() as d:
        src = os.path.join(d, "in.json")
        dst = os.path.join(d, "out.json")
        json.dump({"tests": tests}, open(src, "w"))
        env = dict(os.environ, VERIF_ROOT=d)
        r = subprocess.run([harness, "C02", "--fill-vectors", src, dst], env=env, capture_output=True, text=True)
        sys.stderr.write(r.stdout + r.stderr)
        doc = json.load(open(dst))
    with open(out, "w") as f:
        f.write('{"tests": [\n')
        f.write(",\n".join(json.dumps(t, ensure_ascii=False) for t in doc["tests"]))
        f.write("\n]}\n")
    print(f"{len(doc['tests'])} cases written to {out}")

if __name__ == "__main__":
    main()
