#!/usr/bin/env python3
"""Intake of one seeded change: re-verify it in its scratch worktree, run the registered check(s)
against it, and store it under /verif/seeded/<name>/ with meta.json.

usage: tools/seed_intake.py <worktree> <n> <property id> [extra property ids to run as well]
"""
import json, os, re, shutil, subprocess, sys

VERIF = os.path.dirname(os.path.dirname(os.path.abspath(__file__)))


def main():
    wt, n, pid = sys.argv[1], sys.argv[2], sys.argv[3]
    extra = sys.argv[4:]
    name = f"{pid}-{os.path.basename(wt).split('-')[-1]}{n}"
    seed = os.path.join(wt, "SEED", n)
    if not os.path.exists(os.path.join(seed, "patch.diff")):
        print("no patch at", seed)
        return 2
    cached = os.path.join(seed, "verify.txt")
    if os.path.exists(cached):
        # tools/seed_verify.sh was already run for this change (in parallel with others); its output line was kept
        vline = (open(cached).read().strip().splitlines() or ["?"])[-1]
    else:
        v = subprocess.run([os.path.join(VERIF, "tools", "seed_verify.sh"), wt, n], text=True, capture_output=True)
        vline = (v.stdout.strip().splitlines() or ["?"])[-1]
    print(vline)
    ok_base = re.search(r"baseline-demo: \[test result: ok", vline) is not None
    ok_mut = re.search(r"mutated-demo: \[test result: FAILED", vline) is not None or "panicked" in vline
    ok_suite = "passed=142 failed=0" in vline
    confirmed = ok_base and ok_mut and ok_suite
    tier = os.environ.get("SEED_TIER", "quick")
    ev = subprocess.run([sys.executable, os.path.join(VERIF, "tools", "seed_eval.py"), os.path.join(seed, "patch.diff"), tier, pid] + extra, text=True, capture_output=True)
    print(ev.stdout[-3000:])
    try:
        results = json.loads(ev.stdout.strip().splitlines()[-1])
    except Exception:
        results = {"error": ev.stdout[-500:] + ev.stderr[-500:]}
    dst = os.path.join(VERIF, "seeded", name)
    os.makedirs(dst, exist_ok=True)
    for f in ["patch.diff", "demo.rs", "NOTES.md"]:
        if os.path.exists(os.path.join(seed, f)):
            shutil.copy(os.path.join(seed, f), os.path.join(dst, f))
    notes = open(os.path.join(seed, "NOTES.md")).read() if os.path.exists(os.path.join(seed, "NOTES.md")) else ""
    files = re.findall(r"^\+\+\+ b/(\S+)", open(os.path.join(seed, "patch.diff")).read(), re.M)
    meta = {
        "name": name,
        "breaks_property": pid,
        "files_changed": files,
        "needs_to_manifest": "see NOTES.md (written by the seeding agent, which was given only the property text)",
        "verification": {"line": vline, "demo_passes_on_clean_tree": ok_base, "demo_fails_with_patch": ok_mut, "baseline_142_pass_with_patch": ok_suite, "confirmed": confirmed},
        "checks_run": {k: {"tier": tier, "exit": r.get("exit"), "violation_lines": r.get("n_violation_lines"), "first_lines": r.get("lines", [])[:2]} for k, r in results.items() if isinstance(r, dict)},
        "caught_by": [k for k, r in results.items() if isinstance(r, dict) and r.get("exit") == 1],
        "what_was_run": f"tools/seed_verify.sh {wt} {n}; tools/seed_eval.py patch.diff {tier} {' '.join([pid] + extra)} (VERIF_SEED={os.environ.get('VERIF_SEED', '1')})",
    }
    json.dump(meta, open(os.path.join(dst, "meta.json"), "w"), indent=1)
    print("STORED", name, "confirmed=", confirmed, "caught_by=", meta["caught_by"])
    return 0


if __name__ == "__main__":
    sys.exit(main())
