#!/usr/bin/env python3
"""Run registered checks against a seeded change.

usage: tools/seed_eval.py <patch.diff> <tier> <property id> [<property id> ...]

Applies the patch to /repo (git apply), runs `./check <id> <tier>` for each id from a scratch root
(so that /verif/evidence is not touched), prints per-check exit code and the VIOLATION lines, and
ALWAYS restores /repo (git checkout -- . ; removes files the patch added).
"""
import os, shutil, subprocess, sys, json, time

VERIF = os.path.dirname(os.path.dirname(os.path.abspath(__file__)))
ROOT = "/tmp/seedroot"


def sh(cmd, **kw):
    return subprocess.run(cmd, shell=True, text=True, capture_output=True, **kw)


def make_root():
    shutil.rmtree(ROOT, ignore_errors=True)
    os.makedirs(ROOT)
    for name in ["check", "harness", "legs", "target", "target-miri", "target-asan", "target-tsan", "vectors", "tools"]:
        src = os.path.join(VERIF, name)
        if os.path.exists(src):
            os.symlink(src, os.path.join(ROOT, name))
    shutil.copy(os.path.join(VERIF, "known_findings.json"), ROOT)
    os.makedirs(os.path.join(ROOT, "evidence"))


def main():
    patch, tier, ids = sys.argv[1], sys.argv[2], sys.argv[3:]
    st = sh("git -C /repo status --porcelain --untracked-files=no")
    if st.stdout.strip():
        print("refusing: /repo has uncommitted changes:\n" + st.stdout)
        return 2
    ap = sh(f"git -C /repo apply --whitespace=nowarn {patch}")
    if ap.returncode != 0:
        print("patch does not apply:", ap.stderr[-2000:])
        return 2
    results = {}
    try:
        make_root()
        for pid in ids:
            t0 = time.time()
            env = dict(os.environ)
            env["VERIF_SEED"] = env.get("VERIF_SEED", "1")
            p = subprocess.run([os.path.join(ROOT, "check"), pid, tier], cwd=ROOT, text=True, capture_output=True, env=env)
            lines = [l for l in p.stdout.splitlines() if l.startswith(("VIOLATION", "INCONCLUSIVE", "KNOWN-FINDING"))]
            results[pid] = {"exit": p.returncode, "wall_s": round(time.time() - t0, 1), "lines": [l[:400] for l in lines[:6]], "n_violation_lines": sum(1 for l in lines if l.startswith("VIOLATION"))}
            print(f"== {pid} {tier}: exit {p.returncode} in {results[pid]['wall_s']}s; {results[pid]['n_violation_lines']} VIOLATION lines")
            for l in lines[:4]:
                print("   ", l[:300])
            if p.returncode not in (0, 1, 2):
                print(p.stderr[-1500:])
    finally:
        sh("git -C /repo checkout -- .")
        # files added by the patch
        for l in sh("git -C /repo status --porcelain").stdout.splitlines():
            if l.startswith("??"):
                path = os.path.join("/repo", l[3:].strip())
                if os.path.isdir(path):
                    shutil.rmtree(path, ignore_errors=True)
                else:
                    os.remove(path)
    print(json.dumps(results))
    return 0


if __name__ == "__main__":
    sys.exit(main())
