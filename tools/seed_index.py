#!/usr/bin/env python3
"""Regenerates seeded/INDEX.md from seeded/*/meta.json."""
import json, glob, os, re
VERIF = os.path.dirname(os.path.dirname(os.path.abspath(__file__)))
rows = []
for f in sorted(glob.glob(os.path.join(VERIF, "seeded", "*", "meta.json"))):
    m = json.load(open(f))
    notes_path = os.path.join(os.path.dirname(f), "NOTES.md")
    what = ""
    if os.path.exists(notes_path):
        txt = open(notes_path).read()
        # first non-heading paragraph line
        for line in txt.splitlines():
            l = line.strip()
            if l and not l.startswith("#") and len(l) > 30:
                what = re.sub(r"\s+", " ", l)[:220]
                break
    rows.append((m["name"], m["breaks_property"], ", ".join(m.get("files_changed", [])), "yes" if m["verification"].get("confirmed") else "NO", ("not counted (outside the property, see history)" if m.get("rejected") else (", ".join(m.get("caught_by", [])) or "**missed**")), m.get("history", ""), what))
out = ["# Seeded changes", "",
       "Each change was produced by a fresh sub-agent that saw only the property text and a scratch worktree, compiles, keeps the 142 baseline tests green,",
       "and comes with a demonstration test that fails with the change and passes without (re-verified by tools/seed_verify.sh).",
       "`caught by` lists the registered quick checks that exit 1 with a VIOLATION line when the patch is applied to /repo (tools/seed_eval.py);",
       "for waves e and f (`-e1`, `-f1`) the monitor binary of the named commit was run against a private clone of /repo with the patch applied (no sanitizer legs; `what_was_run` in each meta.json).", "",
       "| seed | property | files | confirmed | caught by (quick) | change (from the agent's notes) |", "|---|---|---|---|---|---|"]
for r in rows:
    out.append(f"| {r[0]} | {r[1]} | {r[2]} | {r[3]} | {r[4]} | {r[6]} |")
hist = [r for r in rows if r[5]]
if hist:
    out += ["", "## Strengthening history", ""]
    for r in hist:
        out.append(f"* **{r[0]}**: {r[5]}")
rejected = sum(1 for r in rows if r[4].startswith("not counted"))
caught = sum(1 for r in rows if r[4] != "**missed**" and not r[4].startswith("not counted"))
out += ["", f"{len(rows)} stored changes: {len(rows) - rejected} seeded violations, {caught} of them caught by at least one registered quick check; {rejected} not counted (does not break the property as stated)."]
open(os.path.join(VERIF, "seeded", "INDEX.md"), "w").write("\n".join(out) + "\n")
print(out[-1])
