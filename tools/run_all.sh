#!/bin/bash
# usage: tools/run_all.sh <tier> <seed> [ids...]   — runs the registered checks one after another, summarises
# exit codes and VIOLATION / INCONCLUSIVE / KNOWN-FINDING lines. Evidence goes to /verif/evidence as usual.
tier=${1:-quick}; seed=${2:-1}; shift 2
ids=${@:-C01 C02 C03 C04 C05 C06 C07 C08 C09 C10 C11 C12 C13 C14 C15 C16 C17 C18 C19 C20}
cd "$(dirname "$0")/.."
bad=0
for id in $ids; do
  t0=$(date +%s)
  out=$(VERIF_SEED=$seed ./check $id $tier 2>&1); rc=$?
  t1=$(date +%s)
  echo "== $id tier=$tier seed=$seed exit=$rc wall=$((t1-t0))s"
  echo "$out" | grep -E "^(VIOLATION|INCONCLUSIVE|KNOWN-FINDING)" | cut -c1-260 | head -6
  [ $rc -ne 0 ] && bad=1
done
echo "ALL-DONE bad=$bad"
exit $bad
