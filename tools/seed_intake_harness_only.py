#!/usr/bin/env python3
"""Intake of seeded changes whose evaluation was done harness-only on private clones of /repo (waves e and f).

usage: tools/seed_intake_harness_only.py <wave letter> <first_eval file> <final_eval file> <frozen commit> <final commit>

For every /tmp/seed/Cxx-<wave>/SEED/1: copies patch.diff, demo.rs, NOTES.md to seeded/Cxx-<wave>1/ and writes meta.json
from the cached tools/seed_verify.sh line (SEED/1/verify.txt) and the two evaluation files (lines
"Cxx-w#1 -> Cyy:exit=E,viol=N ..." as printed by the evaluation script: the patch applied to a private clone of /repo,
the harness of the named commit built against that clone, `vharness Cyy --tier quick --seed 1`, no sanitizer legs).
/repo itself is never touched.
"""
import glob, json, os, re, shutil, sys
VERIF = os.path.dirname(os.path.dirname(os.path.abspath(__file__)))
wave, first_f, final_f, c_first, c_final = sys.argv[1:6]

def parse(path):
    out = {}
    for line in open(path):
        m = re.match(r"(C\d\d)-(\w)#1 ->(.*)", line.strip())
        if not m or m.group(2) != wave:
            continue
        out[m.group(1)] = {k: (int(e), int(v)) for k, e, v in re.findall(r"(C\d\d):exit=(\d+),viol=(\d+)", m.group(3))}
    return out

first, final = parse(first_f), parse(final_f)
for wt in sorted(glob.glob(f"/tmp/seed/C??-{wave}")):
    pid = os.path.basename(wt).split("-")[0]
    seed = os.path.join(wt, "SEED", "1")
    if not os.path.exists(os.path.join(seed, "patch.diff")):
        continue
    name = f"{pid}-{wave}1"
    dst = os.path.join(VERIF, "seeded", name)
    os.makedirs(dst, exist_ok=True)
    for f in ["patch.diff", "demo.rs", "NOTES.md"]:
        if os.path.exists(os.path.join(seed, f)):
            shutil.copy(os.path.join(seed, f), os.path.join(dst, f))
    vline = (open(os.path.join(seed, "verify.txt")).read().strip().splitlines() or ["?"])[-1] if os.path.exists(os.path.join(seed, "verify.txt")) else "?"
    ok_base = "baseline-demo: [test result: ok" in vline
    ok_mut = "mutated-demo: [test result: FAILED" in vline or "panicked" in vline
    ok_suite = "passed=142 failed=0" in vline
    files = re.findall(r"^\+\+\+ b/(\S+)", open(os.path.join(seed, "patch.diff")).read(), re.M)
    fe, fi = first.get(pid, {}), final.get(pid, {})
    old = {}
    if os.path.exists(os.path.join(dst, "meta.json")):
        old = json.load(open(os.path.join(dst, "meta.json")))
    meta = {
        "name": name,
        "breaks_property": pid,
        "files_changed": files,
        "needs_to_manifest": "see NOTES.md (written by the seeding agent, which was given only the property text)",
        "verification": {"line": vline, "demo_passes_on_clean_tree": ok_base, "demo_fails_with_patch": ok_mut, "baseline_142_pass_with_patch": ok_suite, "confirmed": ok_base and ok_mut and ok_suite},
        "checks_run": {k: {"tier": "quick (harness only, private clone)", "exit": e, "violation_lines": v} for k, (e, v) in fi.items()},
        "caught_by": sorted(k for k, (e, v) in fi.items() if e == 1),
        "what_was_run": f"tools/seed_verify.sh {wt} 1; patch applied to a private clone of /repo, harness of commit {c_final} built against it, `vharness <id> --tier quick --seed 1` (no sanitizer legs); /repo untouched",
        "first_evaluation": {
            "how": f"harness of commit {c_first} (before anything was adapted to this wave) built against a private clone of /repo with the patch applied; harness only, seed 1, no sanitizer legs",
            "violation_lines": {k: v for k, (e, v) in fe.items()},
            "caught_by": sorted(k for k, (e, v) in fe.items() if e == 1),
        },
    }
    if old.get("history"):
        meta["history"] = old["history"]
    if old.get("registered_check"):
        meta["registered_check"] = old["registered_check"]
    json.dump(meta, open(os.path.join(dst, "meta.json"), "w"), indent=1)
    print("STORED", name, "confirmed=", meta["verification"]["confirmed"], "first=", meta["first_evaluation"]["caught_by"], "final=", meta["caught_by"])
