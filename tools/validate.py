#!/usr/bin/env python3
"""Validate MANIFEST.json and evidence/*.json against the schemas (uses the tooling venv's jsonschema)."""
import json, sys, glob, jsonschema
m = json.load(open('/verif/MANIFEST.json')); s = json.load(open('/root/.vp/MANIFEST.schema.json'))
jsonschema.validate(m, s); print("manifest ok:", len(m['checks']), "checks,", len(m.get('not_applicable', [])), "n/a")
es = json.load(open('/root/.vp/EVIDENCE.schema.json'))
for f in sorted(glob.glob('/verif/evidence/*.json')):
    e = json.load(open(f)); jsonschema.validate(e, es)
    print("evidence ok:", f, e['tier'], e['coverage'].get('evaluations'), e['coverage'].get('distinct_nontrivial'), e['coverage'].get('verdict'))
