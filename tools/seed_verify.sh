#!/bin/bash
# usage: tools/seed_verify.sh <worktree> <n>
# Re-verifies a seeded change in its scratch worktree: demo passes on the clean tree, fails with the
# patch, and the 142 baseline tests still pass with the patch. Leaves the worktree clean.
set -u
WT=$1; N=$2
cd "$WT" || exit 2
export CARGO_TARGET_DIR="$WT/target" CARGO_NET_OFFLINE=true
git checkout -q -- html5ever xml5ever markup5ever tendril rcdom web_atoms 2>/dev/null
DEMO=$(ls */tests/seed_demo_$N.rs 2>/dev/null | head -1)
if [ -z "$DEMO" ]; then cp SEED/$N/demo.rs rcdom/tests/seed_demo_$N.rs; DEMO=rcdom/tests/seed_demo_$N.rs; fi
CRATE=$(dirname $(dirname $DEMO)); PKG=$(grep -m1 '^name' $CRATE/Cargo.toml | sed 's/.*"\(.*\)"/\1/')
FEAT=""; [ "$PKG" = "tendril" ] && FEAT="--features encoding_rs"
base=$(cargo test -q -p $PKG $FEAT --test seed_demo_$N --offline 2>&1 | grep -E "^test result" | head -1)
git apply SEED/$N/patch.diff || { echo "PATCH DOES NOT APPLY"; exit 2; }
mut=$(cargo test -q -p $PKG $FEAT --test seed_demo_$N --offline 2>&1 | grep -E "^test result|error\[|could not compile" | head -2 | tr '\n' ' ')
# baseline suite with the patch, excluding the demo targets
DEMOS=$(ls */tests/seed_demo_*.rs 2>/dev/null)
for f in $DEMOS; do mv "$f" "$f.hidden"; done
suite=$(cargo test --workspace --no-fail-fast --offline 2>&1 | grep -E "^test result" | awk '{p+=$4; f+=$6} END {print "passed="p" failed="f}')
for f in $DEMOS; do mv "$f.hidden" "$f"; done
git checkout -q -- html5ever xml5ever markup5ever tendril rcdom/lib.rs web_atoms 2>/dev/null
echo "seed $WT #$N: files=$(grep -c '^+++ ' SEED/$N/patch.diff) baseline-demo: [$base] mutated-demo: [$mut] suite-with-patch: [$suite]"
