#!/usr/bin/env python3
"""Re-run registered checks against a stored seeded change and update its meta.json.

usage: tools/seed_recheck.py <seed name> "<history note>" <property id> [...]
The note is appended to meta["history"] (what was missed at first and what was strengthened).
"""
import json, os, subprocess, sys
VERIF = os.path.dirname(os.path.dirname(os.path.abspath(__file__)))
name, note, ids = sys.argv[1], sys.argv[2], sys.argv[3:]
d = os.path.join(VERIF, "seeded", name)
meta = json.load(open(os.path.join(d, "meta.json")))
tier = os.environ.get("SEED_TIER", "quick")
ev = subprocess.run([sys.executable, os.path.join(VERIF, "tools", "seed_eval.py"), os.path.join(d, "patch.diff"), tier] + ids, text=True, capture_output=True)
try:
    results = json.loads(ev.stdout.strip().splitlines()[-1])
except Exception:
    print(ev.stdout[-2000:], ev.stderr[-2000:]); sys.exit(2)
first = meta.get("first_evaluation") or {"checks_run": meta.get("checks_run"), "caught_by": meta.get("caught_by")}
meta["first_evaluation"] = first
for k, r in results.items():
    meta.setdefault("checks_run", {})[k] = {"tier": tier, "exit": r.get("exit"), "violation_lines": r.get("n_violation_lines"), "first_lines": r.get("lines", [])[:2]}
caught = set(meta.get("caught_by", []))
for k, r in results.items():
    if r.get("exit") == 1: caught.add(k)
    else: caught.discard(k)
meta["caught_by"] = sorted(caught)
if note:
    meta["history"] = (meta.get("history", "") + " " + note).strip()
meta["what_was_run"] = meta.get("what_was_run", "") + f"; re-run after strengthening: tools/seed_eval.py patch.diff {tier} {' '.join(ids)}"
json.dump(meta, open(os.path.join(d, "meta.json"), "w"), indent=1)
print(name, "caught_by=", meta["caught_by"], {k: r.get("exit") for k, r in results.items()})
