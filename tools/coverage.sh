#!/bin/bash
# usage: tools/coverage.sh [budget-seconds-per-check] [ids...]
# Audits what the monitors' workloads reach in /repo: builds the harness with -Cinstrument-coverage in a
# scratch directory, runs every check's quick workload (the oracles stay on; instrumented code is
# ~50x slower under 16 threads, so verdicts of these runs are not used), merges the profiles and writes
#   coverage/summary.txt   per-file function/line coverage of the /repo sources
#   coverage/uncovered.txt every /repo line with an execution count of 0
# The scratch directory is removed at the end.
set -u
budget=${1:-30}; shift || true
ids=${@:-C01 C02 C03 C04 C05 C06 C07 C08 C09 C10 C11 C12 C13 C14 C15 C16 C17 C18 C19 C20}
VERIF=$(cd "$(dirname "$0")/.." && pwd)
S=$(mktemp -d /tmp/vcov.XXXXXX)
B=$(dirname $(rustup +nightly which rustc))/../lib/rustlib/x86_64-unknown-linux-gnu/bin
cd $VERIF/harness
LLVM_PROFILE_FILE=$S/build-%p.profraw RUSTFLAGS="-Cinstrument-coverage" CARGO_TARGET_DIR=$S/target CARGO_NET_OFFLINE=true cargo +nightly build --release --offline 2>&1 | tail -1
mkdir -p $S/root/evidence $S/prof
cp $VERIF/known_findings.json $S/root/; ln -s $VERIF/vectors $S/root/vectors
cd $VERIF
for id in $ids; do
  LLVM_PROFILE_FILE=$S/prof/$id-%p.profraw VERIF_BUDGET_S=$budget $S/target/release/vharness $id --seed ${VERIF_SEED:-1} --root $S/root 2>&1 | grep -E "verdict|VIOLATION" | cut -c1-140
done
$B/llvm-profdata merge -sparse $S/prof/*.profraw -o $S/all.profdata
mkdir -p $VERIF/coverage
{
  echo "# /repo coverage reached by the quick workloads of: $ids (budget ${budget}s each, seed ${VERIF_SEED:-1}, repo $(git -C /repo rev-parse --short HEAD))"
  $B/llvm-cov report $S/target/release/vharness -instr-profile=$S/all.profdata --ignore-filename-regex='(/verif/|\.cargo|rustc|/registry/|/rustlib/|/tmp/)' 2>/dev/null \
    | awk 'NR>2 && NF>=10 {printf "%-48s functions %5s missed of %5s   lines %5s missed of %5s (%s)\n", $1, $6, $5, $9, $8, $10}'
} > $VERIF/coverage/summary.txt
: > $VERIF/coverage/uncovered.txt
for f in $(cd /repo && git ls-files '*.rs' | grep -E '^(html5ever/src|xml5ever/src|markup5ever|tendril/src|rcdom/lib.rs)' | grep -v -E 'examples|benches|tests|build.rs|macros'); do
  $B/llvm-cov show $S/target/release/vharness -instr-profile=$S/all.profdata /repo/$f 2>/dev/null | grep -E "^\s+[0-9]+\|\s+0\|" | sed "s|^|$f:|" >> $VERIF/coverage/uncovered.txt
done
tail -1 $VERIF/coverage/summary.txt
wc -l $VERIF/coverage/uncovered.txt
find /repo -name "*.profraw" -newer $VERIF/coverage/summary.txt -delete 2>/dev/null; find /repo -maxdepth 2 -name "default_*.profraw" -delete 2>/dev/null
rm -rf $S
