#!/usr/bin/env python3
"""Regenerates /verif/MANIFEST.json from the table below (kept in one place so that the manifest stays valid)."""
import json, os, subprocess

ROOT = os.path.dirname(os.path.dirname(os.path.abspath(__file__)))

def hook_commits():
    try:
        out = subprocess.run(["git", "-C", "/repo", "log", "--format=%h %s"], capture_output=True, text=True).stdout
        return [l.split()[0] for l in out.splitlines() if l.split(" ", 1)[1].startswith("verif hooks")]
    except Exception:
        return []

CHECKS = {
 "C01": dict(
    text="Differential runtime monitor: the real tokenizer's delivered tokens (coalesced characters, NUL distinct, errors dropped) are compared with an independent WHATWG reference tokenizer under the same start state, last start tag and sink policy; every (state x character class x suffix) single transition from all seven content-model start states, class pairs, and millions of random markup-soup cases under tree-builder-like, constant and hashed sink policies (incl. both answers of the foreign query).",
    note="trusts the hand-written reference tokenizer (validated against committed vectors; no spec copy or second parser exists offline) and the entity table exported from Python's html.entities",
    technique="runtime monitoring: recorded token history checked against an executable reference model (differential)"),
 "C02": dict(
    text="Differential runtime monitor: the tree and quirks mode the real tree builder delivers to an abstract-DOM sink are compared with an independent WHATWG tree-construction reference model (driven by the reference tokenizer) on millions of grammar/scenario/soup documents, ~60 fragment contexts x scripting x iframe-srcdoc x initial quirks; disagreements are minimised and classified against named deviation switches; the model must pass 284 committed known-answer vectors.",
    note="trusts the hand-written reference tree builder (validated by vectors; disagreements adjudicated against the spec); selectedcontent and <input> in a select fragment context are excluded as undecided; declarative shadow roots held off",
    technique="runtime monitoring: sink-call history materialised and checked against an executable reference model (differential)"),
 "C03": dict(
    text="Metamorphic runtime monitor: every chunked/paused execution of the real tokenizer and parser is compared with the one-piece execution of the same input (coalesced tokens incl. parse errors, lines, suspension sequence, tree, quirks). All 2-chunk and all-1-char schedules of every enumerated single-transition input plus random schedules of generated documents; script-pause injections compared with the spliced source.",
    note="oracle = the real code on the unchunked input; defects that affect chunked and unchunked runs alike are invisible here (C01/C02 cover those)",
    technique="runtime monitoring: metamorphic comparison of recorded token/tree histories across feed schedules"),
 "C04": dict(
    text="Crash/step monitor over millions of generated runs (tokenizer-only with arbitrary sink policies, HTML documents and fragments, XML; random feed schedules, all option combinations, two contract-abiding sinks) under a panic hook and a logical step budget installed through the tick hook; pathological deep/long inputs run in child processes so stack overflow/abort is observed as the child's death; queue-empty, exactly-one-EOF-last and end()-once assertions on every run.",
    note="'never hangs' is decided as bounded progress in logical steps; wall-clock watchdog firing is inconclusive; unwrap/expect sites are only shown unreachable on inputs driven",
    technique="runtime monitoring: panic/abort/step-budget monitors + EOF/queue assertions, child-process crash detection"),
 "C05": dict(
    text="Contract monitor at the sink boundary: every TreeSink call of the HTML and XML tree builders is validated against the documented contract on a shadow abstract DOM, over documents, ~60 fragment contexts, both scripting settings and XML inputs; evidence lists calls per method and evaluations per rule.",
    note="the contract is the documented one in markup5ever/interface/tree_builder.rs; nothing stricter is asserted",
    technique="runtime monitoring: invariant assertions at a hook (monitoring TreeSink wrapper over a shadow DOM)"),
 "C06": dict(
    text="Invariant at quiescence: after every generated document parse (grammar, scenarios, skeleton-focused soup; exhaustive 2-chunk schedules of short inputs, random schedules; both scripting settings) the finished tree of the abstract DOM and of RcDom is walked by a skeleton checker.",
    note="'frameset optionally followed by noframes' read as 'only noframes may follow'; one spec-mandated exception is a listed known finding",
    technique="runtime monitoring: structural invariant checked on the finished tree"),
 "C07": dict(
    text="Round-trip + metamorphic + exhaustive matrix: hand-built RcDom trees over a safe vocabulary with hostile strings are serialized and re-parsed as a fragment (tree equality); for every element of generated, parsed and hand-built trees outer == start + inner + end under both scripting settings; exhaustive parent x namespace x text matrix against an independent 5-rule escaper.",
    note="pre/listing/textarea excluded from the round-trip vocabulary (the HTML syntax drops a leading LF there); void elements only checked childless",
    technique="runtime monitoring: round-trip tree equality, inner/outer metamorphic relation, exhaustive escaping matrix"),
 "C08": dict(
    text="Metamorphic option-flip monitor: two executions of the real code on the same input and schedule differing in exactly one of exact_errors / profile / discard_bom / drop_doctype (HTML tokenizer, tree builder, XML) are compared (tokens minus parse errors with lines, tree, quirks); includes SIMD-offset text runs (exact_errors forces the scalar path) and all enumerated tokenizer transitions.",
    note="oracle = the real code under the other option value",
    technique="runtime monitoring: metamorphic comparison of two recorded executions differing in one option"),
 "C09": dict(
    text="Line monitor: each non-character token and the end of each character run must carry 1 + the line breaks consumed by the reference tokenizer at that emission; EOF = 1 + breaks of the whole input (counted independently). LF/CR/CRLF substituted at every position of every tokenizer-state prefix x continuation, under all 2-chunk and 1-char schedules; token-by-token check that the tree builder forwards the line to the sink.",
    note="trusts the reference tokenizer's consumed-offset bookkeeping; token streams that differ from the model are left to C01",
    technique="runtime monitoring: (token, line) history checked against a position-tracking reference model"),
 "C10": dict(
    text="Differential: exhaustive over all byte strings of length <= 4 (5 in thorough) on 25 UTF-8 byte-class representatives under every chunking against String::from_utf8_lossy with an independent replacement count; random strings; all 40 encoding_rs encodings, chunked LossyDecoder vs one-shot decode incl. BOMs, ISO-2022-JP escapes, UTF-16 surrogate halves, truncation at EOF and outputs > 8 KiB; from_utf8() HTML and XML parsers vs parsing the lossy string. Miri leg (ASan in thorough).",
    note="String::from_utf8_lossy and encoding_rs's one-shot decode are the trusted references",
    technique="runtime monitoring: differential against reference decoders, exhaustive on the byte-class quotient; Miri/ASan sanitizer legs"),
 "C11": dict(
    text="History + executable model: random operation histories over pools of tendrils in 5 formats x 2 atomicities; after every operation every live tendril is compared with its own Vec<u8> model and every Ok/Err/panic outcome with independently written validity predicates; character, slice, conversion and SendTendril operations included. The same histories run under Miri (and ASan / debug assertions in thorough).",
    note="validity oracles: str::from_utf8, a hand-written generalized UTF-8 decoder for WTF-8, < 0x80 for ASCII",
    technique="runtime monitoring: operation history checked against an executable model; Miri/ASan sanitizer legs"),
 "C12": dict(
    text="Sanitizers + conservation: a checking global allocator audits every allocation made inside tendril calls (layout match, double/foreign free, red zones, poison after free) and after every operation checks live buffers == owned + distinct shared buffers of the pool, 0 after teardown; thread scenarios distribute clones/sub-slices/SendTendrils of atomic tendrils over 2-8 threads with random drop orders. Miri (UB, leaks, data races, many seeds) in quick; ASan/LSan and ThreadSanitizer (reports classified, fence blind spot counted not judged) in thorough.",
    note="a clean sanitizer/allocator-monitor run is evidence, not proof; Miri runs with permissive provenance; TSan cannot model atomic::fence so Miri is the race oracle for the last-drop protocol",
    technique="runtime monitoring: checking allocator (conservation, red zones, poison), Miri, AddressSanitizer, ThreadSanitizer"),
 "C13": dict(
    text="History + model: random interleavings of push_back/push_front/next/peek/pop_except_from/eat/pop_front over random partitions, sets and patterns compared call by call with a VecDeque<String> model, drained remainder equal at the end; also under debug assertions and Miri.",
    note="the empty pattern is not exercised",
    technique="runtime monitoring: operation history checked against an executable model; Miri leg and debug-assertion build"),
 "C14": dict(
    text="Exhaustive differential over the finite space: 2231 names x {exact, no semicolon, truncated, extended, name-prefixes} x 15 follower classes x 5 contexts, every numeric value 0..=0x110000 in decimal/x/X with several terminators, overflow lengths and non-references; judged by a direct resolver over an independent entity table and by the reference tokenizer; web_atoms' generated table compared entry by entry incl. prefix entries; XML tokenizer for '&name;' and numeric forms.",
    note="entity table from Python's html.entities.html5; C1 table hard-coded from windows-1252; XML5 no-semicolon rules not claimed",
    technique="runtime monitoring: exhaustive enumeration of the finite reference space with two independent oracles"),
 "C15": dict(
    text="Metamorphic monitor for xml5ever: one-piece default run vs every 2-chunk split, 1-char chunks, random partitions, exact_errors, and vs the run on the CR/NUL-pre-normalised source (tokens minus errors and tree); targeted matrix placing CR/CRLF/NUL/U+FEFF in every tokenizer context incl. next to and inside character references, plus random XML.",
    note="oracle = the real code on a related execution; no XML5 specification needed",
    technique="runtime monitoring: metamorphic comparison across feed schedules, options and source normalisation"),
 "C16": dict(
    text="History + model: every element and attribute the XML tree builder hands to the sink is compared with an independent lexical-scope resolver (declarations on the element's own tag, as the generator wrote them, over the scope of its parent in the built tree); attribute-loss rule checked exactly as stated; attribute-permuted renderings must resolve identically. Namespace-shape generator (declare/undeclare/shadow/unbound/xml/xmlns prefixes, <script/>, empty/short/omitted end tags, colliding attribute names) plus XML soup.",
    note="nesting is read from the built tree (a wrong nesting is outside C16); same prefix declared twice on one tag is excluded as not well-formed",
    technique="runtime monitoring: sink-call history checked against an independent scope-resolution model"),
 "C17": dict(
    text="Round-trip monitor: parse -> xml5ever::serialize -> parse, trees compared node by node (local names, prefixes, namespace URIs, attribute values, text, comments, PIs; doctype excluded) over namespace shapes with hostile text/attribute strings and XML soup whose names are XML names.",
    note="trees come from parsing; names that are not XML names are out of scope; one parser quirk (PI data with leading white space) is a listed known finding",
    technique="runtime monitoring: round-trip (serialize then re-parse) tree equality"),
 "C19": dict(
    text="History + model: the EncodingIndicator results of feed() are compared with expectations derived from the html meta elements the sink was asked to create (charset value, or an independent 'extract a character encoding from a meta element' for http-equiv=content-type), exactly one per declaring meta, raised while that meta is the newest element and already attached; enumerated content strings, 15 meta variants x 26 placements x all 2-chunk splits x scripting x fragments, random documents.",
    note="an empty extraction result is accepted either way; expectations key on meta elements actually created",
    technique="runtime monitoring: suspension history checked against an independent model"),
 "C20": dict(
    text="Tee sink: every TreeSink call goes to RcDom and to the abstract DOM; structural equality after parses (HTML incl. customizable select, XML) and during direct random sequences of valid operations; parent-link audit; recording Serializer must see each node once in document order. Miri leg.",
    note="the abstract DOM encodes the documented sink semantics; duplicate-attribute flag not stored by RcDom and not compared",
    technique="runtime monitoring: sink-call history replayed onto an abstract model and compared; structural audits; Miri leg"),
 "C18": dict(
    text="GC-simulating sink: at every feed() return (1-character chunks, random schedules, script pauses) trace_handles is called and every node unreachable from the traced handles is poisoned; any later sink call receiving a poisoned handle is a violation, and the final tree must equal the run without collection. HTML documents, fragments and XML.",
    note="reachability over parent/children/template-contents edges as the property states; only meaningful when collections actually poison nodes (counted in evidence)",
    technique="runtime monitoring: use-after-collect detection at suspension points via a poisoning sink"),
}

def main():
    checks = []
    for pid in sorted(CHECKS):
        c = CHECKS[pid]
        checks.append({
            "property_id": pid,
            "quick_cmd": f"./check {pid} quick",
            "thorough_cmd": f"./check {pid} thorough",
            "evidence_file": f"evidence/{pid}.json",
            "replay_cmd_template": f"./check {pid} quick --replay {{path}}",
            "engine": "vharness",
            "level_claimed": {"category": "exploration", "text": c["text"], "design_ref": f"DESIGN.md section 8 / {pid}"},
            "level_note": c["note"],
            "technique": c["technique"],
        })
    all_ids = [f"C{n:02d}" for n in range(1, 21)]
    na = [{"property_id": p, "reason": "check not built yet in this session (work in progress; see DESIGN.md)"} for p in all_ids if p not in CHECKS]
    m = {
        "version": 1,
        "setup_cmd": "cd /verif && CARGO_NET_OFFLINE=true CARGO_TARGET_DIR=/verif/target cargo build --offline --release --manifest-path harness/Cargo.toml && (cd harness && MIRIFLAGS='-Zmiri-disable-isolation -Zmiri-permissive-provenance' CARGO_NET_OFFLINE=true CARGO_TARGET_DIR=/verif/target-miri cargo +nightly miri run --offline -- NOP)",
        "hooks": {
            "guard": "cargo feature `verif` (declared in markup5ever, html5ever, xml5ever and tendril; off by default)",
            "enable": "the harness crate depends on html5ever/xml5ever/markup5ever/tendril by path with features=[\"verif\"]",
            "baseline_off_cmd": "cd /repo && cargo test --workspace --no-fail-fast --offline",
            "source_commits": hook_commits(),
            "add_only": True,
        },
        "engines": [{"name": "vharness", "path": "harness", "serves_properties": sorted(CHECKS), "kind_free_text": "Rust monitor binary: runs the real crates (path deps on /repo, hooks on) under generated workloads with oracles; ./check drives it and the sanitizer legs"}, {"name": "sanitizer-legs", "path": "legs/legs.py", "serves_properties": ["C04", "C10", "C11", "C12", "C13", "C20"], "kind_free_text": "runs the same harness workloads under cargo miri, -Zsanitizer=address, -Zsanitizer=thread (-Zbuild-std) and the debug-assertion profile; classifies reports; merges into evidence"}],
        "checks": checks,
        "not_applicable": na,
        "notes": "exit 0 = held on everything observed (KNOWN-FINDING lines possible), 1 = VIOLATION, 2 = INCONCLUSIVE (never a VIOLATION line). VERIF_SEED seeds all random choices; enumerated parts do not depend on it.",
    }
    json.dump(m, open(os.path.join(ROOT, "MANIFEST.json"), "w"), indent=1)
    print("wrote MANIFEST.json with", len(checks), "checks;", len(na), "not yet claimed")

if __name__ == "__main__":
    main()
