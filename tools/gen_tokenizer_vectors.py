#!/usr/bin/env python3
"""Write /verif/vectors/tokenizer_vectors.json: known-answer cases for the WHATWG HTML tokenizer.

Every expectation below was derived by hand from the HTML Standard (section 13.2.5), not by
running any implementation. Format: html5lib tokenizer tests plus the extensions documented at
`check_vectors_value` in harness/src/model/reftok.rs (ordered attribute lists, explicit
self-closing / duplicate flags on both tag kinds, "foreign", "policy", "discardBom", "lines").
Facts about the named character reference table are asserted against Python's html.entities.
"""
import html.entities
import json
import os
import sys

ENT = html.entities.html5
TESTS = []
RC, RAW, SCR, PLAIN = "RCDATA state", "RAWTEXT state", "Script data state", "PLAINTEXT state"
DATA, ESC, DESC = "Data state", "Script data escaped state", "Script data double escaped state"
FFFD = "\ufffd"


def C(s):
    return ["Character", s]


def Cm(s):
    return ["Comment", s]


def D(name, pub, sys_, ok):
    return ["DOCTYPE", name, pub, sys_, ok]


def S(name, attrs=(), sc=False, dup=False):
    return ["StartTag", name, [list(a) for a in attrs], sc, dup]


def E(name, attrs=(), sc=False, dup=False):
    return ["EndTag", name, [list(a) for a in attrs], sc, dup]


def case(desc, inp, out, states=None, last=None, **kw):
    t = {"description": desc, "input": inp, "output": out}
    if states:
        t["initialStates"] = states
    if last is not None:
        t["lastStartTag"] = last
    t.update(kw)
    TESTS.append(t)


def ent(name, value):
    assert ENT[name] == value, (name, ENT.get(name))


def noent(name):
    assert name not in ENT, name


# ------------------------------------------------------------------------------------------
# tags and attributes
case("simple start tag", "<a>", [S("a")])
case("upper-case tag name", "<aBc>", [S("abc")])
case("attribute without value", "<a b>", [S("a", [("b", "")])])
case("unquoted value", "<a b=c>", [S("a", [("b", "c")])])
case("double-quoted value", '<a b="c">', [S("a", [("b", "c")])])
case("single-quoted value", "<a b='c'>", [S("a", [("b", "c")])])
case("whitespace around =", "<a b = c>", [S("a", [("b", "c")])])
case("two valueless attributes", "<a b c>", [S("a", [("b", ""), ("c", "")])])
case("two unquoted attributes", "<a b=c d=e>", [S("a", [("b", "c"), ("d", "e")])])
case("no whitespace between quoted attributes", '<a b="c"d="e">', [S("a", [("b", "c"), ("d", "e")])])
case("attribute name lower-cased, value kept", "<a B=C>", [S("a", [("b", "C")])])
case("duplicate attribute", "<a b=1 b=2>", [S("a", [("b", "1")], False, True)])
case("duplicate attribute by case", "<a b=1 B=2 c=3>", [S("a", [("b", "1"), ("c", "3")], False, True)])
case("duplicate valueless attribute", "<a b b>", [S("a", [("b", "")], False, True)])
case("duplicate after quoted", '<a b="x" b>', [S("a", [("b", "x")], False, True)])
case("duplicate with character reference in dropped value", '<a b=1 b="&amp;" c=2>', [S("a", [("b", "1"), ("c", "2")], False, True)])
case("several duplicates keep source order", "<a a=1 b=2 a=3 b=4 c=5>", [S("a", [("a", "1"), ("b", "2"), ("c", "5")], False, True)])
case("duplicate attribute on end tag", "</a b=1 b=2>", [E("a", [("b", "1")], False, True)])
case("self-closing", "<a/>", [S("a", [], True)])
case("self-closing after space", "<a />", [S("a", [], True)])
case("solidus then space is not self-closing", "<a/ >", [S("a")])
case("solidus then attribute", "<a/b>", [S("a", [("b", "")])])
case("attribute then self-closing", "<a b/>", [S("a", [("b", "")], True)])
case("solidus belongs to unquoted value", "<a b=c/>", [S("a", [("b", "c/")])])
case("self-closing after quoted value", '<a b="c"/>', [S("a", [("b", "c")], True)])
case("solidus as whole unquoted value", "<a b=/>", [S("a", [("b", "/")])])
case("equals sign before attribute name", "<a =>", [S("a", [("=", "")])])
case("equals sign starts attribute name", "<a =b=c>", [S("a", [("=b", "c")])])
case("missing attribute value", "<a b=>", [S("a", [("b", "")])])
case("quotes and < in attribute name", "<a \"b'<>", [S("a", [("\"b'<", "")])])
case("odd characters in unquoted value", "<a b=c\"d'e<f=g`h>", [S("a", [("b", "c\"d'e<f=g`h")])])
case("single quote inside double-quoted", "<a b=\"c'd\">", [S("a", [("b", "c'd")])])
case("double quote inside single-quoted", "<a b='c\"d'>", [S("a", [("b", "c\"d")])])
case("> inside quoted value", '<a b="c>d">', [S("a", [("b", "c>d")])])
case("text after tag", "<a b=c>d", [S("a", [("b", "c")]), C("d")])
case("all whitespace kinds between attributes", "<a\tb\nc\x0cd e>", [S("a", [("b", ""), ("c", ""), ("d", ""), ("e", "")])])
case("tab ends unquoted value", "<a b=c\td=e>", [S("a", [("b", "c"), ("d", "e")])])
case("newlines around =", '<a b\n=\n"c">', [S("a", [("b", "c")])])
case("solidus between attributes", "<a b=c / d>", [S("a", [("b", "c"), ("d", "")])])
case("solidus then equals", "<a/=>", [S("a", [("=", "")])])
case("NUL in tag name", "<a\0b>", [S("a" + FFFD + "b")])
case("NUL in attribute name and unquoted value", "<a b\0c=d\0e>", [S("a", [("b" + FFFD + "c", "d" + FFFD + "e")])])
case("NUL in quoted values", "<a b=\"\0\" c='\0'>", [S("a", [("b", FFFD), ("c", FFFD)])])
case("non-ASCII in names and values", "<a\u00e9 \u00c9=\u00c9>", [S("a\u00e9", [("\u00c9", "\u00c9")])])
# EOF in tags
case("EOF after <", "<", [C("<")])
case("EOF after </", "</", [C("</")])
for inp in ["<a", "<a ", "<a b", "<a b ", "<a b=", '<a b="c', "<a b='c", "<a b=c", '<a b="c"', "<a/", "</a", "</a ", '<a b="c" ']:
    case("EOF in tag: %r" % inp, inp, [])
case("text then EOF in tag", "a<b", [C("a")])
case("digit after <", "<1>", [C("<1>")])
case("space after <", "< a>", [C("< a>")])
case("empty tag", "<>", [C("<>")])
case("double <", "<<a>", [C("<"), S("a")])
case("missing end tag name", "</>", [])
case("space after </", "</ a>", [Cm(" a")])
case("digit after </", "</1>", [Cm("1")])
case("processing instruction", "<?xml?>", [Cm("?xml?")])
case("EOF after <?", "<?", [Cm("?")])
case("end tag with attributes", "</a b=c>", [E("a", [("b", "c")])])
case("self-closing end tag", "</a/>", [E("a", [], True)])
case("upper-case end tag with space", "</A >", [E("a")])

# ------------------------------------------------------------------------------------------
# comments
case("comment", "<!--a-->", [Cm("a")])
case("empty comment", "<!---->", [Cm("")])
case("abruptly closed empty comment <!-->", "<!-->", [Cm("")])
case("abruptly closed empty comment <!--->", "<!--->", [Cm("")])
for inp, data in [("<!--", ""), ("<!---", ""), ("<!----", ""), ("<!----!", ""), ("<!--a", "a"), ("<!--a-", "a"), ("<!--a--", "a"), ("<!--a--!", "a")]:
    case("EOF in comment: %r" % inp, inp, [Cm(data)])
case("comment closed by --!>", "<!--a--!>b", [Cm("a"), C("b")])
case("--! followed by text", "<!--a--!b-->", [Cm("a--!b")])
case("--! followed by -->", "<!--a--!-->", [Cm("a--!")])
case("--! followed by space", "<!--a--! >", [Cm("a--! >")])
case("single dash inside", "<!--a-b-->", [Cm("a-b")])
case("double dash inside", "<!--a--b-->", [Cm("a--b")])
case("three dashes at end", "<!--a--->", [Cm("a-")])
case("only dashes", "<!----->", [Cm("-")])
case("dash right after start", "<!---a-->", [Cm("-a")])
case("spaces and dashes", "<!-- -- -->", [Cm(" -- ")])
case("< in comment", "<!--<-->", [Cm("<")])
case("<! in comment then close", "<!--<!-->", [Cm("<!")])
case("nested comment opener then --->", "<!--<!--->", [Cm("<!-")])
case("nested comment opener then text", "<!--<!--x-->", [Cm("<!--x")])
case("<!- then text", "<!--<!-x-->", [Cm("<!-x")])
case("<! then text", "<!--<!x-->", [Cm("<!x")])
case("<<! in comment", "<!--<<!-->", [Cm("<<!")])
case("a<b in comment", "<!--a<b-->", [Cm("a<b")])
case("NUL in comment", "<!--a\0b-->", [Cm("a" + FFFD + "b")])
case("bogus comment <!a>", "<!a>", [Cm("a")])
case("bogus comment <!>", "<!>", [Cm("")])
case("bogus comment <!->", "<!->", [Cm("-")])
case("bogus comment EOF <!-", "<!-", [Cm("-")])
case("bogus comment EOF <!", "<!", [Cm("")])
case("NUL in bogus comment", "<!a\0b>", [Cm("a" + FFFD + "b")])
case("incomplete doctype keyword is a bogus comment", "<!doctyp>", [Cm("doctyp")])

# ------------------------------------------------------------------------------------------
# DOCTYPE
case("doctype", "<!DOCTYPE html>", [D("html", None, None, True)])
case("doctype lower keyword, upper name", "<!doctype HTML>", [D("html", None, None, True)])
case("doctype mixed keyword", "<!DoCtYpE html>", [D("html", None, None, True)])
case("doctype without space", "<!DOCTYPEhtml>", [D("html", None, None, True)])
for inp in ["<!DOCTYPE>", "<!DOCTYPE >", "<!DOCTYPE", "<!DOCTYPE "]:
    case("doctype without name: %r" % inp, inp, [D(None, None, None, False)])
case("EOF in doctype name", "<!DOCTYPE h", [D("h", None, None, False)])
case("EOF after doctype name", "<!DOCTYPE h ", [D("h", None, None, False)])
case("space after doctype name", "<!DOCTYPE html >", [D("html", None, None, True)])
case("public and system", '<!DOCTYPE html PUBLIC "p" "s">', [D("html", "p", "s", True)])
case("public and system single-quoted", "<!DOCTYPE html PUBLIC 'p' 's'>", [D("html", "p", "s", True)])
case("public and system without spaces", "<!DOCTYPE html PUBLIC\"p\"'s'>", [D("html", "p", "s", True)])
case("public only", '<!DOCTYPE html PUBLIC "p">', [D("html", "p", None, True)])
case("lower-case public keyword, trailing space", '<!DOCTYPE html public "p" >', [D("html", "p", None, True)])
case("system only", '<!DOCTYPE html SYSTEM "s">', [D("html", None, "s", True)])
case("system without space, trailing space", "<!DOCTYPE html SyStEm's' >", [D("html", None, "s", True)])
case("empty identifiers", '<!DOCTYPE a PUBLIC "" "">', [D("a", "", "", True)])
for inp in ["<!DOCTYPE html PUBLIC>", "<!DOCTYPE html PUBLIC >", "<!DOCTYPE html SYSTEM>", "<!DOCTYPE html SYSTEM >"]:
    case("missing identifier: %r" % inp, inp, [D("html", None, None, False)])
case("abrupt public identifier", '<!DOCTYPE html PUBLIC "p>x', [D("html", "p", None, False), C("x")])
case("abrupt system identifier", '<!DOCTYPE html SYSTEM "s>x', [D("html", None, "s", False), C("x")])
case("EOF in public identifier", '<!DOCTYPE html PUBLIC "p', [D("html", "p", None, False)])
case("EOF after public identifier", '<!DOCTYPE html PUBLIC "p"', [D("html", "p", None, False)])
case("EOF between identifiers", '<!DOCTYPE html PUBLIC "p" ', [D("html", "p", None, False)])
case("EOF in system identifier", "<!DOCTYPE html PUBLIC \"p\" 's", [D("html", "p", "s", False)])
case("EOF after system identifier", '<!DOCTYPE html PUBLIC "p" "s"', [D("html", "p", "s", False)])
case("EOF after public keyword", "<!DOCTYPE html PUBLIC", [D("html", None, None, False)])
case("EOF after system keyword", "<!DOCTYPE html SYSTEM ", [D("html", None, None, False)])
case("unquoted public identifier", "<!DOCTYPE html PUBLIC x>", [D("html", None, None, False)])
case("junk right after public keyword", "<!DOCTYPE html PUBLICx>", [D("html", None, None, False)])
case("unquoted system identifier", "<!DOCTYPE html SYSTEM x>", [D("html", None, None, False)])
case("junk between identifiers", '<!DOCTYPE html PUBLIC "p" x>', [D("html", "p", None, False)])
case("junk right after public identifier", '<!DOCTYPE html PUBLIC "p"x>', [D("html", "p", None, False)])
case("SYSTEM keyword after public identifier is junk", "<!DOCTYPE a PUBLIC 'p' SYSTEM 's'>", [D("a", "p", None, False)])
case("junk after system identifier keeps no-quirks", '<!DOCTYPE html PUBLIC "p" "s" x>', [D("html", "p", "s", True)])
case("junk after system-only identifier keeps no-quirks", '<!DOCTYPE html SYSTEM "s" x>', [D("html", None, "s", True)])
case("junk after name", "<!DOCTYPE html x>", [D("html", None, None, False)])
case("truncated keyword", "<!DOCTYPE html PUBLI>", [D("html", None, None, False)])
case("truncated keyword at EOF", "<!DOCTYPE html SYSTE", [D("html", None, None, False)])
case("bogus doctype ends at first >", "<!DOCTYPE html bogus>x>", [D("html", None, None, False), C("x>")])
case("NUL as doctype name", "<!DOCTYPE \0>", [D(FFFD, None, None, True)])
case("NUL inside doctype name", "<!DOCTYPE a\0B>", [D("a" + FFFD + "b", None, None, True)])
case("NUL in identifiers", "<!DOCTYPE a PUBLIC \"\0\" '\0'>", [D("a", FFFD, FFFD, True)])
case("NUL in bogus doctype", "<!DOCTYPE a bogus\0>", [D("a", None, None, False)])
case("newlines in doctype", '<!DOCTYPE\nhtml\nPUBLIC\n"p"\n"s"\n>', [D("html", "p", "s", True)])
case("doctype then text", "<!DOCTYPE a>b", [D("a", None, None, True), C("b")])
case("identifiers keep case and >' chars", "<!DOCTYPE a PUBLIC '-//W3C//DTD \"X\"' \"a'>b\">", [D("a", '-//W3C//DTD "X"', "a'", False), C('b">')])

# ------------------------------------------------------------------------------------------
# RCDATA / RAWTEXT / script data / PLAINTEXT
case("RCDATA appropriate end tag", "a</title>b", [C("a"), E("title"), C("b")], [RC], "title")
case("RCDATA upper-case end tag", "</TITLE>", [E("title")], [RC], "title")
case("RCDATA end tag with space", "</title >", [E("title")], [RC], "title")
case("RCDATA self-closing end tag", "</title/>", [E("title", [], True)], [RC], "title")
case("RCDATA end tag with attribute", "</title x=y>", [E("title", [("x", "y")])], [RC], "title")
case("RCDATA inappropriate end tag", "</b>", [C("</b>")], [RC], "title")
case("RCDATA no last start tag", "</title>", [C("</title>")], [RC])
case("RCDATA inappropriate end tag keeps case", "</tItLe>x", [C("</tItLe>x")], [RC], "other")
case("RCDATA prefix of name", "</titl>", [C("</titl>")], [RC], "title")
case("RCDATA longer name", "</titlex>", [C("</titlex>")], [RC], "title")
case("RCDATA EOF in end tag name", "</title", [C("</title")], [RC], "title")
case("RCDATA EOF after </", "</", [C("</")], [RC], "title")
case("RCDATA EOF after <", "<", [C("<")], [RC], "title")
case("RCDATA digit after </", "</1>", [C("</1>")], [RC], "title")
case("RCDATA start tag is text", "<a>", [C("<a>")], [RC], "title")
case("RCDATA NUL after end tag name", "</title\0>", [C("</title" + FFFD + ">")], [RC], "title")
case("RCDATA character references", "&amp;&lt;x&#x41;&notit;", [C("&<xA\u00acit;")], [RC], "title")
case("RCDATA NUL", "a\0b", [C("a" + FFFD + "b")], [RC], "title")
case("RCDATA end tag inside text with <", "<</title>", [C("<"), E("title")], [RC], "title")
case("RAWTEXT", "a&amp;<b></style>c", [C("a&amp;<b>"), E("style"), C("c")], [RAW], "style")
case("RAWTEXT prefix of name", "</styl>", [C("</styl>")], [RAW], "style")
case("RAWTEXT NUL", "\0", [C(FFFD)], [RAW], "style")
case("RAWTEXT EOF in end tag name", "</style", [C("</style")], [RAW], "style")
case("RAWTEXT comment opener is text", "<!--</style>", [C("<!--"), E("style")], [RAW], "style")
case("RAWTEXT end tag with whitespace and attribute", "</STYLE\nx>", [E("style", [("x", "")])], [RAW], "style")
case("script data", "a</script>b", [C("a"), E("script"), C("b")], [SCR], "script")
case("script data comment-like text", "<!--a--></script>", [C("<!--a-->"), E("script")], [SCR], "script")
case("script data escaped end tag", "<!--</script>", [C("<!--"), E("script")], [SCR], "script")
case("script data double escaped", "<!--<script></script></script>", [C("<!--<script></script>"), E("script")], [SCR], "script")
case("script data double escaped closed by -->", "<!--<script>--></script>", [C("<!--<script>-->"), E("script")], [SCR], "script")
case("script data not double escaped by other name", "<!--<scrip></script>", [C("<!--<scrip>"), E("script")], [SCR], "script")
case("script data double escape is case-insensitive", "<!--<SCRIPT></script>x", [C("<!--<SCRIPT></script>x")], [SCR], "script")
case("script data double escape start ended by / and space", "<!--<script/x</script ></script>", [C("<!--<script/x</script >"), E("script")], [SCR], "script")
case("script data <!-a", "<!-a", [C("<!-a")], [SCR], "script")
case("script data <!a", "<!a", [C("<!a")], [SCR], "script")
case("script data EOF after <!", "<!", [C("<!")], [SCR], "script")
case("script data EOF after <!-", "<!-", [C("<!-")], [SCR], "script")
case("script data NULs", "\0<!--\0-\0--\0", [C(FFFD + "<!--" + FFFD + "-" + FFFD + "--" + FFFD)], [SCR], "script")
case("script data <!--->", "<!---></script>", [C("<!--->"), E("script")], [SCR], "script")
case("script data escaped other tag", "<!--<a></script>", [C("<!--<a>"), E("script")], [SCR], "script")
case("script data EOF in end tag name", "</script", [C("</script")], [SCR], "script")
case("script data mixed-case end tag with space", "</scripT >", [E("script")], [SCR], "script")
case("script data escaped prefix of name", "<!--</scrip>", [C("<!--</scrip>")], [SCR], "script")
case("script data escaped < then digit", "<!--<1</script>", [C("<!--<1"), E("script")], [SCR], "script")
case("script data escaped </ then digit", "<!--</1", [C("<!--</1")], [SCR], "script")
case("script data escaped dashes then text", "<!-- - -- x</script>", [C("<!-- - -- x"), E("script")], [SCR], "script")
case("script data escaped: ---> leaves", "<!--a--->b<!x", [C("<!--a--->b<!x")], [SCR], "script")
case("start in script data escaped", "a-->b</script>", [C("a-->b"), E("script")], [ESC], "script")
case("start in script data escaped: end tag", "a</script>", [C("a"), E("script")], [ESC], "script")
case("start in script data double escaped", "</script>x</script>", [C("</script>x"), E("script")], [DESC], "script")
case("start in script data double escaped: --> leaves to script data", "--></script>", [C("-->"), E("script")], [DESC], "script")
case("script data double escaped NULs and <", "\0-\0--\0<x-<--<", [C(FFFD + "-" + FFFD + "--" + FFFD + "<x-<--<")], [DESC], "script")
case("script data double escaped: other end tag name stays", "</b></script></script>", [C("</b></script>"), E("script")], [DESC], "script")
case("PLAINTEXT", "a<b>&amp;\0</plaintext>", [C("a<b>&amp;" + FFFD + "</plaintext>")], [PLAIN], "plaintext")
case("tree-builder-like sink: title", "<title>a&amp;<b></title><b>", [S("title"), C("a&<b>"), E("title"), S("b")], policy="treebuilder")
case("tree-builder-like sink: script", "<script>a<b></script>c", [S("script"), C("a<b>"), E("script"), C("c")], policy="treebuilder")
case("tree-builder-like sink: style", "<style>&amp;</style>", [S("style"), C("&amp;"), E("style")], policy="treebuilder")
case("tree-builder-like sink: plaintext", "<plaintext></plaintext>", [S("plaintext"), C("</plaintext>")], policy="treebuilder")
case("tree-builder-like sink: textarea", "<textarea></title></textarea>", [S("textarea"), C("</title>"), E("textarea")], policy="treebuilder")
case("tree-builder-like sink: xmp", "<xmp><a></XMP>", [S("xmp"), C("<a>"), E("xmp")], policy="treebuilder")
case("tree-builder-like sink: last start tag is updated", "<title><style></style></title>", [S("title"), C("<style></style>"), E("title")], policy="treebuilder")
case("tree-builder-like sink: CDATA in svg", "<svg><![CDATA[a<b>]]></svg><![CDATA[c]]>", [S("svg"), C("a<b>"), E("svg"), Cm("[CDATA[c]]")], policy="treebuilder")
case("tree-builder-like sink: title in svg is not RCDATA", "<svg><title>&amp;<b>", [S("svg"), S("title"), C("&"), S("b")], policy="treebuilder")

# ------------------------------------------------------------------------------------------
# CDATA sections
for inp, out in [
    ("<![CDATA[]]>", []), ("<![CDATA[a]]>", [C("a")]), ("<![CDATA[]]]>", [C("]")]), ("<![CDATA[]]]]>", [C("]]")]),
    ("<![CDATA[]x]]>", [C("]x")]), ("<![CDATA[]]x]]>", [C("]]x")]), ("<![CDATA[a", [C("a")]), ("<![CDATA[a]", [C("a]")]),
    ("<![CDATA[a]]", [C("a]]")]), ("<![CDATA[\0]]>", [C("\0")]), ("<![CDATA[&amp;<b>]]>x", [C("&amp;<b>x")]),
    ("<![CDATA[\r\n]]>", [C("\n")]), ("<![cdata[a]]>", [Cm("[cdata[a]]")]), ("<![CDATA", [Cm("[CDATA")]), ("<![CDATA[", []),
]:
    case("CDATA (foreign): %r" % inp, inp, out, foreign=True)
case("CDATA in HTML content", "<![CDATA[a]]>b", [Cm("[CDATA[a]]"), C("b")])
case("CDATA in HTML content at EOF", "<![CDATA[", [Cm("[CDATA[")])

# ------------------------------------------------------------------------------------------
# newline normalisation, line numbers, BOM
case("lone CR", "\r", [C("\n")], lines=[2, 2])
case("CRLF", "\r\n", [C("\n")], lines=[2, 2])
case("CR CRLF LF CR", "\r\r\n\n\r", [C("\n\n\n\n")], lines=[5, 5])
case("LF CR is two breaks", "a\n\rb", [C("a\n\nb")], lines=[3, 3])
case("CR in every state family", "<a\rb\r\n=\r'c\rd'>", [S("a", [("b", "c\nd")])], lines=[5, 5])
case("CRLF in comment", "<!--\r\n-->", [Cm("\n")], lines=[2, 2])
case("numeric reference to CR is not normalised", "&#13;&#10;&#xD;", [C("\r\n\r")], lines=[1, 1])
case("CR in RCDATA / RAWTEXT / script data / PLAINTEXT", "a\rb\r\nc", [C("a\nb\nc")], [RC, RAW, SCR, PLAIN, ESC, DESC], "x", lines=[3, 3])
case("lines: text, tag, text", "a\nb<c\n>d", [C("a\nb"), S("c"), C("d")], lines=[2, 3, 3, 3])
case("lines: reconsumed LF counts as consumed", "<\n", [C("<\n")], lines=[2, 2])
case("lines: comment, text, tag", "<!--a-->\n<b>", [Cm("a"), C("\n"), S("b")], lines=[1, 2, 2, 2])
case("lines: bogus comment", "</\n>", [Cm("\n")], lines=[2, 2])
case("lines: doctype", "<!DOCTYPE a\n>\n", [D("a", None, None, True), C("\n")], lines=[2, 3, 3])
case("lines: EOF in tag", "<a\n\n", [], lines=[3])
case("BOM kept", "\ufeffa", [C("\ufeffa")])
case("BOM discarded", "\ufeffa", [C("a")], discardBom=True)
case("only first BOM discarded", "\ufeff\ufeff<a>", [C("\ufeff"), S("a")], discardBom=True)
case("BOM not first is kept", "a\ufeff", [C("a\ufeff")], discardBom=True)

# ------------------------------------------------------------------------------------------
# named character references
ent("amp;", "&"), ent("amp", "&"), ent("AMP;", "&"), ent("AMP", "&"), ent("lt;", "<"), ent("lt", "<"), ent("LT", "<")
ent("gt;", ">"), ent("quot;", '"'), ent("apos;", "'"), noent("apos"), ent("not", "\u00ac"), ent("notin;", "\u2209")
noent("notit;"), noent("noti"), ent("nbsp;", "\u00a0"), ent("copy", "\u00a9"), ent("NotEqualTilde;", "\u2242\u0338"), ent("acE;", "\u223e\u0333")
ent("Lt;", "\u226a"), noent("Lt"), noent("foo;"), noent("x;"), ent("GT", ">")
case("&amp;", "&amp;", [C("&")])
case("&amp without semicolon", "&amp", [C("&")])
case("&AMP; and &AMP", "&AMP;&AMP", [C("&&")])
case("basic named references", "&lt;&gt;&quot;&apos;", [C("<>\"'")])
case("&apos needs its semicolon", "&apos", [C("&apos")])
case("longest match: &notit;", "&notit;", [C("\u00acit;")])
case("longest match: &notin;", "&notin;", [C("\u2209")])
case("&noti at EOF", "&noti", [C("\u00aci")])
case("&not at EOF", "&not", [C("\u00ac")])
case("&no is no reference", "&no", [C("&no")])
case("&nbsp;", "&nbsp;", [C("\u00a0")])
case("&copy without semicolon before letter (data)", "&copyx", [C("\u00a9x")])
case("two-code-point references", "&NotEqualTilde;&acE;", [C("\u2242\u0338\u223e\u0333")])
case("&amp;amp;", "&amp;amp;", [C("&amp;")])
case("&&amp;", "&&amp;", [C("&&")])
case("lone ampersand", "&", [C("&")])
case("&;", "&;", [C("&;")])
case("ampersand space", "& x", [C("& x")])
case("unknown named references", "&x;&1;&abcdefgh;&foo;bar", [C("&x;&1;&abcdefgh;&foo;bar")])
case("&ampamp", "&ampamp", [C("&amp")])
case("&lt variants", "&lt&ltx&LT&Lt;&Lt", [C("<<x<\u226a&Lt")])
case("data: no attribute exception", "&amp=&ampx&amp1", [C("&=&x&1")])
case("reference followed by <", "&amp<a>&<b>", [C("&"), S("a"), C("&"), S("b")])
case("case matters", "&Amp;&aMp;", [C("&Amp;&aMp;")])
case("references in double-quoted value", '<a b="&amp;&lt;x&amp">', [S("a", [("b", "&<x&")])])
case("references in single-quoted value", "<a b='&amp;&gt&apos;'>", [S("a", [("b", "&>'")])])
case("reference ending unquoted value", "<a b=&amp>", [S("a", [("b", "&")])])
case("reference then space in unquoted value", "<a b=&amp c>", [S("a", [("b", "&"), ("c", "")])])
case("attribute exception: =", '<a b="&amp=">', [S("a", [("b", "&amp=")])])
case("attribute exception: letter", '<a b="&ampx">', [S("a", [("b", "&ampx")])])
case("attribute exception: digit", '<a b="&not1">', [S("a", [("b", "&not1")])])
case("no exception with semicolon", '<a b="&amp;x&amp;=">', [S("a", [("b", "&x&=")])])
case("no exception before space or punctuation", '<a b="&amp x&not!&copy-">', [S("a", [("b", "& x\u00ac!\u00a9-")])])
case("attribute exception applies to the longest match only", '<a b="&notit;">', [S("a", [("b", "&notit;")])])
case("&notin; in attribute", '<a b="&notin;">', [S("a", [("b", "\u2209")])])
case("attribute exception single-quoted", "<a b='&copy='>", [S("a", [("b", "&copy=")])])
case("attribute exception unquoted", "<a b=&copy=>", [S("a", [("b", "&copy=")])])
case("attribute exception unquoted letter", "<a b=&GTx>", [S("a", [("b", "&GTx")])])
case("unknown reference in attribute", '<a b="&foo;&">', [S("a", [("b", "&foo;&")])])
case("lone ampersand unquoted", "<a b=&>", [S("a", [("b", "&")])])
case("ampersand before quote", "<a b='&'c=\"&\">", [S("a", [("b", "&"), ("c", "&")])])
case("two-code-point reference in attribute", '<a b="&acE;">', [S("a", [("b", "\u223e\u0333")])])
names_semi = sorted(n for n in ENT if n.endswith(";"))
case("every named reference with semicolon", " ".join("&" + n for n in names_semi), [C(" ".join(ENT[n] for n in names_semi))])
names_legacy = sorted(n for n in ENT if not n.endswith(";"))
assert len(names_legacy) == 106 and len(names_semi) == 2125
case("every legacy named reference without semicolon", " ".join("&" + n for n in names_legacy) + " ", [C(" ".join(ENT[n] for n in names_legacy) + " ")])
case("every legacy named reference followed by = in an attribute", '<a b="' + " ".join("&" + n + "=" for n in names_legacy) + '">',
     [S("a", [("b", " ".join("&" + n + "=" for n in names_legacy))])])

# ------------------------------------------------------------------------------------------
# numeric character references
case("decimal and hex", "&#65;&#65&#x41;&#X41;&#x4a;&#x4A;&#00065;", [C("AAAAJJA")])
case("zero", "&#0;&#x0;&#00", [C(FFFD * 3)])
case("upper bound", "&#x10FFFF;&#1114111;&#x110000;&#1114112;", [C("\U0010FFFF\U0010FFFF" + FFFD * 2)])
case("surrogates", "&#xD7FF;&#xD800;&#xDBFF;&#xDC00;&#xDFFF;&#xE000;", [C("\ud7ff" + FFFD * 4 + "\ue000")])
case("noncharacters are kept", "&#xFDD0;&#xFDEF;&#xFFFE;&#xFFFF;&#x1FFFE;&#x10FFFE;", [C("\ufdd0\ufdef\ufffe\uffff\U0001FFFE\U0010FFFE")])
case("controls are kept", "&#1;&#8;&#11;&#x1F;&#x7F;&#9;&#12;&#32;", [C("\x01\x08\x0b\x1f\x7f\t\x0c ")])


def c1(cp):
    try:
        return bytes([cp]).decode("cp1252")
    except UnicodeDecodeError:
        return chr(cp)


case("C1 range uses the windows-1252 table", "".join("&#x%X;" % cp for cp in range(0x80, 0xA0)), [C("".join(c1(cp) for cp in range(0x80, 0xA0)))])
case("C1 decimal", "&#128;&#129;&#159;&#160;", [C("\u20ac\x81\u0178\xa0")])
case("huge values", "&#99999999999999999999;&#x100000000;&#x1000000041;&#4294967361;&#xFFFFFFFFFFFFFFFFFFFF", [C(FFFD * 5)])
case("not references", "&#", [C("&#")])
case("not references: &#;", "&#;&#x&#X;&#xg&#a&#-1;", [C("&#;&#x&#X;&#xg&#a&#-1;")])
case("EOF after &#x", "&#x", [C("&#x")])
case("digits then junk", "&#x41g&#65a&#65x&#x41;&#x42", [C("AgAaAxAB")])
case("numeric references in attributes", '<a b="&#65;&#x42;&#67" c=&#68 d=\'&#x0;&#\'>', [S("a", [("b", "ABC"), ("c", "D"), ("d", FFFD + "&#")])])
case("numeric non-references in attributes", '<a b="&#x" c="&#xz" d=&#>', [S("a", [("b", "&#x"), ("c", "&#xz"), ("d", "&#")])])
case("numeric reference without semicolon before = in attribute (no exception for numeric)", '<a b="&#65=">', [S("a", [("b", "A=")])])
case("NUL in data", "a\0b", [C("a\0b")])

# ------------------------------------------------------------------------------------------
# the crate's own extra html5lib-format cases (/repo/rcdom/custom-html5lib-tokenizer-tests),
# copied verbatim (expected errors dropped)
FOUR = [DATA, RC, RAW, SCR]
CUSTOM = [
    ("Duplicate attribute - simple case", "<div id='first' id='second'>", [["StartTag", "div", {"id": "first"}]], None, None),
    ("Duplicate attribute - three duplicates", "<div id='first' id='second' id='third'>", [["StartTag", "div", {"id": "first"}]], None, None),
    ("Duplicate attribute - mixed with other attrs", "<div class='foo' id='first' title='bar' id='second'>",
     [["StartTag", "div", {"class": "foo", "id": "first", "title": "bar"}]], None, None),
    ("Duplicate nonce attribute", "<script nonce='abc123' nonce='xyz789'>", [["StartTag", "script", {"nonce": "abc123"}]], None, None),
    ("No duplicate - different attributes", "<div id='test' class='foo'>", [["StartTag", "div", {"id": "test", "class": "foo"}]], None, None),
    ("Duplicate attribute - case insensitive (ID vs id)", "<div ID='first' id='second'>", [["StartTag", "div", {"id": "first"}]], None, None),
    ("Multiple different duplicates", "<div id='a' id='b' class='x' class='y'>", [["StartTag", "div", {"id": "a", "class": "x"}]], None, None),
    ("Nested HTML comment", "<j 0=\r\n>", [["StartTag", "j", {"0": ""}]], None, None),
    ("Windows newline in docstring", "<!DOCTYPE0\r\nPUBLIC'", [["DOCTYPE", "0", "", None, False]], None, None),
    ("abrupt end to charref", "<l 0=&\r0='>", [], None, None),
    ("Windows newline between unquoted attributes", "<F\r0=&GT\r0='>", [], None, None),
    ("Windows newline after bogusname", "&0\r\n", [["Character", "&0\n"]], None, None),
    ("Bogus comment after end tag with space", "</style ><!a>", [["EndTag", "style"], ["Comment", "a"]], FOUR, "style"),
    ("Bogus comment after end tag with solidus", "</style/><!a>", [["EndTag", "style"], ["Comment", "a"]], FOUR, "style"),
]
for desc, inp, out, states, last in CUSTOM:
    case("custom: " + desc, inp, out, states, last)


def main():
    here = os.path.dirname(os.path.abspath(__file__))
    path = sys.argv[1] if len(sys.argv) > 1 else os.path.join(here, "..", "vectors", "tokenizer_vectors.json")
    descs = [t["description"] for t in TESTS]
    assert len(descs) == len(set(descs)), [d for d in descs if descs.count(d) > 1]
    with open(path, "w", encoding="utf-8") as f:
        f.write('{"tests": [\n')
        f.write(",\n".join(json.dumps(t, ensure_ascii=True) for t in TESTS))
        f.write("\n]}\n")
    runs = sum(len(t.get("initialStates", [DATA])) for t in TESTS)
    print("wrote %d cases (%d runs) to %s" % (len(TESTS), runs, os.path.normpath(path)))


if __name__ == "__main__":
    main()
