"""Sanitizer legs: run the same harness workloads under Miri, AddressSanitizer and ThreadSanitizer.

run(pid, tier, seed, root, env) -> exit code contribution (0 ok, 1 violation, 2 inconclusive).
Each leg process gets VERIF_LEG=<name>, writes evidence/legs/<pid>.<name>.json itself; this module
classifies the sanitizer's own reports (stderr), writes a replay file for them, prints the
VIOLATION line and merges a summary of all legs into evidence/<pid>.json.
"""
import json, os, re, subprocess, sys, time, hashlib
from concurrent.futures import ThreadPoolExecutor

HARNESS = None

# (tool, number of processes) per property and tier
PLAN = {
    "C10": {"quick": [("miri", 3)], "thorough": [("miri", 8), ("asan", 1)]},
    "C11": {"quick": [("miri", 6)], "thorough": [("miri", 16), ("asan", 1), ("checked", 1)]},
    "C12": {"quick": [("miri", 8)], "thorough": [("miri", 32), ("asan", 1), ("tsan", 4)]},
    "C13": {"quick": [("miri", 3), ("checked", 1)], "thorough": [("miri", 8), ("asan", 1), ("checked", 1)]},
    "C04": {"quick": [], "thorough": [("asan", 1), ("miri", 4), ("checked", 1)]},
    # the repository's own debug_assert!s (SIMD first-character assertion, BufferQueue non-empty
    # invariant, tendril slice bounds) act as extra monitors in the debug-assertion profile
    "C01": {"quick": [], "thorough": [("checked", 1)]},
    "C03": {"quick": [], "thorough": [("checked", 1), ("asan", 1)]},
    "C08": {"quick": [], "thorough": [("checked", 1)]},
    "C09": {"quick": [], "thorough": [("checked", 1)]},
    "C20": {"quick": [("miri", 2)], "thorough": [("miri", 8), ("asan", 1)]},
}

MIRIFLAGS = "-Zmiri-disable-isolation -Zmiri-permissive-provenance"
# histories per sanitizer-tier process
SAN_N = {("C11", "miri", "quick"): 5, ("C11", "miri", "thorough"): 26, ("miri", "quick"): 12, ("miri", "thorough"): 40, ("tsan", "quick"): 200, ("tsan", "thorough"): 400}
TIER = ["quick"]


def cargo_env(base, target):
    e = dict(base)
    e["CARGO_TARGET_DIR"] = target
    e.setdefault("CARGO_NET_OFFLINE", "true")
    return e


def build_asan(root, env):
    e = cargo_env(env, os.path.join(root, "target-asan"))
    e["RUSTFLAGS"] = "-Zsanitizer=address -Cforce-frame-pointers=yes"
    cmd = ["cargo", "+nightly", "build", "--offline", "--release", "--target", "x86_64-unknown-linux-gnu", "--features", "no_valloc",
           "--manifest-path", os.path.join(root, "harness", "Cargo.toml")]
    p = subprocess.run(cmd, env=e, stdout=subprocess.PIPE, stderr=subprocess.STDOUT, text=True)
    if p.returncode != 0:
        return None, p.stdout[-3000:]
    return os.path.join(root, "target-asan", "x86_64-unknown-linux-gnu", "release", "vharness"), ""


def build_tsan(root, env):
    e = cargo_env(env, os.path.join(root, "target-tsan"))
    e["RUSTFLAGS"] = "-Zsanitizer=thread"
    cmd = ["cargo", "+nightly", "build", "--offline", "--release", "-Zbuild-std", "--target", "x86_64-unknown-linux-gnu", "--features", "no_valloc",
           "--manifest-path", os.path.join(root, "harness", "Cargo.toml")]
    p = subprocess.run(cmd, env=e, stdout=subprocess.PIPE, stderr=subprocess.STDOUT, text=True)
    if p.returncode != 0:
        return None, p.stdout[-3000:]
    return os.path.join(root, "target-tsan", "x86_64-unknown-linux-gnu", "release", "vharness"), ""


def build_checked(root, env):
    e = cargo_env(env, os.path.join(root, "target"))
    cmd = ["cargo", "build", "--offline", "--profile", "checked", "--manifest-path", os.path.join(root, "harness", "Cargo.toml")]
    p = subprocess.run(cmd, env=e, stdout=subprocess.PIPE, stderr=subprocess.STDOUT, text=True)
    if p.returncode != 0:
        return None, p.stdout[-3000:]
    return os.path.join(root, "target", "checked", "vharness"), ""


def warm_miri(root, env):
    e = cargo_env(env, os.path.join(root, "target-miri"))
    e["MIRIFLAGS"] = MIRIFLAGS
    cmd = ["cargo", "+nightly", "miri", "run", "--offline", "--manifest-path", os.path.join(root, "harness", "Cargo.toml"), "--", "NOP"]
    p = subprocess.run(cmd, env=e, stdout=subprocess.PIPE, stderr=subprocess.STDOUT, text=True, cwd=os.path.join(root, "harness"))
    return p.returncode == 0, p.stdout[-3000:]


def tsan_blocks(text):
    blocks, cur, inside = [], [], False
    for line in text.splitlines():
        if line.strip() == "==================":
            if inside and cur:
                blocks.append("\n".join(cur))
            cur, inside = [], not inside if not cur else True
            inside = True
            continue
        if inside:
            cur.append(line)
    if cur and any("ThreadSanitizer" in l for l in cur):
        blocks.append("\n".join(cur))
    return [b for b in blocks if "WARNING: ThreadSanitizer" in b]


def classify_tsan(text):
    """Split TSan output into (blind_spot_blocks, real_blocks).

    tendril's last-drop protocol is fetch_sub(Release) on every drop + fence(Acquire) before the
    free. ThreadSanitizer does not model atomic::fence, so it reports the final deallocation
    racing with another thread's earlier atomic decrement/increment of the reference count. A
    report is that blind spot iff one of its two accesses is an *atomic* access inside
    Atomicity::decrement/increment and the other is the free in Buf32::destroy / Drop. It is
    counted, never a verdict (Miri, which models fences, is the race oracle for this protocol).
    The same blind spot has a second face: a thread reads the buffer (header or data) *before* its own
    Release decrement; TSan then pairs that plain read with the last owner's free. Every "read vs the
    free in Buf32::destroy under <Tendril as Drop>::drop" pair is classified as blind spot too (a real
    read-after-free is ASan's and Miri's to report).
    Everything else (e.g. two plain accesses to a header or data byte) is a violation."""
    blind, real = [], []
    for b in tsan_blocks(text):
        # the two access sections: a header line "... of size N at ADDR by thread ..." followed by its stack
        acc, cur = [], None
        for line in b.splitlines():
            if re.match(r"^\s+(Previous )?(atomic )?(write|read) of size \d+ at ", line, re.I):
                cur = [line]
                acc.append(cur)
            elif cur is not None:
                if line.strip() == "":
                    cur = None
                else:
                    cur.append(line)
        acc = ["\n".join(x) for x in acc]
        is_atomic = lambda x: "atomic" in x.splitlines()[0].lower() and ("Atomicity>::decrement" in x or "Atomicity>::increment" in x)
        is_free = lambda x: ("::destroy" in x or " free " in x or "dealloc" in x)

        def is_read(x):
            return re.match(r"^\s+(Previous )?(atomic )?read of size \d+ at ", x.splitlines()[0], re.I) is not None

        def is_drop_free(x):
            # the deallocation of the buffer by the last owner: free() reached from Buf32::destroy under
            # <Tendril as Drop>::drop
            return re.match(r"^\s+(Previous )?write of size \d+ at ", x.splitlines()[0], re.I) is not None and "Buf32" in x and "::destroy" in x and "as core::ops::drop::Drop>::drop" in x and ("free " in x or "dealloc" in x)

        if len(acc) >= 2 and ((is_atomic(acc[0]) and is_free(acc[1])) or (is_atomic(acc[1]) and is_free(acc[0]))):
            blind.append(b)
        elif len(acc) >= 2 and ((is_read(acc[0]) and is_drop_free(acc[1])) or (is_read(acc[1]) and is_drop_free(acc[0]))):
            # Any READ of the buffer (header in assume_buf, data in owned_copy / memcpy, ...) by a thread
            # that still held a reference is ordered before the last owner's free by that thread's own
            # Release decrement and the freeing thread's Acquire fence - the edge TSan does not model. The
            # pair "read vs the last-drop free" therefore carries no information under TSan; a read that
            # really happens after the free is a use-after-free, which the ASan and Miri legs (same
            # histories) report deterministically. Writes racing with the free, and every pair that does
            # not involve the last-drop free, remain violations.
            blind.append(b)
        else:
            real.append(b)
    return blind, real


def run_leg(root, env, pid, tool, k, seed, binary):
    name = f"{tool}-{k}"
    e = dict(env)
    e["VERIF_LEG"] = name
    e["VERIF_ROOT"] = root
    e["VERIF_JOBS"] = "2"
    e["VERIF_SAN_N"] = str(SAN_N.get((pid, tool, TIER[0]), SAN_N.get((tool, TIER[0]), 24)))
    leg_seed = str(int(seed) * 1000 + k)
    t0 = time.time()
    if tool == "miri":
        e = cargo_env(e, os.path.join(root, "target-miri"))
        e["MIRIFLAGS"] = MIRIFLAGS + (f" -Zmiri-seed={k}" if k else "")
        cmd = ["cargo", "+nightly", "miri", "run", "--offline", "--manifest-path", os.path.join(root, "harness", "Cargo.toml"), "--",
               pid, "--tier", "sanitizer", "--seed", leg_seed, "--root", root]
        cwd = os.path.join(root, "harness")
    elif tool == "tsan":
        e["TSAN_OPTIONS"] = "halt_on_error=0 report_signal_unsafe=0 history_size=4"
        cmd = [binary, pid, "--tier", "sanitizer", "--seed", leg_seed, "--root", root]
        cwd = root
    elif tool == "asan":
        e["ASAN_OPTIONS"] = "detect_leaks=1 halt_on_error=1 abort_on_error=0 detect_stack_use_after_return=0"
        e["VERIF_BUDGET_S"] = "25"
        e["VERIF_JOBS"] = "8"
        cmd = [binary, pid, "--tier", "quick", "--seed", leg_seed, "--root", root]
        cwd = root
    else:  # checked profile (debug assertions + overflow checks of the repository itself)
        e["VERIF_BUDGET_S"] = "15"
        e["VERIF_JOBS"] = "8"
        cmd = [binary, pid, "--tier", "quick", "--seed", leg_seed, "--root", root]
        cwd = root
    try:
        p = subprocess.run(cmd, env=e, cwd=cwd, stdout=subprocess.PIPE, stderr=subprocess.PIPE, text=True, timeout=3000)
        out, err, code = p.stdout, p.stderr, p.returncode
    except subprocess.TimeoutExpired:
        return {"leg": name, "tool": tool, "status": "inconclusive", "why": "watchdog", "wall_s": time.time() - t0}
    res = {"leg": name, "tool": tool, "seed": leg_seed, "exit": code, "wall_s": round(time.time() - t0, 1), "status": "ok", "reports": 0}
    # functional VIOLATION lines printed by the harness itself under the sanitizer
    vio = [l for l in out.splitlines() if l.startswith("VIOLATION ")]
    summary = [l for l in out.splitlines() if l.startswith(pid + " ")]
    if summary:
        m = re.search(r"evaluations=(\d+)", summary[-1])
        res["evaluations"] = int(m.group(1)) if m else None
    report = None
    if tool == "miri":
        if "Undefined Behavior" in err or "data race" in err.lower() or "memory leaked" in err or "error: the evaluated program leaked memory" in err:
            report = err[-6000:]
        elif code not in (0, 1) :
            res["status"] = "inconclusive"
            res["why"] = (err.strip().splitlines() or ["miri failed"])[-1][:300]
    elif tool == "asan":
        if "ERROR: AddressSanitizer" in err or "ERROR: LeakSanitizer" in err:
            report = err[-6000:]
        elif code not in (0, 1, 2):
            res["status"] = "inconclusive"
            res["why"] = f"exit {code}: " + (err.strip().splitlines() or [""])[-1][:300]
    elif tool == "tsan":
        blind, real = classify_tsan(err)
        res["tsan_fence_blind_spot_reports"] = len(blind)
        try:
            # keep the sanitizer's own output next to the leg's evidence (legs/out is scratch, not committed)
            os.makedirs(os.path.join(root, "legs", "out"), exist_ok=True)
            open(os.path.join(root, "legs", "out", f"{pid}.{name}.stderr"), "w").write(err)
        except OSError:
            pass
        if real:
            report = "\n".join(real)[-6000:]
        elif code not in (0, 1, 2, 66):
            res["status"] = "inconclusive"
            res["why"] = f"exit {code}"
    else:
        if code not in (0, 1, 2):
            res["status"] = "inconclusive"
            res["why"] = f"exit {code}"
    if report is not None:
        res["status"] = "violation"
        res["reports"] = 1
        d = os.path.join(root, "replays", pid)
        os.makedirs(d, exist_ok=True)
        h = hashlib.sha1(report.encode()).hexdigest()[:16]
        path = os.path.join(d, f"{tool}-{h}.json")
        first = next((l for l in report.splitlines() if "error" in l.lower() or "WARNING" in l or "ERROR" in l), report.splitlines()[0] if report else "")
        json.dump({"property": pid, "leg": name, "tool": tool, "command": " ".join(cmd), "env": {k: e[k] for k in ("MIRIFLAGS", "ASAN_OPTIONS", "TSAN_OPTIONS") if k in e}, "report": report}, open(path, "w"), indent=1)
        print(f"VIOLATION property={pid} replay={path} signature=\"sanitizer:{tool}\" {first.strip()[:300]}")
    elif vio:
        res["status"] = "violation"
        for l in vio:
            print(l)
    elif code == 2 and tool in ("asan", "checked") and res["status"] == "ok":
        # harness-level inconclusive (e.g. observed too little in the shortened run) is not a verdict for the leg
        res["note"] = "harness reported inconclusive in the shortened run"
    return res


def run(pid, tier, seed, root, env):
    plan = PLAN.get(pid, {}).get(tier, [])
    if not plan:
        return 0
    TIER[0] = tier
    binaries = {}
    results = []
    for tool, _ in plan:
        if tool == "asan" and "asan" not in binaries:
            binaries["asan"], msg = build_asan(root, env)
            if binaries["asan"] is None:
                results.append({"leg": "asan", "tool": "asan", "status": "inconclusive", "why": "build failed: " + msg[-500:]})
        if tool == "tsan" and "tsan" not in binaries:
            binaries["tsan"], msg = build_tsan(root, env)
            if binaries["tsan"] is None:
                results.append({"leg": "tsan", "tool": "tsan", "status": "inconclusive", "why": "build failed: " + msg[-500:]})
        if tool == "checked" and "checked" not in binaries:
            binaries["checked"], msg = build_checked(root, env)
            if binaries["checked"] is None:
                results.append({"leg": "checked", "tool": "checked", "status": "inconclusive", "why": "build failed: " + msg[-500:]})
        if tool == "miri" and "miri" not in binaries:
            ok, msg = warm_miri(root, env)
            binaries["miri"] = "cargo-miri" if ok else None
            if not ok:
                results.append({"leg": "miri", "tool": "miri", "status": "inconclusive", "why": "miri build failed: " + msg[-500:]})
    jobs = []
    for tool, n in plan:
        if binaries.get(tool) is None:
            continue
        for k in range(n):
            jobs.append((tool, k))
    with ThreadPoolExecutor(max_workers=16) as ex:
        futs = [ex.submit(run_leg, root, env, pid, tool, k, seed, binaries[tool]) for tool, k in jobs]
        for f in futs:
            results.append(f.result())
    # merge into the main evidence file
    evp = os.path.join(root, "evidence", f"{pid}.json")
    try:
        ev = json.load(open(evp))
        by_tool = {}
        for r in results:
            t = by_tool.setdefault(r["tool"], {"processes": 0, "evaluations": 0, "reports": 0, "inconclusive": 0, "wall_s": 0.0})
            t["processes"] += 1
            t["evaluations"] += r.get("evaluations") or 0
            t["reports"] += r.get("reports", 0)
            t["inconclusive"] += 1 if r["status"] == "inconclusive" else 0
            t["wall_s"] = round(max(t["wall_s"], r.get("wall_s", 0)), 1)
            if "tsan_fence_blind_spot_reports" in r:
                t["fence_blind_spot_reports(not a verdict)"] = t.get("fence_blind_spot_reports(not a verdict)", 0) + r["tsan_fence_blind_spot_reports"]
        ev["coverage"]["sanitizer_legs"] = {"summary": by_tool, "legs": results, "miriflags": MIRIFLAGS}
        json.dump(ev, open(evp, "w"), indent=1)
    except Exception as ex:  # evidence missing: leave it
        print(f"INCONCLUSIVE property={pid} could not merge sanitizer legs into evidence: {ex}")
        return 2
    if any(r["status"] == "violation" for r in results):
        return 1
    inconc = [r for r in results if r["status"] == "inconclusive"]
    if inconc:
        for r in inconc:
            print(f"INCONCLUSIVE property={pid} sanitizer leg {r['leg']}: {r.get('why', '')}")
        return 2
    tools = ", ".join(f"{t}: {v['processes']} proc / {v['evaluations']} histories / {v['reports']} reports" for t, v in by_tool.items())
    print(f"{pid} sanitizer legs clean ({tools})")
    return 0
